"""Constant propagation with set-of-vectors states (relational over the tracked integer locals).

Tracked: integer locals whose address is never taken.  A variable's value is known in a state when every store that
reached it on that path was a constant, or an arithmetic update of a known value by a constant, or a copy of a known
variable.  Unknown values are simply absent from the state.  Branches whose condition evaluates under the state are
pruned; others fork.  The number of states per block is capped (loops that do not stabilise give TOP = give up).

This is partial evaluation of the function's own constants; no input is chosen and nothing is executed.
"""
import collections
from .prog import *

MAXS = 128


class ConstFlow(object):
    def __init__(self, fn, P=None, track=None, extra_known=None):
        self.fn = fn
        self.P = P
        addr = set()
        for el in fn.elems():
            for sub in walk(el.e):
                if is_e(sub, "addr") and is_e(strip(sub[1]), "var"):
                    addr.add(strip(sub[1])[1])
        self.vars = set(n for n, t in list(fn.locals.items()) if n not in addr)
        if track is not None:
            self.vars &= set(track)
        self.before = collections.defaultdict(set)   # (bid, idx) -> set(state)  state = frozenset of (var, val)
        self.block_in = collections.defaultdict(set)
        self.top = False
        self.extra = extra_known or {}
        self.solve()

    def val(self, e, st):
        env = dict(st)
        env.update(self.extra)
        try:
            return evalx(e, _Env(env), self.P)
        except (EvalError, AnalysisBroken, KeyError, TypeError):
            return None

    def apply(self, el, st):
        e = el.e
        d = dict(st)
        k = e[0]
        if k == "decl":
            name, rhs = e[1], e[3]
            if name in self.vars:
                v = self.val(rhs, st) if not _has_effect(rhs) else None
                if v is None:
                    d.pop(name, None)
                else:
                    d[name] = v
        elif k == "asg":
            lhs = strip(e[2])
            if is_e(lhs, "var") and lhs[1] in self.vars:
                name = lhs[1]
                rhs = e[3]
                v = None
                if not _has_effect(rhs):
                    rv = self.val(rhs, st)
                    if rv is not None:
                        if e[1] == "=":
                            v = rv
                        elif name in d:
                            try:
                                v = evalx(["bin", e[1][:-1], ["int", d[name]], ["int", rv]], {})
                            except EvalError:
                                v = None
                if v is None:
                    d.pop(name, None)
                else:
                    d[name] = v
        elif k == "incdec":
            lhs = strip(e[3])
            if is_e(lhs, "var") and lhs[1] in self.vars and lhs[1] in d:
                d[lhs[1]] += 1 if e[1] == "++" else -1
        return frozenset(d.items())

    def solve(self):
        fn = self.fn
        if fn.entry is None:
            return
        init = frozenset()
        self.block_in[fn.entry].add(init)
        work = collections.deque([(fn.entry, init)])
        while work:
            bid, st = work.popleft()
            blk = fn.blocks[bid]
            cur = st
            for el in blk.elems:
                self.before[(bid, el.idx)].add(cur)
                # nested inc/dec inside other elements are their own elements already (CFG order)
                cur = self.apply(el, cur)
            self.before[(bid, len(blk.elems))].add(cur)
            for s, lab in blk.succ:
                if lab in ("T", "F") and blk.term and "cond" in blk.term:
                    v = self.val(blk.term["cond"], cur) if not _has_effect(blk.term["cond"]) else None
                    if v is not None and bool(v) != (lab == "T"):
                        continue
                if cur in self.block_in[s]:
                    continue
                if len(self.block_in[s]) >= MAXS:
                    self.top = True
                    continue
                self.block_in[s].add(cur)
                work.append((s, cur))

    def states_before(self, el):
        return self.before.get((el.bid, el.idx), set())

    def states_at_term(self, bid):
        return self.before.get((bid, len(self.fn.blocks[bid].elems)), set())

    def values(self, el, expr):
        """Set of values of expr over all states before el; None inside when unknown."""
        return set(self.val(expr, st) for st in self.states_before(el))


class _Env(dict):
    """evalx env keyed by key(e) or by variable name."""

    def __init__(self, byname):
        dict.__init__(self)
        self.byname = byname

    def __contains__(self, k):
        if isinstance(k, tuple) and len(k) == 3 and k[0] == "var":
            return k[1] in self.byname and k[2] in ("local", "param")
        return isinstance(k, str) and k in self.byname

    def __getitem__(self, k):
        if isinstance(k, tuple):
            return self.byname[k[1]]
        return self.byname[k]


def _has_effect(e):
    for s in walk(e):
        if s[0] in ("call", "asg", "incdec"):
            return True
    return False
