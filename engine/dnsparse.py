"""Shared rules for the evdns wire parsers (C33, C37): bounds discipline, dead guards, allocation use, ownership."""
from .core import Rule
from .prog import *
from . import effects


def linear(e, sign=1, out=None):
    """multiset of signed leaves of a +/- expression; integer constants are summed under the key 'const'"""
    if out is None:
        out = {}
    e = strip(e)
    if is_e(e, "bin") and e[1] in ("+", "-"):
        linear(e[2], sign, out)
        linear(e[3], sign if e[1] == "+" else -sign, out)
    elif is_e(e, "int"):
        out["const"] = out.get("const", 0) + sign * e[1]
    else:
        k = key(e)
        out[k] = out.get(k, 0) + sign
        if out[k] == 0:
            del out[k]
    if out.get("const") == 0:
        out.pop("const", None)
    return out


def wire_accesses(fn, packet, extra_bufs=()):
    """[(elem, index_expr, size_expr, what)] for reads of the wire buffer parameter `packet`."""
    out = []
    P = ["var", packet, "param"]
    seen = set()
    for el in fn.elems():
        for s in walk(el.e):
            if is_e(s, "idx") and eq(strip(s[1]), P):
                ix = strip(s[2])
                if is_e(ix, "incdec"):
                    ix = strip(ix[3])
                k = (el.bid, key(s))
                if k in seen:
                    continue
                seen.add(k)
                out.append((el, ix, ["int", 1, "1"], show(s)))
            if is_e(s, "call") and callee_name(s) in ("memcpy", "memmove", "memcmp") and len(s[2]) >= 3:
                for ai in (0, 1):
                    a = strip(s[2][ai])
                    if is_e(a, "bin") and a[1] == "+" and eq(strip(a[2]), P):
                        k = (el.bid, key(s))
                        if k in seen:
                            continue
                        seen.add(k)
                        out.append((el, strip(a[3]), s[2][2], "%s(%s)" % (callee_name(s), show(a))))
    # the same for terminator conditions
    for b in fn.blocks.values():
        if b.term and "cond" in b.term:
            for s in walk(b.term["cond"]):
                if is_e(s, "idx") and eq(strip(s[1]), P):
                    pass
    return out


def bound_guard(fn, el, ix, size, length):
    """a dominating guard whose failing edge implies ix + size <= length, with the index variables untouched in between"""
    need = linear(["bin", "+", ix, size])
    L = ["var", length, "param"]
    for c, t, b in fn.guards_at(el.bid):
        c2, t2 = negate_truth(c, t)
        c2 = strip(c2)
        if not is_e(c2, "bin"):
            continue
        ok = False
        if c2[1] == ">" and not t2 and eq(strip(c2[3]), L):
            have = linear(c2[2])
            ok = have == need
        elif c2[1] == ">=" and not t2 and eq(strip(c2[3]), L):
            have = linear(["bin", "+", c2[2], ["int", 1, "1"]])
            ok = have == need
        elif c2[1] == "<" and t2 and eq(strip(c2[3]), L):
            have = linear(["bin", "+", c2[2], ["int", 1, "1"]])
            ok = have == need
        elif c2[1] == "<=" and t2 and eq(strip(c2[3]), L):
            ok = linear(c2[2]) == need
        if not ok:
            continue
        # no store to the index variables between the guard and the access
        vs = set(q[1] for q in walk(ix) if is_e(q, "var"))
        mid = fn.segment_blocks(b.id, el.bid)
        touched = False
        for v in vs:
            for d, rhs in fn.var_stores(v):
                if d.bid in mid and d.bid != b.id:
                    if d.bid == el.bid and d.idx >= el.idx:
                        continue
                    # the post-increment that belongs to this very access
                    if d.bid == el.bid and d.e[0] == "incdec" and any(eq(q, d.e) for q in walk(el.e)):
                        continue
                    touched = True
        if not touched:
            return "%s:%d `%s` false" % (fn.file, b.term["loc"][0], show(c2)[:50])
    return None


def rule_bounds(P, fnames, rid, floor):
    r = Rule(rid, "K4", "every read of the wire buffer is dominated by a bound test on the same index and size", floor=floor)
    for name in fnames:
        f = P.fn(name)
        pk = [n for n, t in f.params if t.replace(" ", "") in ("u8*", "constu8*", "unsignedchar*", "constunsignedchar*", "uint8_t*")]
        ln = [n for n, t in f.params if n in ("length", "len", "msg_len")]
        if not pk or not ln:
            r.brk("%s: packet/length parameters not recognised (%s)" % (name, f.params))
            continue
        for el, ix, size, what in wire_accesses(f, pk[0]):
            g = bound_guard(f, el, ix, size, ln[0])
            r.inst((name, el.n, what), {"fn": name, "site": el.where(), "access": what, "index": show(ix), "size": show(size), "guard": g,
                                        "macro": el.mac[0] if el.mac else None})
            if g is None:
                r.bad("K4:%s:unguarded-wire-read:%s" % (name, what[:40]), el.where(), name,
                      "%s reads %s byte(s) at %s[%s] without a dominating test that %s + %s <= %s" % (what, show(size), pk[0], show(ix), show(ix), show(size), ln[0]))
    return r


def rule_output_bounds(P, name, rid):
    """writes into the caller-provided name buffer in name_parse are capacity-checked (cp + n >= end -> fail)"""
    r = Rule(rid, "K4", "name_parse: every write into the output buffer is dominated by its capacity test; pointer loops are bounded", floor=3)
    f = P.fn(name)
    cpv = "cp"
    writes = []
    for el in f.elems():
        e = el.e
        if e[0] == "asg" and is_e(strip(e[2]), "deref") and root_var(strip(e[2])) is not None and root_var(strip(e[2]))[1] == cpv:
            writes.append((el, ["int", 1, "1"], show(e)))
        if e[0] == "call" and callee_name(e) == "memcpy" and root_var(e[2][0]) is not None and root_var(e[2][0])[1] == cpv:
            writes.append((el, e[2][2], show(e)[:50]))
    for el, size, what in writes:
        ok = None
        for c, t, b in f.guards_at(el.bid):
            c2, t2 = negate_truth(c, t)
            c2 = strip(c2)
            if is_e(c2, "bin") and c2[1] == ">=" and not t2 and is_e(strip(c2[3]), "var") and strip(c2[3])[1] == "end":
                l = linear(c2[2])
                # cp (+ n) >= end false  =>  cp + n < end
                if key(["var", cpv, "local"]) in l:
                    rest = dict(l)
                    rest.pop(key(["var", cpv, "local"]))
                    want = linear(size)
                    # `*cp = 0` after the loop: guard is cp >= end (rest empty) and size 1 -> cp < end ok
                    if rest == want or (not rest and want == {"const": 1}) or (rest == {"const": 1} and want == {"const": 1}):
                        ok = "%s:%d `%s` false" % (f.file, b.term["loc"][0], show(c2))
        r.inst((name, el.n), {"fn": name, "site": el.where(), "write": what, "guard": ok})
        if ok is None:
            r.bad("K4:%s:unguarded-output-write" % name, el.where(), name, "%s is not dominated by a capacity test against `end`" % what)
    # pointer loop bounded: the compression-pointer branch increments a counter that is tested against length
    ok = False
    for b in f.branch_blocks():
        c = strip(b.term["cond"])
        if is_e(c, "bin") and c[1] == ">" and is_e(strip(c[2]), "incdec") and eq(strip(c[3]), ["var", "length", "param"]):
            ok = True
    r.inst("ptr-loop", {"fn": name, "pointer_jumps_counted_against_length_in_one_expression": ok, "note": "how the jumps are counted is a matter of spelling; that the count stops a cycle is decided by the evaluation below"})
    # ... and the count works: the function is evaluated on packets whose name runs into a compression-pointer cycle without labels; it has to give up, not spin
    from .cmem import MEM0, mem_put, mem_hook
    from .interp import run_all, normx
    hdr = bytes(12)
    LOOPS = [("pointer to itself", hdr + b"\xc0\x0c", 12, None), ("two pointers to one another", hdr + b"\xc0\x0e\xc0\x0c", 12, None),
             ("label, then a pointer back behind the label", hdr + b"\x01a\xc0\x0e\xc0\x0e", 12, None),
             ("three-pointer cycle", hdr + b"\xc0\x0e\xc0\x10\xc0\x0c", 12, None),
             ("control: ordinary compressed name", hdr + b"\x03www\x00" + b"\x01a\xc0\x0c", 17, b"a.www")]
    OUT = MEM0 + 5000
    for what, pkt, start, expect in LOOPS:
        env = {"#typed": 1, "#bytemem": 1, f.params[0][0]: MEM0, f.params[1][0]: len(pkt), f.params[2][0]: PRef(None, "#idx"), "#idx": start, f.params[3][0]: OUT, f.params[4][0]: 64}
        mem_put(env, MEM0, pkt, terminate=False)
        for k in range(64):
            env[("m", OUT + k)] = 0x2a
        outs = [o for o in run_all(f, (f.entry, 0), env, lambda el: False, P, mem_hook(P), max_steps=3000) if not (o.kind == "exit" and o.why == "noreturn")]
        res = []
        for o in outs:
            if o.kind == "ret":
                try:
                    v = evalx(normx(o.at.e[1]), o.env, P)
                except Exception:
                    v = None
                if isinstance(v, int) and v >= 1 << 31:
                    v -= 1 << 32
                res.append(v)
            else:
                res.append("%s: %s" % (o.kind, o.why))
        r.inst(("loop", what), {"packet": pkt.hex(), "name_starts_at": start, "what": what, "outcome": res})
        if expect is None:
            if any(isinstance(x, str) and ("step limit" in x or x.startswith("dup")) for x in res):      # dup: the very same state reached again - a proof that it does not end
                r.bad("K4:%s:pointer-loop-not-terminated" % name, "%s:%d" % (f.file, f.line), name,
                      "a name that runs into a compression-pointer cycle (%s; packet %s, name at offset %d) keeps the parser going for ever (the evaluation reaches the same state again, or exceeds 3000 steps on a %d-byte packet): the jump counter does "
                      "not stop it (the resolver would spin with its lock held)" % (what, pkt.hex(), start, len(pkt)))
            elif res != [-1]:
                if any(isinstance(x, str) for x in res):
                    r.brk("%s not evaluable on a pointer loop (%s): %s" % (name, what, res))
                else:
                    r.bad("K4:%s:pointer-loop-accepted" % name, "%s:%d" % (f.file, f.line), name, "a name that is a compression-pointer cycle (%s) is not refused: returns %s" % (what, res))
        else:
            got = None
            if res == [0]:
                from .cmem import mem_str
                got = mem_str(outs[0].env, OUT)
            if got != expect:
                r.brk("%s: control packet not parsed as %r (returns %s, name %r): the evaluation set-up is wrong" % (name, expect, res, got))
    # a jump target is range-checked
    jt = [el for el, lhs, op, rhs in f.stores() if is_e(strip(lhs), "var") and strip(lhs)[1] == "j" and any(is_e(q, "bin") and q[1] == "<<" for q in walk(rhs))]
    for el in jt:
        nxt = f.blocks[el.bid]
        good = any(any(is_e(q, "var") and q[1] == "j" for q in walk(b.term["cond"])) and any(is_e(q, "var") and q[1] == "length" for q in walk(b.term["cond"]))
                   for b in f.branch_blocks() if b.id in f.reach_blocks(el.bid) and f.dominates(el.bid, b.id))
        r.inst(("jump", el.n), {"site": el.where(), "target_range_checked": good})
        if not good:
            r.bad("K4:%s:pointer-target-unchecked" % name, el.where(), name, "compression pointer target is not range-checked")
    return r


def rule_dead_guards(P, fnames, rid, relevant=None):
    """K4 known-bits: `if (v & M)` whose every reaching definition of v masks with C, C & M == 0, is constant false."""
    r = Rule(rid, "K4", "no mask test is made dead by an earlier masking of the same variable", floor=2)
    for name in fnames:
        f = P.fn(name)
        for b in f.branch_blocks():
            c, t = negate_truth(b.term["cond"], True)
            c = strip(c)
            if not (is_e(c, "bin") and c[1] == "&" and is_e(strip(c[2]), "var") and is_e(strip(c[3]), "int")):
                continue
            v, M = strip(c[2]), strip(c[3])[1]
            # a pseudo element at the end of the block for reaching-defs purposes
            anchor = f.blocks[b.id].elems[-1] if f.blocks[b.id].elems else None
            defs = []
            if anchor is not None:
                defs = f.reaching_defs(v[1], anchor)
                if any(d is anchor for d, _ in f.var_stores(v[1])):
                    defs = [(anchor, anchor.e[3] if anchor.e[0] == "asg" else None)]
            else:
                # empty block: use definitions that can reach the block start
                for d, rhs in f.var_stores(v[1]):
                    others = [x for x, _ in f.var_stores(v[1]) if x is not d]
                    if b.id in f.reach_blocks(d.bid) and f.path_avoiding(d.pos(), lambda y: False, lambda y: any(y is o for o in others)) is None:
                        pass
                defs = [(d, rhs) for d, rhs in f.var_stores(v[1]) if b.id in f.reach_blocks(d.bid)]
                # keep only the last masking definition if it dominates
                dom = [(d, rhs) for d, rhs in defs if f.dominates(d.bid, b.id)]
                kill = [d for d, _ in dom if d.e[0] == "asg" and d.e[1] in ("&=", "=")]
                if kill:
                    last = [d for d in kill if not any(o is not d and f.pos_dominates(d.pos(), o.pos()) for o in kill)]
                    defs = [(d, d.e[3]) for d in last]
            known_zero = None
            for d, rhs in defs:
                e = d.e
                z = None
                if e[0] == "asg" and e[1] == "&=" and is_e(strip(e[3]), "int"):
                    z = ~strip(e[3])[1]
                elif e[0] == "asg" and e[1] == "=" and is_e(strip(e[3]), "bin") and strip(e[3])[1] == "&" and is_e(strip(strip(e[3])[3]), "int"):
                    z = ~strip(strip(e[3])[3])[1]
                if z is None:
                    known_zero = None
                    break
                known_zero = z if known_zero is None else (known_zero & z)
            dead = known_zero is not None and (M & ~known_zero & 0xffffffff) == 0 and M != 0
            r.inst((name, b.id), {"fn": name, "site": "%s:%d" % (f.file, b.term["loc"][0]), "test": show(c), "mask": hex(M),
                                  "reaching_definitions": [show(d.e)[:50] for d, _ in defs][:3], "dead": dead})
            if dead:
                r.bad("K4:%s:dead-guard:%s" % (name, show(strip(c[3]))), "%s:%d" % (f.file, b.term["loc"][0]), name,
                      "`%s` can never be true: %s was masked by `%s` before the test, so the branch it guards is unreachable" %
                      (show(c), v[1], "; ".join(show(d.e) for d, _ in defs)))
    return r


def aliases(P, a, b):
    """same object, or two members of the same union object"""
    a, b = strip(a), strip(b)
    if eq(a, b):
        return True
    if is_e(a, "fld") and is_e(b, "fld") and eq(a[1], b[1]):
        ra, rb = a[2].rsplit(".", 1)[0], b[2].rsplit(".", 1)[0]
        if ra == rb and P.records.get(ra, {}).get("union"):
            return True
    return False


def rule_alloc_use(P, fnames, rid):
    """K12: memory obtained from the allocator in the parser is not written/read through before it is NULL-tested."""
    r = Rule(rid, "K12", "allocations made while parsing are tested before they are used", floor=2)
    for name in fnames:
        f = P.fn(name)
        for el in f.calls():
            if callee_name(el.e) not in ("event_mm_malloc_", "event_mm_calloc_", "event_mm_strdup_", "event_mm_realloc_", "malloc", "calloc", "strdup"):
                continue
            bound = None
            for nx in f.blocks[el.bid].elems[el.idx + 1:el.idx + 2]:
                if nx.e[0] == "asg" and eq(strip(nx.e[3]), el.e):
                    bound = strip(nx.e[2])
                if nx.e[0] == "decl" and eq(strip(nx.e[3]), el.e):
                    bound = ["var", nx.e[1], "local"]
            if bound is None:
                continue
            # uses: dereference / index / member access through the bound pointer (or a union alias), or as memcpy/name_parse destination
            uses = []
            for x in f.elems():
                if x is el:
                    continue
                for s in walk(x.e):
                    hit = False
                    if is_e(s, "idx") and aliases(P, s[1], bound):
                        hit = True
                    if is_e(s, "deref") and aliases(P, s[1], bound):
                        hit = True
                    if is_e(s, "fld") and len(s) > 3 and s[3] == "->" and aliases(P, s[1], bound):
                        hit = True
                    if is_e(s, "call") and callee_name(s) in ("memcpy", "memset", "memmove", "name_parse"):
                        for a in s[2][:4]:
                            a0 = strip(a)
                            if is_e(a0, "addr"):
                                a0 = strip(a0[1])
                                if is_e(a0, "idx"):
                                    a0 = strip(a0[1])
                            if aliases(P, a0, bound):
                                hit = True
                    if hit and f.path_avoiding(el.pos(), lambda y, x=x: y is x, lambda y: False) is not None:
                        uses.append(x)
                        break
            bad = []
            for x in uses:
                gs = [negate_truth(c, t) for c, t, _ in f.guards_at(x.bid)]
                tested = any(aliases(P, c, bound) and t for c, t in gs) or \
                    any(is_e(strip(c), "bin") and strip(c)[1] == "==" and aliases(P, strip(c)[2], bound) and not t for c, t in gs)
                if not tested:
                    bad.append(x)
            r.inst((name, el.n), {"fn": name, "site": el.where(), "alloc": show(el.e)[:50], "stored_in": show(bound), "uses": len(uses), "uses_without_test": [x.line for x in bad][:4]})
            if bad:
                r.bad("K12:%s:unchecked:%s:%s" % (name, callee_name(el.e), show(bound)), el.where(), name,
                      "%s may be NULL (allocation failure) but is used at line %d (%s) without a test" % (show(bound), bad[0].line, show(bad[0].e)[:50]))
    return r
