"""C strings and malloc blocks in the evaluator's byte memory (#bytemem): helpers shared by the rules that evaluate in-place string code (C28 authority/host, C39 search domains)."""
from .prog import *
from .prog import PStr, HEAP_BASE
from .interp import normx

MEM0 = HEAP_BASE + 1000


def mem_put(env, addr, data, terminate=True):
    for i, b in enumerate(data):
        env[("m", addr + i)] = b
    if terminate:
        env[("m", addr + len(data))] = 0


def mem_str(env, addr, limit=400):
    """the C string at addr, or None when it runs into bytes that hold no data"""
    out = bytearray()
    for i in range(limit):
        b = env.get(("m", addr + i))
        if b is None:
            return None
        if b == 0:
            return bytes(out)
        out.append(b)
    return None


def mem_hook(P, extra=None):
    """malloc/strdup/memcpy/strlen/strchr on the byte memory; allocations are numbered blocks whose size is remembered, copies are bounds-checked against both ends"""
    def hook(el, e_):
        n = callee_name(el.e)
        a = el.e[2]
        try:
            if extra is not None:
                v = extra(el, e_)
                if v is not None:
                    return v
            if n in ("event_mm_malloc_", "event_mm_realloc_", "event_mm_calloc_"):
                size = evalx(normx(a[-1]), e_, P) if n != "event_mm_calloc_" else evalx(normx(a[0]), e_, P) * evalx(normx(a[1]), e_, P)
                k = e_.get("#nalloc", 0)
                e_["#nalloc"] = k + 1
                addr = HEAP_BASE + 10000 + 1000 * k
                e_["#blocks"] = e_.get("#blocks", ()) + ((addr, size),)
                return addr
            if n == "event_mm_strdup_":
                src = evalx(normx(a[0]), e_, P)
                if isinstance(src, PStr):
                    data = src.text()
                else:
                    data = mem_str(e_, src)
                    if data is None:
                        e_["#oob"] = "strdup reads past the data at %d" % src
                        data = b"?"
                k = e_.get("#nalloc", 0)
                e_["#nalloc"] = k + 1
                addr = HEAP_BASE + 10000 + 1000 * k
                e_["#blocks"] = e_.get("#blocks", ()) + ((addr, len(data) + 1),)
                mem_put(e_, addr, data)
                return addr
            if n == "event_mm_free_":
                return 0
            if n in ("memcpy", "__builtin_memcpy", "__builtin___memcpy_chk", "memmove"):
                try:
                    d = evalx(normx(a[0]), e_, P)
                except EvalError:
                    return 0            # a local scratch array (bracket_addr_ok copies the literal for inet_pton): contents not tracked
                sp, cnt = evalx(normx(a[1]), e_, P), evalx(normx(a[2]), e_, P)
                if not isinstance(d, int) or not isinstance(sp, int) or not isinstance(cnt, int):
                    return "impure"
                lim = e_.get("#srcend")
                for k in range(cnt):
                    b = e_.get(("m", sp + k))
                    if b is None or (lim is not None and MEM0 <= sp + k and sp + k >= lim and sp + k < HEAP_BASE + 10000):
                        e_["#oob"] = "copies %d byte(s) from %d: byte %d is past the end of the input" % (cnt, sp, sp + k)
                        b = 0x3f if b is None else b
                    e_[("m", d + k)] = b
                for addr, size in e_.get("#blocks", ()):
                    if addr <= d < addr + 1000 and d + cnt > addr + size:
                        e_["#oob"] = "copies %d byte(s) into a block of %d" % (cnt, size)
                return d
            if n == "strlen":
                sp = evalx(normx(a[0]), e_, P)
                if isinstance(sp, int):
                    t = mem_str(e_, sp)
                    if t is None:
                        return "impure"
                    return len(t)
                return None
            if n == "strchr":
                sp = evalx(normx(a[0]), e_, P)
                if isinstance(sp, int) and not isinstance(sp, bool):
                    c = evalx(normx(a[1]), e_, P) & 0xff
                    t = mem_str(e_, sp)
                    if t is None:
                        return "impure"
                    if c == 0:
                        return sp + len(t)
                    i = t.find(bytes([c]))
                    return 0 if i < 0 else sp + i
                return None
            if n in ("strcspn", "strspn"):
                sp = evalx(normx(a[0]), e_, P)
                if isinstance(sp, int) and not isinstance(sp, bool):
                    t = mem_str(e_, sp)
                    st = evalx(normx(a[1]), e_, P)
                    if t is None or not isinstance(st, PStr):
                        return "impure"
                    k = 0
                    for ch in t:
                        if (ch in st.text()) != (n == "strspn"):
                            break
                        k += 1
                    return k
                return None
            if n in ("strncmp", "strcmp"):
                def txt(x):
                    v = evalx(normx(x), e_, P)
                    if isinstance(v, PStr):
                        return v.text()
                    if isinstance(v, int) and not isinstance(v, bool):
                        return mem_str(e_, v)
                    return None
                a0, a1 = txt(a[0]), txt(a[1])
                if a0 is None or a1 is None:
                    return "impure"
                if n == "strncmp":
                    k = evalx(normx(a[2]), e_, P)
                    a0, a1 = a0[:k], a1[:k]
                return (a0 > a1) - (a0 < a1)
            if n == "evutil_inet_pton":
                return 1
            if n in ("event_warn", "event_warnx", "event_debugx_"):
                return 0
            if n in P.fns and P.fns[n].file == "http.c":
                return "call"
        except EvalError as ex:
            e_["#err"] = str(ex)
            return "impure"
        return None
    return hook


