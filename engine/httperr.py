"""evhttp_error_cb: what an end-of-stream, error or timeout event does to the request in progress (C24: the peer closing at any byte; C27: exactly one completion)."""
from .prog import *
from .interp import normx, nkey, run_all

READING, WRITING, EOF, ERROR, TIMEOUT, CONNECTED = 0x01, 0x02, 0x10, 0x20, 0x40, 0x80


def rule_error_cb(P, rid):
    from .core import Rule
    from .props.C27 import macro_consts
    r = Rule(rid, "K6", "evhttp_error_cb: an end of stream completes a response only when the body is delimited by it (not chunked, no length); every other EOF/error/timeout fails the request exactly once", floor=400)
    f = P.fn("evhttp_error_cb")
    E = {}
    for e in P.enums.values():
        for n, v in e["items"]:
            E[n] = v
    for n, v in macro_consts(P).items():
        E.setdefault(n, v)
    states = [n for n in E if n.startswith("EVCON_")]
    if len(states) < 6:
        r.brk("enum evhttp_connection_state not found")
        return r
    evl = ["var", "evcon", "local"]
    rql = ["var", "req", "local"]
    K = lambda fl: nkey(["fld", evl, "evhttp_connection.%s" % fl, "->"])
    Q = lambda fl: nkey(["fld", rql, "evhttp_request.%s" % fl, "->"])
    khead = nkey(["fld", ["fld", evl, "evhttp_connection.requests", "->"], "evcon_requestq.tqh_first", "."])
    OUT, CLOSEDETECT, ROWE, AUTOFREE = E["EVHTTP_CON_OUTGOING"], E["EVHTTP_CON_CLOSEDETECT"], E["EVHTTP_CON_READ_ON_WRITE_ERROR"], E["EVHTTP_CON_AUTOFREE"]
    nb = 0
    for st in states:
        for what in (READING | EOF, READING | ERROR, WRITING | EOF, WRITING | ERROR, READING | TIMEOUT, WRITING | TIMEOUT, CONNECTED, READING):
            for chunked in (0, 1):
                for ntoread in (-1, 0, 5):
                    for flags in (OUT, OUT | CLOSEDETECT, OUT | ROWE):
                        if flags & CLOSEDETECT and st != "EVCON_IDLE":
                            continue        # close detection is only armed on idle connections (asserted by the code)
                        for inlen in ((0, 3) if (flags & ROWE and what & READING and what & (EOF | ERROR)) else (0,)):
                            env = {f.params[0][0]: 5, f.params[1][0]: what, f.params[2][0]: 1, K("state"): E[st], K("flags"): flags, khead: 7 if st != "EVCON_IDLE" else 0, K("http_server"): 0,
                                   Q("chunked"): chunked, Q("ntoread"): ntoread, "event_debug_logging_mask_": 0, "#typed": 1}
                            def hook(el, e_):
                                n = callee_name(el.e)
                                if n in ("evhttp_connection_cb_cleanup", "evhttp_connection_done", "evhttp_connection_fail_", "evhttp_connection_reset_", "evhttp_connection_free",
                                         "evhttp_connection_read_on_write_error", "event_deferred_cb_schedule_"):
                                    arg = None
                                    if n == "evhttp_connection_fail_":
                                        try:
                                            arg = evalx(normx(el.e[2][1]), e_, P)
                                        except EvalError:
                                            arg = "?"
                                    e_["#ops"] = e_.get("#ops", ()) + ((n, arg),)
                                    return 0
                                if n == "evbuffer_get_length":
                                    return inlen
                                if n in ("bufferevent_get_input", "bufferevent_getfd"):
                                    return 9
                                return None
                            outs = [o for o in run_all(f, (f.entry, 0), env, lambda el: False, P, hook, max_steps=400) if not (o.kind == "exit" and o.why == "noreturn")]
                            got = set()
                            for o in outs:
                                if o.kind == "unknown":
                                    r.brk("evhttp_error_cb(%s, what=%#x): %s" % (st, what, o.why))
                                    return r
                                got.add(tuple(o.env.get("#ops", ())))
                            # reference
                            if st == "EVCON_CONNECTING" and what & TIMEOUT:
                                want = (("evhttp_connection_cb_cleanup", None),)
                            elif st == "EVCON_READING_BODY" and not chunked and ntoread < 0 and what == (READING | EOF):
                                want = (("evhttp_connection_done", None),)
                            elif flags & CLOSEDETECT:
                                want = (("evhttp_connection_reset_", None),)
                            elif what & TIMEOUT:
                                want = (("evhttp_connection_fail_", E["EVREQ_HTTP_TIMEOUT"]),)
                            elif what & (EOF | ERROR):
                                if what & WRITING and flags & ROWE:
                                    want = (("evhttp_connection_read_on_write_error", None),)
                                elif what & READING and flags & ROWE and inlen:
                                    want = (("event_deferred_cb_schedule_", None),)
                                else:
                                    want = (("evhttp_connection_fail_", E["EVREQ_HTTP_EOF"]),)
                            elif what == CONNECTED:
                                want = ()
                            else:
                                want = (("evhttp_connection_fail_", E["EVREQ_HTTP_BUFFER_ERROR"]),)
                            r.inst((st, what, chunked, ntoread, flags, inlen), {"state": st, "what": hex(what), "chunked": chunked, "ntoread": ntoread, "flags": hex(flags), "actions": [list(x) for g_ in got for x in g_]},
                                   nontrivial=bool(what & (EOF | ERROR | TIMEOUT)))
                            if got != {want} and nb < 6:
                                nb += 1
                                done_wrong = any(("evhttp_connection_done", None) in g_ for g_ in got) and want != (("evhttp_connection_done", None),)
                                r.bad("K6:evhttp_error_cb:%s" % ("eof-completes-unfinished-body" if done_wrong else "event-handling"), "%s:%d" % (f.file, f.line), f.name,
                                      "state %s, event %#x, chunked=%d, ntoread=%d, flags %#x: does %s; protocol: %s%s" % (
                                          st, what, chunked, ntoread, flags, sorted(got), list(want),
                                          " — a body that ends before its framing says so (chunked, or Content-Length not reached) must fail, not complete" if done_wrong else ""))
    return r
