"""Order-type evaluation of small pure CFG regions (rule kind K4/K6 helper).

A region of a function's CFG that touches a set of leaves (fields of parameters / locals) only through
comparisons, masks and copies is evaluated on one representative per *order type* of those leaves: the rule
supplies the leaves and their finite domains, this module follows the extracted terminator conditions and
stores (clang's CFG, as exported by lvx) on each assignment and reports where the region ends up.  Nothing of
libevent is executed: the "program" interpreted here is the extracted expression trees, the same way the table
rules evaluate extracted index expressions.  Anything outside the pure fragment (an unknown call whose value is
needed, an unevaluable condition) ends the evaluation as `unknown`, which the rules report as analysis-broken,
never as a violation.
"""
from .prog import is_e, strip, key, walk, show, evalx, EvalError, callee_name, tevalx, texpr_type, _conv, PStr
from .prog import heap_cell, PPtr, PRef


def normx(e):
    """Fold &-of-field / *& so that (&a->b)->c and a->b.c have one key; drop statement expressions' wrapper."""
    if not isinstance(e, list) or not e:
        return e
    if not isinstance(e[0], str):
        return [normx(x) for x in e]
    k = e[0]
    if k in ("int", "str", "var", "fn", "null", "other", "sizeof", "float", "vaarg"):
        return e
    if k == "call":
        return ["call", normx(e[1]) if isinstance(e[1], list) else e[1], [normx(a) for a in e[2]]] + e[3:]
    if k == "fld":
        b = normx(e[1])
        sb = strip(b)
        if is_e(sb, "addr"):
            return ["fld", normx(sb[1]), e[2], "."] + e[4:]
        return ["fld", b] + e[2:]
    if k == "deref":
        b = normx(e[1])
        if is_e(strip(b), "addr"):
            return strip(b)[1]
        return ["deref", b]
    if k == "addr":
        b = normx(e[1])
        if is_e(strip(b), "deref"):
            return strip(b)[1]
        return ["addr", b]
    return [k] + [normx(x) if isinstance(x, list) else x for x in e[1:]]


def nkey(e):
    return key(normx(e))


def _subst_prefix(k, old, new):
    if k == old:
        return new
    if isinstance(k, tuple):
        return tuple(_subst_prefix(x, old, new) for x in k)
    return k


def _has_prefix(k, old):
    """k names a part of the object `old`: a field / element / pointee chain whose innermost base is `old` (the key of a statement or a call that merely mentions `old` does not)"""
    if k == old:
        return True
    if isinstance(k, tuple) and len(k) > 1 and k[0] in ("fld", "idx", "deref", "cast", "paren"):
        return _has_prefix(k[2] if k[0] == "cast" and len(k) > 2 else k[1], old)
    return False


class Outcome(object):
    __slots__ = ("kind", "at", "env", "trace", "why")

    def __init__(self, kind, at, env, trace, why=""):
        self.kind, self.at, self.env, self.trace, self.why = kind, at, env, trace, why

    def get(self, e, default=None):
        return self.env.get(nkey(e), default)

    def __repr__(self):
        return "<Outcome %s %s %s>" % (self.kind, getattr(self.at, "line", self.at), self.why)


def run(fn, start, env, stop_pred, P=None, call_value=None, max_steps=400, exit_blocks=(), watch=()):
    """Like run_all, but folds the outcomes of all forks into one: they must agree on kind, on the element/block where
    they end and on the values of the keys in `watch`; otherwise the result is `unknown`."""
    outs = run_all(fn, start, env, stop_pred, P, call_value, max_steps, exit_blocks)
    live = [o for o in outs if not (o.kind == "exit" and o.why == "noreturn")]
    if live:
        outs = live     # forks that end in abort()/assert failure are not normal flow
    first = outs[0]
    for o in outs:
        if o.kind == "unknown":
            return o
    for o in outs[1:]:
        if o.kind != first.kind or (o.kind in ("stop", "ret") and o.at is not first.at):
            return Outcome("unknown", o.at, o.env, o.trace, "forks on unevaluable conditions disagree (%s at %s vs %s at %s)" % (
                first.kind, getattr(first.at, "line", first.at), o.kind, getattr(o.at, "line", o.at)))
        for k in watch:
            if o.env.get(k) != first.env.get(k):
                return Outcome("unknown", o.at, o.env, o.trace, "forks disagree on a watched value")
    return first


def _lower(b):
    return b + 32 if 65 <= b <= 90 else b


def string_builtin(name, args):
    """value of a C library / libevent ASCII helper on abstract string pointers, or NotImplemented"""
    def S(i):
        return args[i] if i < len(args) and isinstance(args[i], PStr) else None
    def I(i):
        return args[i] if i < len(args) and isinstance(args[i], int) else None
    if name == "strlen" and S(0):
        return len(S(0).text())
    if name in ("strchr", "strrchr") and S(0) and I(1) is not None:
        t = S(0).text()
        c = I(1) & 0xff
        if c == 0:
            return S(0) + len(t)
        idx = t.find(bytes([c])) if name == "strchr" else t.rfind(bytes([c]))
        return 0 if idx < 0 else S(0) + idx
    if name == "strpbrk" and S(0) and S(1):
        t, set_ = S(0).text(), S(1).text()
        for i, ch in enumerate(t):
            if ch in set_:
                return S(0) + i
        return 0
    if name in ("strcmp", "strcasecmp", "evutil_ascii_strcasecmp") and S(0) and S(1):
        a, b = S(0).text(), S(1).text()
        if name != "strcmp":
            a, b = bytes(map(_lower, a)), bytes(map(_lower, b))
        return (a > b) - (a < b)
    if name in ("strncmp", "strncasecmp", "evutil_ascii_strncasecmp") and S(0) and S(1) and I(2) is not None:
        a, b = S(0).text()[:I(2)], S(1).text()[:I(2)]
        if name != "strncmp":
            a, b = bytes(map(_lower, a)), bytes(map(_lower, b))
        return (a > b) - (a < b)
    if name in ("strspn", "strcspn") and S(0) and S(1):
        t, set_ = S(0).text(), S(1).text()
        n = 0
        for ch in t:
            if (ch in set_) != (name == "strspn"):
                break
            n += 1
        return n
    if name in ("EVUTIL_TOLOWER_", "tolower") and I(0) is not None:
        return _lower(I(0) & 0xff)
    if name in ("EVUTIL_TOUPPER_", "toupper") and I(0) is not None:
        b = I(0) & 0xff
        return b - 32 if 97 <= b <= 122 else b
    cls = {"EVUTIL_ISDIGIT_": lambda b: 48 <= b <= 57, "EVUTIL_ISALPHA_": lambda b: 65 <= b <= 90 or 97 <= b <= 122,
           "EVUTIL_ISALNUM_": lambda b: 48 <= b <= 57 or 65 <= b <= 90 or 97 <= b <= 122, "EVUTIL_ISSPACE_": lambda b: b in (32, 9, 10, 11, 12, 13),
           "EVUTIL_ISXDIGIT_": lambda b: 48 <= b <= 57 or 65 <= b <= 70 or 97 <= b <= 102, "EVUTIL_ISUPPER_": lambda b: 65 <= b <= 90, "EVUTIL_ISLOWER_": lambda b: 97 <= b <= 122,
           "EVUTIL_ISPRINT_": lambda b: 32 <= b <= 126}
    if name in cls and I(0) is not None:
        return int(cls[name](I(0) & 0xff))
    return NotImplemented


def _unroll_fld(k):
    """expression key of a (possibly nested) field access -> (root key, [field, ...]) or (None, None)"""
    path = []
    while isinstance(k, tuple) and len(k) == 3 and k[0] == "fld":
        path.insert(0, k[2])
        k = k[1]
    return (k, path) if path else (None, None)


def struct_to_heap(env, varkey, objid, out):
    """copy the expression-keyed fields of a local struct variable into heap cells of object `objid` (nested structs become sub-objects ("sub", parent, field))"""
    for k, v in list(env.items()):
        root, path = _unroll_fld(k)
        if root != varkey:
            continue
        obj = objid
        for fl in path[:-1]:
            sub = ("sub", obj, fl)
            out[("@", obj, fl)] = PPtr(sub)
            obj = sub
        out[("@", obj, path[-1])] = v


def heap_to_struct(env, objid, varexpr, out):
    """inverse of struct_to_heap: heap cells of `objid` (and its sub-objects) -> expression keys below varexpr"""
    def path_of(o):
        p = []
        while isinstance(o, tuple) and len(o) == 3 and o[0] == "sub":
            p.insert(0, o[2])
            o = o[1]
        return o, p
    for k, v in env.items():
        if not (isinstance(k, tuple) and len(k) == 3 and k[0] == "@"):
            continue
        root, p = path_of(k[1])
        if root != objid or (isinstance(k[2], str) and k[2].startswith("#")):
            continue
        if isinstance(v, PPtr) and isinstance(v.id, tuple) and v.id[:1] == ("sub",) and path_of(v.id)[0] == objid:
            continue
        e = varexpr
        for fl in p + [k[2]]:
            e = ["fld", e, fl, "."]
        out[nkey(e)] = v


def run_all(fn, start, env, stop_pred, P=None, call_value=None, max_steps=400, exit_blocks=(), _budget=None, notable=None):
    """All outcomes of following the CFG from `start`; a condition that cannot be evaluated because it reads state the
    rule does not track (a lock pointer, a debug mask) forks into both edges (at most 64 forks)."""
    if _budget is None:
        _budget = [512]
    res = []
    _budget.append(set())      # states already explored at block entry (forks that re-join with an identical environment stop)
    _budget.append(notable)
    o = _run1(fn, start, env, stop_pred, P, call_value, max_steps, exit_blocks, res, _budget)
    outs = [x for x in [o] + res if x.kind != "dup"]
    return outs or [o]


def _run1(fn, start, env, stop_pred, P, call_value, max_steps, exit_blocks, forks, budget):
    """Follow the extracted CFG from program point start=(bid, idx) [first element evaluated is idx] with the concrete
    environment env {nkey(expr) or variable name: int}.  Returns an Outcome:
      kind 'stop'    at = the element satisfying stop_pred (not evaluated)
      kind 'ret'     at = the return element
      kind 'exit'    at = block id (function exit or one of exit_blocks reached)
      kind 'unknown' a condition or needed value could not be evaluated (why says which)
    call_value(el, env) -> int (value of the call), None (value unknown, call has no effect we track) or
    'impure' (abort evaluation)."""
    env = dict(env)
    trace = []
    bid, idx = start
    steps = 0
    unknown = set()

    def conc(e):
        """replace array indices that evaluate to integers by those integers (a[i] -> a[2]), innermost first"""
        if not isinstance(e, list) or not e:
            return e
        if not isinstance(e[0], str):
            return [conc(x) for x in e]
        if e[0] in ("int", "str", "var", "fn", "null", "other", "sizeof", "float", "vaarg"):
            return e
        if e[0] == "call":
            return ["call", conc(e[1]) if isinstance(e[1], list) else e[1], [conc(a) for a in e[2]]] + e[3:]
        r = [e[0]] + [conc(x) if isinstance(x, list) else x for x in e[1:]]
        if e[0] == "idx" and not is_e(strip(r[2]), "int"):
            try:
                r[2] = ["int", evalx(r[2], env, P)]
            except EvalError:
                pass
        return r

    typed = bool(env.get("#typed"))

    def ev(e):
        if typed:
            return tevalx(conc(normx(e)), env, P, fn)
        return evalx(conc(normx(e)), env, P)

    def setv(lhs, v):
        l = strip(conc(normx(lhs)))
        if is_e(l, "var"):
            k = l[1]
        else:
            k = heap_cell(l, env, P) or key(l)
        if v is None:
            env.pop(k, None)
            unknown.add(k)
        else:
            if typed:
                lt = texpr_type(l, fn, P)
                if lt:
                    v = _conv(v, lt)
            env[k] = v
            unknown.discard(k)

    def getv(lhs):
        l = strip(conc(normx(lhs)))
        k = l[1] if is_e(l, "var") else (heap_cell(l, env, P) or key(l))
        return env.get(k)

    visited = budget[1] if len(budget) > 1 else None
    notable = budget[2] if len(budget) > 2 else None
    first_block = True
    while True:
        blk = fn.blocks[bid]
        if (bid in exit_blocks and not (first_block and idx > 0)) or bid == fn.exit:
            return Outcome("exit", bid, env, trace)
        first_block = False
        if visited is not None and idx == 0:
            try:
                fp = (bid, frozenset(env.items()))
            except TypeError:
                fp = None
            if fp is not None:
                if fp in visited:
                    return Outcome("dup", bid, env, trace)
                visited.add(fp)
        for el in blk.elems[idx:]:
            steps += 1
            if steps > max_steps:
                return Outcome("unknown", el, env, trace, "step limit (loop?)")
            if stop_pred(el):
                return Outcome("stop", el, env, trace)
            e = el.e
            k = e[0]
            trace.append(el)
            if notable is not None:
                nm = notable(el)
                if nm is not None:
                    tr = env.get("#trace", ())
                    if not (tr and tr[-1] == nm and nm.startswith("TAILQ_")):
                        env["#trace"] = tr + (nm,)
            try:
                if k == "call":
                    v = call_value(el, env) if call_value else None
                    if v is None and callee_name(e) is not None:
                        # C library / ASCII helpers on abstract strings
                        try:
                            avals = [ev(a) for a in e[2]]
                            bv = string_builtin(callee_name(e), avals)
                            if bv is not NotImplemented:
                                v = bv
                        except EvalError:
                            pass
                    if v == "call" and P is not None and callee_name(e) in P.fns:
                        # evaluate the callee on the shared abstract heap: heap cells ("@"...), memory cells ("m", addr) and "#..." bookkeeping keys are
                        # passed in and taken back; `&local` arguments travel through numbered out-cells
                        g = P.fns[callee_name(e)]
                        env2 = dict((k_, v_) for k_, v_ in env.items() if (isinstance(k_, tuple) and k_ and (k_[0] in ("@", "m") or (isinstance(k_[0], str) and k_[0].startswith("#arr")))) or (isinstance(k_, str) and k_.startswith("#")) or k_ == "event_debug_logging_mask_")
                        env2.pop("#trace", None)
                        depth = env.get("#depth", 0) + 1
                        env2["#depth"] = depth
                        if depth > 12:
                            return Outcome("unknown", el, env, trace, "call depth")
                        outs_ = {}
                        arrs_ = {}
                        structs_ = {}
                        for i_, ((pn, pt), a) in enumerate(zip(g.params, e[2])):
                            sa = strip(normx(a))
                            if is_e(sa, "var") and "[" in (fn.var_type(sa[1]) or "") and "*" in pt.replace("[", "*"):
                                # a local array handed down: its elements travel through cells (cellbase, index)
                                cellbase = "#arr%d.%d" % (depth, i_)
                                pre = ("idx", key(sa))
                                for k_, v_ in env.items():
                                    if isinstance(k_, tuple) and len(k_) == 3 and k_[0] == "idx" and k_[1] == key(sa) and isinstance(k_[2], tuple) and k_[2][:1] == ("int",):
                                        env2[(cellbase, k_[2][1])] = v_
                                env2[pn] = PRef(None, cellbase)
                                env2["#arrays"] = 1
                                arrs_[cellbase] = sa
                                continue
                            if is_e(sa, "addr") and is_e(strip(sa[1]), "var") and (fn.var_type(strip(sa[1])[1]) or "").startswith("struct ") and "*" not in (fn.var_type(strip(sa[1])[1]) or "") and "[" not in (fn.var_type(strip(sa[1])[1]) or ""):
                                # address of a local struct: the struct becomes a heap object for the duration of the call
                                sv = strip(sa[1])
                                objid = ("loc", depth, i_, sv[1])
                                struct_to_heap(env, key(sv), objid, env2)
                                env2[pn] = PPtr(objid)
                                structs_[objid] = sv
                                continue
                            if is_e(sa, "addr") and is_e(strip(sa[1]), "var"):
                                cellname = "#out%d.%d" % (depth, i_)
                                env2[cellname] = env.get(strip(sa[1])[1])
                                env2[pn] = PRef(None, cellname)
                                outs_[cellname] = strip(sa[1])[1]
                                continue
                            try:
                                env2[pn] = ev(a)
                            except EvalError:
                                pass
                        if budget[0] <= 0:
                            return Outcome("unknown", el, env, trace, "fork budget exhausted")
                        subouts = run_all(g, (g.entry, 0), env2, lambda x: False, P, call_value, max_steps, (), None, None)
                        alts_ = []
                        for so in subouts:
                            if so.kind == "exit" and so.why == "noreturn":
                                continue
                            if so.kind not in ("ret", "exit"):
                                return Outcome("unknown", el, env, trace, "in %s: %s %s" % (g.name, so.kind, so.why))
                            rv_ = None
                            if so.kind == "ret" and len(so.at.e) > 1 and so.at.e[1] is not None:
                                try:
                                    rv_ = tevalx(conc(normx(so.at.e[1])), so.env, P, g) if so.env.get("#typed") else evalx(conc(normx(so.at.e[1])), so.env, P)
                                except EvalError:
                                    rv_ = None
                            upd_ = dict((k_, v_) for k_, v_ in so.env.items() if (isinstance(k_, tuple) and k_ and (k_[0] in ("@", "m") or (isinstance(k_[0], str) and k_[0].startswith("#arr") and k_[0] not in arrs_))) or (isinstance(k_, str) and k_.startswith("#") and k_ not in outs_ and k_ not in ("#depth", "#trace", "#typed")))
                            for cellname, vn in outs_.items():
                                upd_[vn] = so.env.get(cellname)
                            for objid_, sv_ in structs_.items():
                                heap_to_struct(so.env, objid_, sv_, upd_)
                                for k_ in list(upd_.keys()):
                                    if isinstance(k_, tuple) and len(k_) == 3 and k_[0] == "@":
                                        o_ = k_[1]
                                        while isinstance(o_, tuple) and len(o_) == 3 and o_[0] == "sub":
                                            o_ = o_[1]
                                        if o_ == objid_:
                                            del upd_[k_]
                            for k_, v_ in so.env.items():
                                if isinstance(k_, tuple) and len(k_) == 2 and k_[0] in arrs_:
                                    upd_[nkey(["idx", arrs_[k_[0]], ["int", k_[1]]])] = v_
                            if (rv_, upd_) not in alts_:
                                alts_.append((rv_, upd_))
                        if not alts_:
                            return Outcome("unknown", el, env, trace, "%s has no outcome" % g.name)
                        v = alts_
                    if v == "inline" and P is not None and callee_name(e) in P.fns:
                        # evaluate the callee on the argument values (pure helpers: strings and integers in, one value out)
                        g = P.fns[callee_name(e)]
                        env2 = {"#typed": env.get("#typed")} if env.get("#typed") else {}
                        for (pn, pt), a in zip(g.params, e[2]):
                            try:
                                env2[pn] = ev(a)
                            except EvalError:
                                pass
                        if budget[0] <= 0:
                            return Outcome("unknown", el, env, trace, "fork budget exhausted")
                        sub = [budget[0]]
                        subouts = run_all(g, (g.entry, 0), env2, lambda x: False, P, call_value, max_steps, (), None, None)
                        vals = []
                        for so in subouts:
                            if so.kind == "exit" and so.why == "noreturn":
                                continue
                            if so.kind != "ret":
                                return Outcome("unknown", el, env, trace, "inlined %s: %s %s" % (g.name, so.kind, so.why))
                            try:
                                rv_ = evalx(conc(normx(so.at.e[1])), so.env, P) if len(so.at.e) > 1 and so.at.e[1] is not None else None
                            except EvalError as ex_:
                                return Outcome("unknown", el, env, trace, "inlined %s: return value: %s" % (g.name, ex_))
                            if rv_ not in vals:
                                vals.append(rv_)
                        if not vals:
                            return Outcome("unknown", el, env, trace, "inlined %s has no outcome" % g.name)
                        v = [(x, {}) for x in vals] if len(vals) > 1 else vals[0]
                    if isinstance(v, list):
                        # nondeterministic callee: [(value, {key: newvalue}), ...]; first continues here, the others fork
                        for av, upd in v[1:]:
                            if budget[0] <= 0:
                                return Outcome("unknown", el, env, trace, "fork budget exhausted")
                            budget[0] -= 1
                            env2 = dict(env)
                            env2.update(upd)
                            if av is not None:
                                env2[nkey(e)] = av
                            else:
                                env2.pop(nkey(e), None)
                            forks.append(_run1(fn, (bid, el.idx + 1), env2, stop_pred, P, call_value, max_steps, exit_blocks, forks, budget))
                        v, upd = v[0]
                        env.update(upd)
                    if v == "impure":
                        return Outcome("unknown", el, env, trace, "call %s outside the pure fragment" % show(e)[:60])
                    # the value is looked up again by the enclosing assignment / condition, which sees the call with its array indices made concrete (a[i] -> a[2])
                    try:
                        ck = nkey(conc(normx(e)))
                    except Exception:
                        ck = None
                    if v is not None:
                        env[nkey(e)] = v
                        if ck is not None and ck != nkey(e):
                            env[ck] = v
                    else:
                        env.pop(nkey(e), None)
                        if ck is not None:
                            env.pop(ck, None)
                elif k == "asg":
                    op = e[1]
                    try:
                        rv = ev(e[3])
                    except EvalError:
                        rv = None
                    if rv is None and op == "=":
                        # struct copy: move every known leaf below rhs to below lhs
                        ro, lo = nkey(e[3]), nkey(e[2])
                        moved = False
                        for kk in list(env.keys()):
                            if isinstance(kk, tuple) and kk != ro and _has_prefix(kk, ro):
                                env[_subst_prefix(kk, ro, lo)] = env[kk]
                                moved = True
                        if not moved:
                            setv(e[2], None)
                    elif op == "=":
                        setv(e[2], rv)
                        env[nkey(e)] = rv
                    else:
                        cur = getv(e[2])
                        if cur is None or rv is None:
                            setv(e[2], None)
                        else:
                            nv = evalx(["bin", op[:-1], ["int", cur], ["int", rv]], {}, None)
                            setv(e[2], nv)
                            env[nkey(e)] = nv
                elif k == "incdec":
                    cur = getv(e[3])
                    if cur is None:
                        setv(e[3], None)
                    else:
                        nv = cur + (1 if e[1] == "++" else -1)
                        setv(e[3], nv)
                        env[nkey(e)] = nv if e[2] == "pre" else cur
                elif k == "decl":
                    try:
                        rv = ev(e[3]) if len(e) > 3 and e[3] is not None and not is_e(e[3], "null") else None
                    except EvalError:
                        rv = None
                    if rv is None and len(e) > 3 and isinstance(e[3], list):
                        ro, lo = nkey(e[3]), key(["var", e[1], "local"])
                        moved = False
                        for kk in list(env.keys()):
                            if isinstance(kk, tuple) and kk != ro and _has_prefix(kk, ro):
                                env[_subst_prefix(kk, ro, lo)] = env[kk]
                                moved = True
                        if not moved:
                            env.pop(e[1], None)
                    elif rv is None:
                        env.pop(e[1], None)
                    else:
                        if typed:
                            from .prog import _tyinfo
                            dt = _tyinfo(e[2])
                            if dt:
                                rv = _conv(rv, dt)
                        env[e[1]] = rv
                elif k == "ret":
                    return Outcome("ret", el, env, trace)
                else:
                    try:
                        env[nkey(e)] = ev(e)
                    except EvalError:
                        pass
            except EvalError as ex:
                return Outcome("unknown", el, env, trace, str(ex))
        idx = 0
        succ = blk.succ
        if blk.noreturn:
            return Outcome("exit", bid, env, trace, "noreturn")
        if not succ:
            return Outcome("exit", bid, env, trace)
        t = blk.term
        if len(succ) == 1 and (t is None or t.get("cond") is None or t.get("k") in ("do", "goto", "break", "continue")):
            # `do {..} while (0)`: clang prunes the back edge; single successor
            bid = succ[0][0]
            continue
        if t is None or t.get("cond") is None:
            if len(succ) == 1:
                bid = succ[0][0]
                continue
            return Outcome("unknown", bid, env, trace, "branch without condition")
        c = t["cond"]
        try:
            if t.get("k") == "switch":
                v = ev(c)
                nxt = None
                dflt = None
                for s, l in succ:
                    lab = fn.blocks[s].label
                    if lab and lab[0] == "case" and lab[1] == v:
                        nxt = s
                    elif lab and lab[0] == "default":
                        dflt = s
                if nxt is None:
                    nxt = dflt
                if nxt is None:
                    return Outcome("unknown", bid, env, trace, "switch value %r has no edge" % v)
                bid = nxt
                continue
            sc = strip(normx(c))
            if is_e(sc, "asg") or is_e(sc, "incdec") or is_e(sc, "call"):
                v = env.get(key(sc))
                if v is None and is_e(sc, "asg"):
                    v = getv(sc[2])
                if v is None:
                    raise EvalError("value of %s unknown" % show(c)[:60])
            else:
                v = ev(c)
        except EvalError as ex:
            tracked = any((nkey(q) in unknown or (is_e(q, "var") and q[1] in unknown)) for q in walk(normx(c)) if isinstance(q, list) and q and q[0] in ("var", "fld", "deref", "idx"))
            labs = [s for s, l in succ if l in ("T", "F")]
            if t.get("k") == "switch" and len(succ) >= 2 and budget[0] >= len(succ):
                labs = [s for s, l in succ]
                for s_ in labs[1:]:
                    budget[0] -= 1
                    forks.append(_run1(fn, (s_, 0), env, stop_pred, P, call_value, max_steps, exit_blocks, forks, budget))
                bid = labs[0]
                continue
            if budget[0] <= 0 or len(labs) != 2:
                return Outcome("unknown", bid, env, trace, "cannot evaluate `%s`: %s" % (show(c)[:80], ex))
            budget[0] -= 1
            other = _run1(fn, (labs[1], 0), env, stop_pred, P, call_value, max_steps, exit_blocks, forks, budget)
            forks.append(other)
            bid = labs[0]
            continue
        lab = "T" if v else "F"
        nxt = [s for s, l in succ if l == lab]
        if not nxt:
            if len(succ) == 1:
                # constant-pruned edge (e.g. while (1)): the other edge does not exist
                if (succ[0][1] == "T") != bool(v) and succ[0][1] in ("T", "F"):
                    return Outcome("exit", bid, env, trace, "pruned edge")
                nxt = [succ[0][0]]
            else:
                return Outcome("unknown", bid, env, trace, "no %s edge" % lab)
        bid = nxt[0]


def tv_lex(a, b):
    """order of two (sec, usec) pairs: -1, 0, 1"""
    return (a > b) - (a < b)


def force_conds(fn, pred, value):
    """environment entries that fix the value of every terminator condition selected by pred(block) — used to put the
    evaluation into one 'world' (e.g. locking enabled: the `if (lock)` wrappers of the lock macros are all true)"""
    env = {}
    for b in fn.blocks.values():
        t = b.term
        if t and t.get("cond") is not None and pred(b):
            env[key(strip(normx(t["cond"])))] = value
    return env
