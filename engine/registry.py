"""What is claimed, at which level, in whose words (source of MANIFEST.json)."""

NOTES = ("Static analysis only (see DESIGN.md). Every check parses /repo's current tree with clang on each run, decides "
         "named structural clauses of its property on every path of every analysed function, and is three-valued: exit 0 pass, "
         "exit 1 + VIOLATION line, exit 2 analysis-broken (an anchor vanished / instance count under the floor) with no VIOLATION line. "
         "A pass means the named clauses hold, not the whole behavioural property; each level_claimed.text says which part is decided.")

STD_NOTE = ("Trusted: clang 14 parser/AST/CFG, tools/lvx.cc, engine/*.py and the rule tables of this property (each entry confirmed by reading). "
            "Only the Linux configuration the pinned build compiles is analysed. Path-insensitive except where stated.")

CLAIMED = {
 "C06": {"level": "proof",
         "text": "Decided completely: the 512-row epoll_op_table, the EPOLL_OP_TABLE_INDEX expression, the errno fall-back switch and the "
                 "reader in epoll_apply_one_change are extracted from clang's AST/CFG and compared with a model of epoll_ctl on every "
                 "(old,read,write,close) combination (index bijective; add+del rows inert; resulting kernel registration == old+adds-dels; "
                 "consistent rows use the op the kernel accepts without fall-back; no-change rows {0,0}); 512 table obligations + 11 reader/fall-back "
                 "obligations, all must discharge. The domain is finite, so this is exhaustive rather than sampled.",
         "note": "Trusted: the six-line kernel model of epoll_ctl (ADD on empty, MOD/DEL on non-empty succeed; EEXIST/ENOENT otherwise), clang constant folding, lvx. "
                 "Assumes the kernel registration equals old_events when a change is applied (that is C05).",
         "technique": "static analysis: constant-table extraction + exhaustive comparison with a reference model (K6), CFG dominance for the reader"},
 "C08": {"level": "other",
         "text": "K1 BALANCE over all 31 units and all lock classes: for every path of every function (including all error exits) the net effect on each "
                 "lock class is computed by dataflow over clang's CFG with interprocedural summaries (ops-table slots and function-pointer parameters resolved); "
                 "every public API function and every function used as a callback must return at depth 0 and never drop below its entry depth (the four explicit "
                 "lock APIs exactly +-1); functions whose returns disagree are reported at the function that creates the imbalance with a witness path; no user "
                 "callback under the non-recursive base lock; no re-acquisition of a non-recursive class. Found and repaired three genuine leaks on the pinned tree "
                 "(event_base_once, evdns_cache_lookup, evdns_getaddrinfo_fromhosts). Decides release-on-every-return for all syntactic paths; it is a may-analysis "
                 "by lock class, so it cannot distinguish two instances of one class and it trusts the documented infeasibilities that asserts express.",
         "note": STD_NOTE + " Analysed with -UNDEBUG (asserts cut paths). World: locking enabled (lock pointers non-NULL). User callbacks assumed lock-neutral. "
                 "Idioms modelled explicitly: NULL-lock wrapper, LOCK2/UNLOCK2, EVLOCK_TRY_LOCK_ (shape re-checked), pair partner token (writers re-checked), "
                 "one named re-entry exception (event_reinit -> dealloc -> evsig_dealloc_ -> event_del) with both justifying facts re-checked each run.",
         "technique": "static analysis: interprocedural typestate/balance dataflow over clang CFGs (K1) with summaries, sibling comparison of ops slots (K7)"},
}

NOT_APPLICABLE = {
 "C17": "stream integrity across write/enable/flush/fault histories is a property of runtime values and orders; no structural clause that is both necessary and non-brittle beyond what C08/C10/C16/C18/C22 check",
 "C23": "RFC 9112 request framing of a hand-written incremental parser under every segmentation needs the parser executed or modelled on inputs; no shape rule implies an RFC clause",
 "C24": "RFC 9112 response framing under every segmentation: same reason as C23",
 "C27": "exactly-once completion under every fault point depends on run-time flag correlations (USER_OWNED/DEFER_FREE/NEEDS_FREE, queue membership) that a path-insensitive rule cannot track without false alarms",
 "C28": "URI parse/join round trip is string-grammar equivalence over all inputs (runtime values)",
 "C39": "equality with a reference parser of resolv.conf/hosts syntax over all file contents; no bounded-buffer idiom to anchor a guard rule",
}
