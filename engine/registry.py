"""What is claimed, at which level, in whose words (source of MANIFEST.json)."""

NOTES = ("Static analysis only (see DESIGN.md). Every check parses /repo's current tree with clang on each run, decides "
         "named structural clauses of its property on every path of every analysed function, and is three-valued: exit 0 pass, "
         "exit 1 + VIOLATION line, exit 2 analysis-broken (an anchor vanished / instance count under the floor) with no VIOLATION line. "
         "A pass means the named clauses hold, not the whole behavioural property; each level_claimed.text says which part is decided.")

STD_NOTE = ("Trusted: clang 14 parser/AST/CFG, tools/lvx.cc, engine/*.py and the rule tables of this property (each entry confirmed by reading). "
            "Only the Linux configuration the pinned build compiles is analysed. Path-insensitive except where stated.")

CLAIMED = {
 "C06": {"level": "proof",
         "text": "Decided completely: the 512-row epoll_op_table, the EPOLL_OP_TABLE_INDEX expression, the errno fall-back switch and the "
                 "reader in epoll_apply_one_change are extracted from clang's AST/CFG and compared with a model of epoll_ctl on every "
                 "(old,read,write,close) combination (index bijective; add+del rows inert; resulting kernel registration == old+adds-dels; "
                 "consistent rows use the op the kernel accepts without fall-back; no-change rows {0,0}); 512 table obligations + 11 reader/fall-back "
                 "obligations, all must discharge. The domain is finite, so this is exhaustive rather than sampled.",
         "note": "Trusted: the six-line kernel model of epoll_ctl (ADD on empty, MOD/DEL on non-empty succeed; EEXIST/ENOENT otherwise), clang constant folding, lvx. "
                 "Assumes the kernel registration equals old_events when a change is applied (that is C05).",
         "technique": "static analysis: constant-table extraction + exhaustive comparison with a reference model (K6), CFG dominance for the reader"},
 "C08": {"level": "other",
         "text": "K1 BALANCE over all 31 units and all lock classes: for every path of every function (including all error exits) the net effect on each "
                 "lock class is computed by dataflow over clang's CFG with interprocedural summaries (ops-table slots and function-pointer parameters resolved); "
                 "every public API function and every function used as a callback must return at depth 0 and never drop below its entry depth (the four explicit "
                 "lock APIs exactly +-1); functions whose returns disagree are reported at the function that creates the imbalance with a witness path; no user "
                 "callback under the non-recursive base lock; no re-acquisition of a non-recursive class. Found and repaired three genuine leaks on the pinned tree "
                 "(event_base_once, evdns_cache_lookup, evdns_getaddrinfo_fromhosts). Decides release-on-every-return for all syntactic paths; it is a may-analysis "
                 "by lock class, so it cannot distinguish two instances of one class and it trusts the documented infeasibilities that asserts express.",
         "note": STD_NOTE + " Analysed with -UNDEBUG (asserts cut paths). World: locking enabled (lock pointers non-NULL). User callbacks assumed lock-neutral. "
                 "Idioms modelled explicitly: NULL-lock wrapper, LOCK2/UNLOCK2, EVLOCK_TRY_LOCK_ (shape re-checked), pair partner token (writers re-checked), "
                 "one named re-entry exception (event_reinit -> dealloc -> evsig_dealloc_ -> event_del) with both justifying facts re-checked each run.",
         "technique": "static analysis: interprocedural typestate/balance dataflow over clang CFGs (K1) with summaries, sibling comparison of ops slots (K7)"},
 "C41": {"level": "proof",
         "text": "Table clauses decided completely: each EVUTIL_IS*_ accessor's return expression is evaluated as a pure expression over its own constant "
                 "table for all 256 byte values against the ASCII class definition (2048 obligations), EVUTIL_TOLOWER_/TOUPPER_ likewise (512), with the index "
                 "required to be an unsigned-byte conversion; structural rules for evutil_ascii_str(n)casecmp/strcasestr (both sides lowered, outcome signs, "
                 "n bound, fall-through 0) and evutil_sockaddr_cmp (family first, port only under include_port, v4/v6 twins). Does not decide evutil_snprintf "
                 "or the total-order property beyond branch structure.",
         "note": STD_NOTE + " ASCII class definitions are the reference model.",
         "technique": "static analysis: constant-table extraction + exhaustive pure-expression evaluation against a reference model (K6), guard/dominance rules (K4/K7)"},
 "C29": {"level": "other",
         "text": "uri_chars[256] equals RFC 3986 unreserved entry by entry; html_replace's switch is extracted and must map exactly the five markup characters "
                 "to entities of the returned length; evhttp_uriencode's three-way split is checked by guards (raw copy only when unreserved, '+' only for ' ' under "
                 "space_as_plus, otherwise %%%02X of the unsigned byte, unsigned table index); evhttp_htmlescape's two passes agree; evhttp_decode_uri_internal's "
                 "look-ahead reads are dominated by i+2 < length and output stores cannot outnumber input advances (never writes more than its length). "
                 "Round trips and query splitting are declined (runtime strings).",
         "note": STD_NOTE,
         "technique": "static analysis: table/switch extraction vs reference model (K6), dominating-guard and path rules on the CFG (K4)"},
 "C32": {"level": "other",
         "text": "Protocol constants and encoder structure against RFC 6455 / RFC 4648 / FIPS 180-4: GUID and hash-then-base64 flow of the accept key, base64 alphabet, "
                 "every sextet expression of Base64encode compared exhaustively (2^8/2^16 byte values) with the reference sextet, padding counts, SHA-1 IV and all 80 "
                 "unrolled rounds matched to the FIPS template (K_t, f_t truth table, rotations, role rotation, schedule indices, byte swap), make_ws_frame's FIN|opcode, "
                 "125/65535 thresholds, 126/127 markers and big-endian lengths, close frame bytes. Does not decide SHA1Update/Final padding logic nor digest equality for all inputs.",
         "note": STD_NOTE + " Reference models: RFC 6455 section 1.3/5.2, RFC 4648 table 1, FIPS 180-4 section 4.1.1/4.2.1/6.1.",
         "technique": "static analysis: constant and expression-template matching on the AST, exhaustive evaluation of pure index expressions (K6), constant propagation for header positions"},
 "C14": {"level": "other",
         "text": "All-or-nothing on allocation-failure paths, for every syntactic path of every function in buffer.c: the allocation-fallible functions are inferred by "
                 "fixpoint from the allocator roots; at each of their ~45 call sites the result must be tested or returned (K12), no content-visible commit (total_len, "
                 "callback counters, a live chain's off, or a committing callee) may be able to execute before a call whose failure edge returns a failure value (K5), and "
                 "failure edges must return failure values; void helpers must not swallow failures after committing. Found and repaired three genuine defects "
                 "(evbuffer_prepend partial copy, evbuffer_remove_buffer ignored results, multicast allocation failure reported as success), each replayed under ASan. "
                 "Does not decide 'no inconsistency later' nor non-allocation failures.",
         "note": STD_NOTE + " Path-insensitive except constant propagation along failure edges and one guard-contradiction pruning; benign pre-effects are a frozen, "
                 "reasoned list (e.g. inserting an empty chain).",
         "technique": "static analysis: failure-edge inference + effect ordering on the CFG (K5 atomicity, K12 error propagation)"},
 "C15": {"level": "other",
         "text": "Cleanup slots: exactly one invocation site each, dominated by 'last reference dropped' (and not pinned) and followed by the owner's release on every path. "
                 "Immutability: each of the 17 in-place write sites into chain memory must carry a recognised justification (fresh chain, EVBUFFER_IMMUTABLE==0 test or "
                 "CHAIN_SPACE_LEN test of the same chain dominating it, length taken from CHAIN_SPACE_LEN, value guard, writable-space provider, justified helper call sites); "
                 "a buffer_len test alone is rejected. Ownership: a chain pointer field released while the evbuffer lives must be overwritten before use. Found and repaired "
                 "two genuine defects (pullup writing shared multicast memory; use-after-free/double free in evbuffer_add_buffer_reference). Byte equality through read paths is declined.",
         "note": STD_NOTE + " Assumes EVBUFFER_IMMUTABLE marks every shared/unowned chain.",
         "technique": "static analysis: who-may-call + dominance (K2/K3), dominating-guard justification of write sites (K4), release/overwrite typestate of an owning field (K11)"},
 "C13": {"level": "other",
         "text": "Accounting discipline on every path of buffer.c: every total_len change (33 sites: direct stores and calls to helpers inferred to leave accounting to the "
                 "caller) is matched by the n_add_for_cb/n_del_for_cb update of the same buffer and direction, with identical amounts where both are simple; every counter "
                 "update is followed by evbuffer_invoke_callbacks_ of that buffer; evbuffer_run_callbacks reports orig_size = total_len + n_del - n_add (linear normal form), "
                 "clears the counters only when it reports them, filters every invocation by ENABLED masks and saves the next entry before invoking. "
                 "Does not decide sums over whole histories with self-modifying callbacks.",
         "note": STD_NOTE + " Buffers are identified by root variable within one function; one named and one recognised 'already empty' exception, both re-checked.",
         "technique": "static analysis: effect pairing on CFG paths with inferred helper summaries (K5/K8), must-pass-through (K3), guard and template checks (K4/K6/K9)"},
 "C16": {"level": "other",
         "text": "Value provenance of the I/O amounts: evbuffer_read adds exactly the variable whose reaching definitions are read()/readv() results and commits nothing on the "
                 "-1/0 edges; evbuffer_write_atmost drains exactly the writers' result and only when positive; writers return the syscall result; every length handed to "
                 "write/writev/sendfile/read/readv depends on howmuch (iovec lengths guarded and howmuch reduced, exact=1 vector setup, clamps only lower howmuch). Found and "
                 "repaired a genuine defect (sendfile ignored howmuch). Short-I/O sequences as such are not decided.",
         "note": STD_NOTE,
         "technique": "static analysis: reaching definitions / data dependence of syscall arguments and results (K8), dominating guards (K5)"},
 "C12": {"level": "other",
         "text": "Only the guard clauses of the byte-string property: every public mutation of a buffer parameter is dominated by the failed test of the matching freeze flag of "
                 "that same buffer (23 sites), the wrap-around tests dominate the commits of evbuffer_add/prepend, chain allocations are size-checked, and the list/length fields "
                 "are written only inside buffer.c (who-may-write over all 31 units). The bulk of C12 — contents and positions equal the model — is run-time data and is declined.",
         "note": STD_NOTE + " Necessary conditions only; a pass says nothing about byte contents.",
         "technique": "static analysis: dominating guards over resolved fields (K4), who-may-write (K2)"},
 "C44": {"level": "other",
         "text": "Typestate of the accepted descriptor in the function registered as the listener's accept callback (anchored through its event_assign registration): on "
                 "every path from a successful evutil_accept4_ to the next accept or the exit the descriptor is handed to the user callback once or closed once (never both, "
                 "never neither); the temporary reference around the user callback is dropped exactly once; after the callback the enabled flag is re-tested before the next "
                 "accept; a non-retriable accept error reaches the error callback; the listening descriptor is closed only under LEV_OPT_CLOSE_ON_FREE. "
                 "'Accepts nothing while disabled' across loop iterations is declined.",
         "note": STD_NOTE + " Assumes the user callback takes ownership of the descriptor it receives.",
         "technique": "static analysis: exactly-once typestate over CFG paths (K11/K1), cut-set reachability for ordering (K3), dominating guards (K4)"},
 "C45": {"level": "other",
         "text": "In the function that calls the backend dispatch slot: dominance ordering (prepare traversal before the wait with no timer/active-queue work in between; check "
                 "traversal after the wait and the time-cache update and before timeout_process/event_process_active); the timeout reported to prepare watchers is the very pointer "
                 "passed to dispatch and is not reassigned in between; both traversals advance from a cursor saved under the lock before the callback, stored where the unlinking "
                 "code can see it, and every function that unlinks a watcher steps the cursor. Found and repaired a genuine use-after-free (watcher freed from its own callback). "
                 "Exact once-per-iteration over add/free histories is declined.",
         "note": STD_NOTE,
         "technique": "static analysis: dominator/post-path ordering (K3), pointer provenance (K8), traversal-cursor safety rule over natural loops (K9)"},
 "C21": {"level": "other",
         "text": "Guard structure of the refill and of configuration validation: in ev_token_bucket_update_ n_ticks is current_tick - last_updated, every store through the "
                 "bucket is dominated by the rejection of (n_ticks == 0 || n_ticks > INT_MAX), per channel the product n_ticks*rate and the addition are reachable only "
                 "past the failed quotient test (maximum - limit)/n_ticks < rate while the other edge stores the maximum, the read and write channels never mix operands "
                 "(twin comparison), last_updated is advanced; ev_token_bucket_init_ clamps each level by its own maximum; ev_token_bucket_cfg_new allocates only after "
                 "all rejection tests (rate > burst, rate < 1, values > EV_RATE_LIMIT_MAX, tick length). Decides the guard shape that makes the refill safe; absence of "
                 "overflow for all 64-bit values needs bit-precise (solver) reasoning and is declined.",
         "note": STD_NOTE,
         "technique": "static analysis: dominating-guard rules (K4) and read/write twin comparison (K7) over clang CFGs"},
 "C22": {"level": "other",
         "text": "Who is charged what on every path: bufferevent_get_rlim_max_ only lowers its accumulator after starting from the per-operation maximum (K4); the size given to "
                 "every transport transfer data-depends on bufferevent_get_read_max_/write_max_ (K8); every successful socket transfer is followed on all paths by the matching "
                 "decrement with the transferred amount, TLS transfers by the decrement_buckets ops slot (K3); every function stored in that slot must reach both decrement "
                 "functions (K10), and the read/write decrement functions agree modulo renaming (K7). Found and repaired a genuine defect (bufferevent_set_max_single_read/write "
                 "were overridden by assignment instead of clamped) and records one known finding (the mbed TLS backend's decrement slot is a no-op, so mbed TLS traffic is never "
                 "charged). Bytes per window of ticks and progress within one tick are declined.",
         "note": STD_NOTE,
         "technique": "static analysis: monotone-accumulator guard rule (K4), data dependence to transfer sinks (K8), must-follow ordering on CFG paths (K3), slot exhaustiveness (K10), twin comparison (K7)"},
 "C26": {"level": "other",
         "text": "Field-based taint over http.c/ws.c: the %s sinks of the serializer are discovered from its evbuffer_add_printf calls; every store into a printed field must "
                 "take NULL, a constant, a library-generated or wire-parsed string, or an API parameter that reaches the store only past a CR/LF-rejecting validator; unvalidated "
                 "parameters turn the function into a forwarder and the obligation moves to its callers until it reaches a public parameter. Found and repaired two genuine "
                 "injection defects (request target, reason phrase). Does not decide that a serialization parses back to exactly one message nor chunk framing.",
         "note": STD_NOTE + " Assumes wire-parsed strings are not re-serialized by the library and that extension method names come from application code.",
         "technique": "static analysis: interprocedural field-based taint with validator edges (K8)"},
 "C40": {"level": "other",
         "text": "Capacity strictness in evutil_inet_ntop (a copy into dst must be dominated by the failed test strlen(buf) >= len, the snprintf result by r >= len) and "
                 "index/range guards in evutil_inet_pton (words[i] under i <= 7, packed bytes under <= 255). Found and repaired the off-by-one in both IPv6 branches. "
                 "Equality of the acceptance set with the platform parser is declined.",
         "note": STD_NOTE,
         "technique": "static analysis: dominating-guard strictness (K4)"},
 "C42": {"level": "other",
         "text": "Decoder bounds in event_tagging.c: every evbuffer_pullup result is NULL-tested before arithmetic/dereference/hand-over (K12); every read through a pulled-up "
                 "pointer is bounded by the pulled-up size (loop counter compared with the very variable passed as size; index template IDX vs size IDX+1 with only decreasing "
                 "index variables; constant indices) (K4); header-declared lengths are compared with the available bytes before being consumed. Found and repaired a 1-byte "
                 "heap over-read and two NULL-arithmetic crashes. The marshal/unmarshal round trip is declined.",
         "note": STD_NOTE + " Assumes evbuffer_pullup(buf,n) guarantees exactly n contiguous bytes.",
         "technique": "static analysis: failure-edge/null-test ordering (K12), extent-versus-guard templates on the CFG (K4)"},
 "C33": {"level": "other",
         "text": "Resolver-side parser: every one of the 24 reads of the wire buffer in name_parse/reply_parse is dominated by a bound test over the same index and size with the "
                 "index untouched in between (linear normal form of the guard), output writes are capacity-checked, compression-pointer loops are counted and range-checked; "
                 "reply data reaches reply_handle only after transaction-id lookup, QR test and question match (the match flag set only under the name comparison with the "
                 "request's own question); allocations are tested before use; the CNAME string is owned correctly. Found and repaired two genuine defects (NULL reply buffer, "
                 "CNAME leak). Semantic faithfulness of answers/TTLs is declined.",
         "note": STD_NOTE,
         "technique": "static analysis: dominating bound guards in linear normal form (K4), gating by dominance (K3), ownership/release path rules (K11/K12)"},
 "C37": {"level": "other",
         "text": "Server-side parser: bounds discipline of request_parse/name_parse as for C33; a known-bits rule reports mask tests made dead by an earlier masking of the same "
                 "variable, and the NOTIMPL response must be guarded by the opcode bits of the received flags with the user callback on the other edge; the length given to "
                 "request_parse is the receive result (UDP) or equals the allocated TCP message size; allocations are tested and released on every failure exit. Found and "
                 "repaired the dead opcode test (NOTIMPL was unreachable).",
         "note": STD_NOTE,
         "technique": "static analysis: bound guards (K4), known-bits dead-guard detection, dominance gating (K3), value provenance (K8), release on exits (K11)"},
 "C35": {"level": "other",
         "text": "Response encoder: each of the 21 writes into the response buffer is dominated by a capacity test covering index+size (increments since the test are added to the "
                 "obligation; the back-patched RDLENGTH is covered by the later successful bounded encoder call); label <= 63 / name <= 255 rejections dominate emission; only "
                 "positions a 14-bit pointer can hold are recorded for compression; negative encoder results truncate the response; the overflow path clamps and sets TC. "
                 "Found and repaired two genuine defects (1-byte stack overflow at the root label; truncated compression pointers beyond 16 KiB). Decoding equivalence is declined.",
         "note": STD_NOTE,
         "technique": "static analysis: capacity guards with syntactic implication in linear normal form (K4), error propagation (K12)"},
 "C36": {"level": "other",
         "text": "Query builder: every write into the request buffer is capacity-guarded (one byte accepted through a re-checked argument about the sole caller's allocation via "
                 "evdns_request_len); header words are the standard-query constants in order and the question carries the caller's name/type/class; a negative build result fails "
                 "request_new and the built length is recorded. Search-list order and decoding equivalence are declined.",
         "note": STD_NOTE,
         "technique": "static analysis: capacity guards (K4), constant/template check of the header words (K6), error propagation and provenance (K12/K8)"},
 "C43": {"level": "other",
         "text": "Over evrpc.c: every release of a request wrapper outside the pool destructor is preceded on every path by the user's completion callback (directly or through a "
                 "callee inferred to always complete), the callback cannot run twice before the release, and after the callback every path releases the wrapper. Found and repaired "
                 "a genuine defect: the reply path dropped the RPC silently when the hook meta allocation failed. Reply equality and completion under network faults are declined.",
         "note": STD_NOTE + " The pool destructor discarding never-started requests is the named exception.",
         "technique": "static analysis: must-pass-through on CFG paths with inferred always-completing callees (K3), exactly-once typestate (K11)"},
}

NOT_APPLICABLE = {
}

# ---- session 3 additions (same conventions)
ORDER_NOTE = (" The order-type rules evaluate the *extracted* condition trees and stores of a small CFG region on one representative per order type of the "
              "compared operands (sec </=/> x usec </=/>, plus carry/borrow representatives where arithmetic is involved); regions that leave the pure fragment "
              "end as analysis-broken. No libevent code is executed.")
CLAIMED.update({
 "C01": {"level": "other",
         "text": "Structural clauses of the timer property on event.c/minheap-internal.h: the expiry loops (timeout_process, common_timeout_callback) activate a queue head "
                 "with EV_TIMEOUT exactly when deadline <= now on all nine order types, against a clock read once before the loop, and go back for the next head; timeout_next "
                 "hands the backend zero iff deadline <= now, else deadline - now, NULL for an empty heap, through the very pointer dispatch receives; timeout_process follows "
                 "dispatch and the time-cache update on every path; only the queue-owner functions touch the heap, the common queues and ev_timeout (who-may over all units); "
                 "insert_common_timeout_inorder scans from the tail and inserts after the first element with deadline <= the new one (FIFO among equals); every heap slot store "
                 "carries its back-pointer store, removals reset it, each of the six heap comparisons has the orientation its use needs; the common-queue head timer is re-armed "
                 "on every path at the head's masked absolute deadline from both places that can change the head; event_persist_closure re-arms at (previous deadline | now) + "
                 "interval with the catch-up clause, before the user callback. Declined: exactly-once per add over add/del histories, heap permutation correctness, clock jumps.",
         "note": STD_NOTE + ORDER_NOTE,
         "technique": "static analysis: order-type enumeration of extracted comparison regions (K4/K6), who-may-call/write (K2), must-pass-through ordering (K3), store pairing (K5), orientation table (K7)"},
})
CLAIMED.update({
 "C02": {"level": "other",
         "text": "Finite-state check of the event flag machine: each of the 16 functions that move an event between lists (event_queue_*, event_callback_activate/cancel, "
                 "event_active[_later]_nolock_, event_del_nolock_, event_add_nolock_, event_remove_timer_nolock_) is evaluated from its extracted CFG on every consistent value of "
                 "the six list-membership bits x internal x result word x interest kind x each possible result of the backend map / heap reservation (about 10^4 cases per "
                 "configuration, calls between them resolved by evaluating the callee), and every outcome (flags', event_count', event_count_active', ev_res', return value) must "
                 "equal the reference model of the documented state machine; each EVLIST_* bit and counter is written only by its owners (bit-level who-may-write over all units); "
                 "event_pending is evaluated on all 1536 flag/interest/result/query combinations against the documented table incl. the reported expiry; flag words are only "
                 "bit-tested. Declined: equality with the model over whole API histories with callbacks and loop iterations; event_base_assert_ok_ never failing.",
         "note": STD_NOTE + ORDER_NOTE + " The flag domain is finite and enumerated completely; the reference model (engine/props/C02.py, m_* functions) is part of the trusted base.",
         "technique": "static analysis: exhaustive abstract evaluation of extracted CFGs over the finite flag domain against a reference model (K6/K5), bit-level who-may-write (K2), contradiction rule on flag-word tests (K4)"},
})
CLAIMED.update({
 "C03": {"level": "other",
         "text": "Loop-control decisions evaluated from the extracted CFGs on every combination of their small-domain inputs and compared with the documented rules: "
                 "event_base_loop from loop head to the backend wait (gotterm/break leave; exit 1 exactly when !NO_EXIT_ON_EMPTY, no events, nothing active; later queue promoted "
                 "before every wait; timeout_next exactly when nothing is active and !NONBLOCK, else the wait is cleared; event_continue and the deferred quota restart) and from "
                 "the wait to the next iteration (-1 on backend failure; update_time_cache, timeout_process, callbacks iff active; done exactly per EVLOOP_ONCE/NONBLOCK): 240+ "
                 "cases; event_process_active_single_queue after each callback (break -> -1, callback quota, time quota, continue, else next; only non-internal callbacks counted; "
                 "dequeued before invocation); event_process_active over 3 queues x 8 emptiness patterns x limit_after_prio x 27 result scripts (ascending scan, quota only from "
                 "the limit priority, stop after the first real work or -1, running priority reset); the deferred quota (later branch exactly above 32, only successes counted) and "
                 "the drain of the later queue; loopbreak/loopcontinue set their flag and wake a foreign-thread loop, loopexit is a once-timer setting gotterm, who writes the flags; "
                 "activation above the running priority always sets event_continue. Declined: callback order over whole histories, starvation bounds in time.",
         "note": STD_NOTE + ORDER_NOTE,
         "technique": "static analysis: exhaustive evaluation of extracted control regions over their finite input domains against the documented decision tables (K6), must-pass-through (K3), who-may-write (K2)"},
})
CLAIMED.update({
 "C05": {"level": "other",
         "text": "The chain from event_add/del to the kernel is checked link by link on the extracted code: evmap_io_add_/evmap_io_del_ evaluated on every combination of the per-fd "
                 "counters in {0,1,2}^3 x READ/WRITE/CLOSED/ET x backend success/failure (old = conditions with non-zero counter, backend slot called exactly on 0<->1 transitions with "
                 "exactly those conditions plus ET, counters/return value follow, failed backend add commits nothing); event_changelist_add_/del_ on every old_events x request x prior "
                 "change (add overwrites with ADD|ET, del cancels exactly when old_events lacks the condition); epoll_nochangelist_add/del change records, poll_add/poll_del POLL* bits "
                 "and slot release only when no bit is left, select_add/select_del per-set guards, the nfds bound only raised (or lowered consulting both sets alike) and read/write "
                 "set symmetry in the slot functions; epoll_dispatch applies and clears the change list before every wait; a non-inert epoll table row always reaches epoll_ctl; every "
                 "eventop has init/add/del/dispatch. Declined: equality with the kernel's registration over add/del/close/reopen histories (needs the kernel).",
         "note": STD_NOTE + ORDER_NOTE + " Together with C06 (the epoll table itself).",
         "technique": "static analysis: exhaustive evaluation of extracted add/del code over finite counter/flag domains against a reference model (K6), channel-symmetry twins (K7), must-pass-through (K3), slot exhaustiveness (K10)"},
})
CLAIMED.update({
 "C04": {"level": "other",
         "text": "Translation and masking links between the kernel's report and the callback's result flags, by exhaustive evaluation of the extracted code: evmap_io_active_ on all "
                 "32 interests x 16 reports (activated exactly when the event asked for a reported condition, result = interest AND report); for every function in an eventop dispatch "
                 "slot the readiness translation on every combination of the kernel bits it reads (epoll 32, poll 64, select 4) against the reference map, the reported fd taken from "
                 "the same kernel record, EV_ET added by epoll only, nothing reported after a failed wait (EINTR -> 0, other -> -1); event_del_nolock_ leaves the event on no queue for "
                 "every flag value (no callback after del in the loop thread). Whether a change reaches the kernel at all is C05/C06. Declined: real readiness, level/edge dynamics, "
                 "cross-backend agreement on concrete scenarios.",
         "note": STD_NOTE + ORDER_NOTE,
         "technique": "static analysis: exhaustive evaluation of extracted translation regions over the finite kernel-bit domains against reference maps (K6), provenance of the reported fd (K8), sibling agreement of dispatch slots (K7)"},
})
CLAIMED.update({
 "C07": {"level": "other",
         "text": "Save/restore structure of signal handling: signal-disposition system calls occur only in the four handler functions (who-may-call over all units); the installing "
                 "sigaction saves the previous disposition into the slot of the very signal it installs (allocated before, released and cleared on failure), the restoring sigaction "
                 "passes the value loaded from the slot of the same signal, clears the slot and frees once; both signal eventops' del functions reach the restore on every success path "
                 "and evsig_dealloc_ restores every saved slot; evmap_signal_add_ calls the backend exactly when the per-signal list was empty and links nothing on failure (evaluated), "
                 "evmap_signal_del_ unlinks and then calls the backend exactly when the list became empty; delivery counting (one increment per byte in that byte's slot, each non-zero "
                 "count reported with its own signal, EV_SIGNAL and count forwarded); event_signal_closure runs the callback exactly ncalls times unless zeroed or broken (evaluated); "
                 "event_del_nolock_ and a timeout re-add zero the running count of a signal event for every flag value (evaluated); the process-wide handler target "
                 "(evsig_base, evsig_base_fd) is always written together and reset only under base == evsig_base. Declined: delivery counts under asynchronous signals, fork+reinit.",
         "note": STD_NOTE + ORDER_NOTE,
         "technique": "static analysis: who-may-call (K2), argument provenance and slot ownership (K8/K11), must-pass-through (K3), evaluation of extracted regions over small domains (K6), store pairing under one guard (K5)"},
})
CLAIMED.update({
 "C09": {"level": "other",
         "text": "Three structural pillars of cross-thread use of one base. (R1) Static lockset: each of ~200 accesses to the event_base fields shared between the loop and other threads "
                 "(queues, heap, counters, current_event*, is_notify_pending, loop-control flags, maps, change list, watchers, time cache) lies at a point where th_base_lock is held "
                 "on every path, by a must-held dataflow per function plus the greatest fixpoint of 'internal function entered only with the lock held' over direct calls, eventop "
                 "slots and function-pointer arguments (constructors/destructors exempt by closure, one named exception). (R2) Wake-up: with the caller fixed to a foreign thread and "
                 "the loop running, every outcome of the activation functions that queues a callback and of event_add/del_nolock_ where the backend map reports a changed registration "
                 "calls evthread_notify_base (all flag values, through the flag machine); the is_notify_pending protocol (set before the notify function runs, skip when pending, "
                 "cleared only by the drain callbacks). (R3) event_del_nolock_ on every flags x blocking x running x thread x EV_FINALIZE combination waits on current_event_cond "
                 "exactly as documented, counting itself as a waiter; the loop clears current_event and broadcasts under the lock after every callback. "
                 "Declined: general data-race freedom on user objects, interleaving semantics, lost-wakeup freedom over schedules.",
         "note": STD_NOTE + ORDER_NOTE + " The lockset rule is a may-alias-free approximation: it identifies the base by field type, not by instance.",
         "technique": "static analysis: lockset must-held dataflow with interprocedural entered-held fixpoint (K1 requires), exhaustive evaluation of extracted code over finite domains (K6), must-pass-through (K3), who-may-write (K2)"},
})
CLAIMED.update({
 "C10": {"level": "other",
         "text": "Release structure. Field lifetime over all units: for 15 (struct, destructor) pairs every field that anywhere receives an allocator result is handed to a release "
                 "function in the destructor's call tree (direct calls and ops slots). Closure dispatch: every EV_CLOSURE_* value has a case; evaluated per closure value in the loop "
                 "and in base teardown: the user function/finalizer is invoked exactly once and only after the base lock was released, finalizers run with current_event cleared, "
                 "EV_CLOSURE_EVENT_FINALIZE_FREE frees the event after its finalizer and nothing else frees, teardown runs finalizers only when asked and only for finalizing "
                 "callbacks. Once-events: the record is freed xor linked on every path of event_base_once with the matching return value; event_once_cb = callback, unlink under the "
                 "lock, free; event_base_free_ unlinks and frees the rest without invoking them. Finalize transition (flag machine, all flag values): off every pending list, "
                 "ACTIVE|FINALIZING, closure chosen by EVENT_FINALIZE_FREE_, result EV_FINALIZE. (The signal-loop abort on delete belongs to C07-counts.) "
                 "Declined: use-after-free across arbitrary release orders by the application, leak freedom of whole histories, reference-count balance.",
         "note": STD_NOTE + ORDER_NOTE + " Allocator/release functions are recognised by frozen name tables in engine/props/C10.py.",
         "technique": "static analysis: owning-field lifetime over the destructor call tree (K11), switch exhaustiveness (K10), exactly-once typestate (K11), evaluation of extracted dispatch code per closure value (K6)"},
})
CLAIMED.update({
 "C11": {"level": "other",
         "text": "event_reinit evaluated from its extracted CFG on every combination of (backend needs reinit, signal event added, notify descriptors open, was notifiable, which step "
                 "fails): the backend is stubbed out exactly while the internal events are deleted when it needs reinit and restored before dealloc/init; the four descriptors are closed "
                 "before anything is re-created; dealloc, init, change-list reset, evmap_reinit_ (or evsig_init_ + re-adding the signal event) in order; notifiable again exactly when it "
                 "was and nothing failed; -1 on failure. Every eventop global whose init reaches a kernel-object constructor has need_reinit set. evmap_io_reinit_iter_fn on every "
                 "counter/ET/fdinfo_len combination wipes per-fd backend data whenever the backend has any and re-adds exactly the pending conditions (old 0, ET from the first event), "
                 "evmap_signal_reinit_iter_fn re-adds exactly the signals with events, evmap_reinit_ runs both sweeps and propagates failure. "
                 "Declined: behaviour of parent and child after fork.",
         "note": STD_NOTE + ORDER_NOTE,
         "technique": "static analysis: exhaustive evaluation of extracted code over finite configuration domains against the documented sequence (K6/K3), call-graph reachability to kernel constructors vs table field (K10)"},
})
CLAIMED.update({
 "C18": {"level": "other",
         "text": "Watermark gating and limits evaluated from the extracted code over small domains: bufferevent_trigger_nolock_ on every (iotype, ignore-watermarks, length vs low mark) "
                 "combination (read callback iff READ and (ignore or input >= read low), write callback iff WRITE and (ignore or output <= write low)); user read/write callbacks are "
                 "invoked only through that path (who-may-invoke over the bufferevent units); the socket read callback never hands evbuffer_read more than high - len(input) and suspends "
                 "instead of reading at/above the mark; bufferevent_inbuf_wm_cb suspends exactly when size >= high; bufferevent_setwatermark's stores and (un)suspend decisions; both "
                 "filter directions over three consecutive filter calls with the destination growing between calls: the limit handed to the filter is high - current length each time "
                 "in normal mode, -1 otherwise, and no call when the destination is full; be_pair_transfer moves at most high - len(dst input). "
                 "Declined: resumption timing, watermark changes while suspended, interaction with callbacks that change the marks.",
         "note": STD_NOTE + ORDER_NOTE,
         "technique": "static analysis: evaluation of extracted gating/limit code over small value domains against the documented rule (K6), who-may-invoke (K2)"},
})
CLAIMED.update({
 "C19": {"level": "other",
         "text": "Callback delivery structure of bufferevents: both deferred runners evaluated on every combination of pending conditions x callbacks set/unset (CONNECTED first, then "
                 "read, write, other events; each only when pending and set; each pending flag cleared before its callback runs; unlock/lock bracket in the unlocked runner; exactly one "
                 "reference dropped; the two runners agree); freshness: every callback pointer called in a runner, and the NULL test guarding it, is re-read from the bufferevent after "
                 "each earlier user callback (a callback that clears or frees must silence the later ones); bufferevent_run_readcb_/writecb_/eventcb_ over (callback set, DEFER, newly "
                 "scheduled): immediate invocation once, deferred mode records the condition and takes a reference exactly when newly scheduled; bufferevent_free clears all callbacks "
                 "before cancelling and dropping its reference; in the socket write callback a successful connect reports CONNECTED before any write trigger, a failed/refused one "
                 "exactly one ERROR. Declined: at-most-once EOF/ERROR over whole histories, name-lookup orderings.",
         "note": STD_NOTE + ORDER_NOTE,
         "technique": "static analysis: evaluation of extracted delivery code over finite pending/callback domains (K6), sibling agreement (K7), reaching-definition freshness across user callbacks (K9), must-precede ordering (K3)"},
})
CLAIMED.update({
 "C20": {"level": "other",
         "text": "Direction consistency of bufferevent timeouts: every function in a bufferevent_ops disable slot, evaluated on every (events argument, enabled word[, connecting]) combination, "
                 "disarms exactly the directions of its argument independently of bev->enabled (the suspend paths rely on that); enable slots arm only under the matching argument bit; the "
                 "generic timeout callbacks and the EV_TIMEOUT branches of the socket callbacks disable and report their own direction (twins) without attempting I/O; "
                 "bufferevent_generic_adj_timeouts_ on all 256 (enabled, suspended, timeout set, output pending, add failure) combinations arms/disarms per the documented rule; "
                 "bufferevent_set_timeouts stores or clears each timeout and calls the adj_timeouts slot once. Declined: timing, reset-on-progress over transfer histories.",
         "note": STD_NOTE + ORDER_NOTE,
         "technique": "static analysis: evaluation of extracted slot functions over finite argument/state domains (K6), twin comparison of read/write siblings (K7), guard rule for enable slots (K4)"},
})
CLAIMED.update({
 "C25": {"level": "other",
         "text": "Structure that makes the HTTP size limits enforceable, on every path of http.c: headers_size/body_size are only ever increased (plain stores are the named initialisers); "
                 "every transfer of body bytes into the request's input buffer is counted in body_size with the very amount moved (directly or through the chunk size recorded at the "
                 "chunk header); after every increase no path reaches a delivery (chunk callback, connection done, further header parsing) without a comparison against the matching "
                 "limit, or the increase is preceded by the comparison of the new total, and the failing edge fails the connection / returns DATA_TOO_LONG; wrap-around tests dominate "
                 "the additions; a declared Content-Length above the limit never reaches a body read; the four limit setters map negative to unlimited (evaluated). "
                 "Declined: 'never delivers more than the limit' over every segmentation, bound on buffering.",
         "note": STD_NOTE,
         "technique": "static analysis: monotone-counter store rule (K2/K4), amount provenance pairing (K8), must-pass-through between accumulation and delivery (K3), dominating guards (K4), evaluation of setters (K6)"},
})
CLAIMED.update({
 "C30": {"level": "other",
         "text": "Dispatch order of the HTTP server by evaluation of evhttp_handle_request on all 32 combinations of (URI parsed, method allowed, Host present, path callback matches, "
                 "generic callback set): parser error code without URI; 501 for a disallowed method before any virtual-host lookup or callback; virtual host resolved (only with a Host) "
                 "before path dispatch and the dispatch uses the resolved host's callbacks; specific callback, else generic callback, else 404, exactly one outcome. evhttp_find_vhost "
                 "consults aliases first and descends through case-insensitive pattern matches to a fixed point; evhttp_dispatch_callback compares the decoded path with strcmp and "
                 "frees the copy on every exit. Case-fold symmetry: in functions with an ignorecase flag both operands of every character comparison have the same folding status on "
                 "every path. Declined: the matching semantics of patterns and paths as such (string values).",
         "note": STD_NOTE,
         "technique": "static analysis: evaluation of extracted dispatch code over its finite decision domain (K6/K3), structural ordering (K3), folding-status dataflow symmetry on comparisons (K7)"},
})
CLAIMED.update({
 "C31": {"level": "other",
         "text": "get_ws_frame evaluated from its extracted CFG with C integer semantics (unsigned wrap-around, promotions) on ~2000 combinations of FIN x opcode class x MASK x length "
                 "form (7/16/64-bit, around the 10 MiB limit, 2^63) x every number of bytes present from 0 to the complete frame: INCOMPLETE_DATA exactly when fewer bytes are present "
                 "than header + mask + payload (a split at any position, including inside the masking key, is never taken for complete), only present header bytes are read, "
                 "ERROR_FRAME above the limit and for reserved opcodes, INCOMPLETE_FRAME for non-final data frames, otherwise the opcode with *out_len = payload length; the read "
                 "callback leaves the input alone on INCOMPLETE_DATA and reaches the disconnect path on ERROR_FRAME. Declined: message reassembly across fragments and interleaved "
                 "control frames.",
         "note": STD_NOTE + ORDER_NOTE + " Typed evaluation (engine/prog.py tevalx) models LP64 integer conversions.",
         "technique": "static analysis: typed evaluation of the extracted frame-header decoder over header/length/presence domains against the RFC 6455 framing rule (K6), bounds via presence of read bytes (K4), caller ordering (K3)"},
})
CLAIMED.update({
 "C46": {"level": "other",
         "text": "evutil_weakrand_range_ evaluated with C integer semantics over top in {1,2,3,7,100,2^20,2^30,2^31-1} x boundary generator outputs: only values in [0,top) are returned, "
                 "out-of-range quotients are redrawn; the generator state is masked to 31 bits; at every caller `top` is positive on the path and is the same quantity that bounds the "
                 "use of the result (the poll/select scans wrap at, visit, and pass to the system call the very variable the start index was drawn from — not a live counter another "
                 "thread may have advanced; the rate-limit group picks among n_members only when non-zero); evutil_secure_rng_get_bytes forwards its arguments unchanged. "
                 "Declined: bounded running time for every generator state, statistical quality.",
         "note": STD_NOTE + ORDER_NOTE,
         "technique": "static analysis: typed evaluation of the range reduction on boundary values (K6), argument/bound agreement and dominating positivity guards at call sites (K8/K4)"},
})
CLAIMED.update({
 "C38": {"level": "other",
         "text": "evdns_getaddrinfo evaluated from its extracted CFG over (base given/default/none, AI_NUMERICHOST, literal/NULL-node outcome, hosts-file outcome, cache enabled/outcome, "
                 "allocation failure, family hint, which queries could be started): sources consulted in the documented order (numeric shortcut; literal/NULL node never reaches a "
                 "query; hosts-file hit answers; cache unless disabled; then queries — A iff family != PF_INET6, AAAA iff family != PF_INET), the user callback runs exactly once when "
                 "NULL is returned and never when a handle is returned, with the documented error class; every address copied from the hosts file or the cache is stamped with the "
                 "request's port on every path before it is appended. Declined: the returned address sets, canonical names and TTL-bounded cache contents as data.",
         "note": STD_NOTE + ORDER_NOTE,
         "technique": "static analysis: evaluation of the extracted resolver front end over its finite decision domain (K6/K3), must-pass-through between copy and append (K3)"},
})
CLAIMED.update({
 "C34": {"level": "other",
         "text": "Structural clauses of exactly-once completion in evdns.c: transaction_id_pick evaluated on reserved / in-flight / free generator outputs returns only an unused id, and "
                 "request.trans_id is stored only from it (through parameters and conditional expressions, who-may-write); every request_finished(.., free_handle=1) is preceded on its "
                 "path by reply_schedule_callback for the same request (only base teardown with fail_requests==0 is exempt) and after every reply_schedule_callback no path leaves the "
                 "function with the request still queued; the deferred user callback is armed only in reply_schedule_callback, which sets pending_cb on every path; "
                 "evdns_cancel_request returns without a second completion when a callback is pending; request_finished frees the handle only when none is pending; base teardown "
                 "drains the waiting queue before finishing any in-flight request; the synchronous getaddrinfo paths are C38. "
                 "Declined: completion counts under timeouts, retransmission, TCP fallback and nameserver failover over time.",
         "note": STD_NOTE,
         "technique": "static analysis: evaluation of the id picker (K6), who-may-write with interprocedural value provenance (K2/K8), must-precede / must-follow pairing on CFG paths (K3/K5), dominance ordering of teardown loops (K3)"},
})

CLAIMED.update({
 "C23": {"level": "other",
         "text": "Only the body-framing decision of the request parser: evhttp_get_body / evhttp_get_body_length (and the helper that finds the final transfer coding, evaluated on abstract "
                 "strings) are evaluated from their extracted CFGs on 294 combinations of Transfer-Encoding (absent, chunked, Chunked, 'gzip, chunked', gzip, 'chunked, gzip', identity) x "
                 "Content-Length (absent, digits, 0, '+5', empty, '5x', '-5') x Connection x method-with-body, and the outcome (no body / chunked / length n / rejected) must equal RFC 9112 "
                 "6.1/6.3: the final coding decides, a request whose final coding is not chunked is rejected (never framed by guessing from Content-Length), Content-Length is 1*DIGIT. "
                 "Found and repaired two genuine defects (request smuggling through 'Transfer-Encoding: gzip[, chunked]'; signed Content-Length accepted), replayed against the real "
                 "server. Declined — the bulk of C23: that request line, header fields, chunk syntax and trailers are parsed exactly per the RFC grammar under every segmentation; "
                 "duplicate/conflicting Content-Length fields; obs-fold; whitespace before the colon.",
         "note": STD_NOTE + ORDER_NOTE + " Abstract string pointers (engine/prog.py PStr) model constant header values; evhttp_find_header is assumed to return the trimmed value of the first matching field.",
         "technique": "static analysis: evaluation of the extracted framing code (typed integers + abstract constant strings) over a finite header domain against the RFC 9112 decision table (K6)"},
 "C24": {"level": "other",
         "text": "Only the body-framing decision of the response reader: evhttp_response_needs_body, evhttp_get_body and evhttp_get_body_length evaluated on 1176 combinations of status class "
                 "(200, 404, 204, 304, 100, 103, 199, reply to HEAD) x Transfer-Encoding x Content-Length x Connection against RFC 9112 6.3 (no body for HEAD/1xx/204/304; final coding "
                 "chunked -> chunked; other final coding -> until close; Content-Length 1*DIGIT; neither -> until close). Found and repaired the response side of the two C23 defects. One "
                 "known finding is recorded, not repaired: without length and coding and with a Connection field other than close libevent assumes an empty body (deliberate heuristic). "
                 "Declined — the bulk of C24: grammar conformance under every segmentation, 1xx other than 100 being interim, bytes after a complete response going to the next request.",
         "note": STD_NOTE + ORDER_NOTE,
         "technique": "static analysis: evaluation of the extracted framing code (typed integers + abstract constant strings) over a finite status/header domain against the RFC 9112 decision table (K6)"},
 "C27": {"level": "other",
         "text": "The completion protocol of http.c, decided by evaluating the extracted CFGs of the nine functions that complete, fail, cancel, retry, answer or tear down requests "
                 "on the finite domain of their decision inputs (error code, connection kind/flags, callbacks set or not, queue position, helper results) and comparing the ordered trace "
                 "of unlink / user callback / release / connection-free operations with the protocol: an outgoing request is unlinked before its callback, completed exactly once "
                 "(never when cancelled), released exactly once, nothing touches the connection after a user callback; a failing evhttp_make_request has released the request; the "
                 "retry branch completes nothing; teardown cancels retry timer and deferred callback and releases queued requests; connection_cnt has one incrementer and one guarded "
                 "decrementer and an over-limit connection is only refused; evhttp_handle_request hands a request to exactly one responder. Found and repaired a genuine leak "
                 "(evhttp_make_request after a synchronous connect failure). Declined: completion counts over network histories (resets at every byte, timeouts and retries over "
                 "time, pipelining) — those need executions.",
         "note": STD_NOTE + ORDER_NOTE,
         "technique": "static analysis: evaluation of extracted CFGs over finite decision domains with ordered operation traces (K6/K11), path and who-writes rules (K3/K2/K1)"},
})


# ---- clauses added in the third phase (appended to the texts above so that MANIFEST says what the checks now decide)
def _more(pid, text, technique=None):
    CLAIMED[pid]["text"] = CLAIMED[pid]["text"].rstrip() + " " + text
    if technique:
        CLAIMED[pid]["technique"] = CLAIMED[pid]["technique"].rstrip() + "; " + technique


_HEAP = ("evaluation of the extracted CFGs of buffer.c on an abstract heap (chains as objects, symbolic storage bytes, modelled malloc/free/memcpy) "
         "compared with the byte-string model (K6)")
_more("C12", "Added: one-step refinement of the byte-string model on abstract heap images — evbuffer_add, prepend, drain, pullup, copyout, remove, expand, expand_fast_, "
             "remove_buffer, add_buffer and prepend_buffer are evaluated from 8 chain layouts (x 3 destination layouts for the two-buffer operations) and boundary argument values "
             "(553 cases): afterwards the content (symbolic bytes), the return value, the bytes copied out, the pending callback counts and the representation invariant "
             "(sizes within storage, total_len, last, acyclic list, *last_with_datap = last chain holding data) are the model's, every copy stays inside live chain storage and nothing "
             "freed is touched again. This decides the inductive step of the property for those operations on that family of layouts, not for every layout; iterators, search, "
             "references and reserve/commit remain declined.", _HEAP)
_more("C13", "Added (C13-counts): after each operation of the C12 family n_add_for_cb / n_del_for_cb equal the bytes the operation added and removed (same heap evaluation).", _HEAP)
_more("C14", "Added (C14-alloc-failure): the C12 operation family is re-evaluated with each single allocation made to fail: the call then reports failure with content, length, "
             "counts and chain structure as before (or success with its full effect); dangling links to released chains are reported.", _HEAP)
_more("C16", "Added (C16-read-structure): evbuffer_read with the real evbuffer_read_setup_vecs_ is evaluated on 6 chain layouts for every boundary value of the byte count the "
             "kernel returns; the buffer must satisfy the evbuffer invariants afterwards (in particular *last_with_datap designates the chain that received the last byte).", _HEAP)
_more("C08", "Added (C08-lock2-alias): the balance analysis is repeated in the world where the two locks of an EVLOCK_LOCK2/UNLOCK2 pair are one object; functions using the pair "
             "macros must have the same net effect in both worlds.")
_more("C21", "Added (C21-refill-eval): ev_token_bucket_update_ is evaluated with C integer semantics on a domain containing the 64-bit extremes (maximum up to 2^63-1, level down "
             "to -(2^63-1), ticks up to 2^31) and must equal min(maximum, level + ticks*rate) computed exactly; the syntactic shape of the overflow guard is informational only.",
      "typed evaluation of the extracted code on an extreme-value domain (K6)")
_more("C22", "Added (C22-reconfigure): bufferevent_rate_limit_group_set_cfg and ev_token_bucket_init_(reinitialize) clip a level to min(level, new maximum) — a negative level "
             "(debt) survives reconfiguration (typed evaluation; signed/unsigned conversions matter).", "typed evaluation (K6)")
_more("C23", "Added: (b) the chunked reader under segmentation — evhttp_read_body/evhttp_handle_chunked_read evaluated on an abstract input buffer for nine valid chunked messages "
             "(several chunks, one-byte chunks, hex case, zero padding, chunk data that is CRLF, chunk extensions with and without BWS, empty body) and six invalid size lines, each in "
             "one piece, cut in two at every byte position and fed byte by byte: terminal action, body and leftover bytes equal RFC 9112 7.1 and do not depend on the cuts; "
             "(c) received header lines are accepted exactly when the field name is a token directly followed by ':' (19 line forms), value trimmed. Found and repaired: chunk "
             "extensions rejected; white space before the colon / non-token names accepted (\"Content-Length : n\" smuggling).",
      "evaluation of the chunked reader on an abstract byte buffer under every two-way segmentation (K6)")
_more("C24", "Added: the chunked reader under segmentation (same evaluation as C23, shared reader; chunk-extension defect repaired).",
      "evaluation of the chunked reader on an abstract byte buffer under every two-way segmentation (K6)")
_more("C32", "Added (C32-sha1-blocks): SHA1Update's block arithmetic — for every buffer fill 0..63 and every input length 0..140 plus block-boundary lengths up to 320 the 64-byte "
             "blocks handed to SHA1Transform are exactly the consecutive blocks of (buffered + input) bytes, the remainder stays buffered, copies stay inside the 64-byte buffer and "
             "the bit count advances by 8*len (uint32 wrap).", "typed evaluation with recorded copy/transform operations (K6/K4)")
_more("C36", "Added (C36-case): the 0x20 case randomisation of request_new changes nothing but the case bit of ASCII letters — evaluated for all 256 byte values and both random bits.",
      "exhaustive typed evaluation over byte values (K6)")
_more("C40", "Added (C40-v4form): evutil_inet_ntop(AF_INET6) chooses an embedded-IPv4 text form only for addresses whose other words are zero (384 word patterns), so that the text "
             "parses back to the same address.", "evaluation of the form decision over word patterns (K6)")
for _p, _t in (("C20", "Added (C20-outbuf): appending output (re)adds the write event only when it is not already pending — a running write timeout is not pushed forward without progress."),
               ("C25", "Added (C25-lines): every header line returned by evbuffer_readln is counted in headers_size before it is used or skipped (continuation lines included)."),
               ("C30", "Added (C30-alias): the host reported for an alias is the evhttp that owns the matching alias, also for nested virtual hosts."),
               ("C31", "Added (C31-consume): each decoded frame's payload is removed from the input exactly once per loop iteration."),
               ("C34", "Added (C34-timer): a request's timeout is deleted only when the request is finished, suspended or re-transmitted on every path."),
               ("C38", "Added (C38-cachettl): every store of addresses into a cache entry is followed by arming the entry's expiry timer with the answer's TTL.")):
    _more(_p, _t)


# ---- fourth round (batches 9-11 and the defects found on the way)
_more("C12", "Added (C12-search-eol): evbuffer_search_eol on buffer images with concrete bytes — 7 contents x every two-chain layout x every start position x the styles ANY, CRLF, LF, NUL "
             "(1484 cases): position and length equal the byte-string model, no byte outside the buffer's data is read.", "evaluation with byte memory and struct locals (K6)")
_more("C13", "Added (C13-pending-kept): pending counts are dropped by evbuffer_invoke_callbacks_ only when no callback is registered; with callbacks (enabled or momentarily disabled) they are "
             "reported now or kept and the deferred report scheduled.")
_more("C15", "Added (C15-immutable-sticky): no store clears EVBUFFER_IMMUTABLE from a chain's flags.")
_more("C16", "Added (C16-write-structure): evbuffer_write_atmost on 8 layouts x howmuch x {front frozen or not} x {kernel takes all / one / all but one / nothing / fails}: what is offered to "
             "write/writev is a prefix of the content no longer than howmuch, nothing is offered while the front is frozen, afterwards the buffer holds exactly what the kernel did not take.", _HEAP)
_more("C21", "Added (C21-reinit): re-initialisation clips a level to min(level, new maximum) (shared with C22-reconfigure).")
_more("C22", "Added (C22-leave-group): a bufferevent leaves a rate-limit group with the group's suspension lifted, except on destruction.")
_more("C23", "Added: header sections with obsolete line folding, and sections arriving in two reads cut at every line, give the same fields (C23-fieldname, folding cases).")
_more("C24", "Added (C24-eof): evhttp_error_cb decision table — 912 combinations of connection state, event bits, chunked, ntoread and flags: an end of stream completes a response only when "
             "the body is delimited by it (not chunked, no length); every other EOF/error/timeout fails the request exactly once.", "decision table by evaluation (K6)")
_more("C26", "Added (C26-format): numbers formatted into fixed buffers (chunk-size lines, Content-Length, ports) fit in the worst case or the result is checked.")
_more("C27", "Added (C27-retry-state): retry_cnt != 0 implies that the retry timer is pending (cleanup leaves the timer armed or the count at 0; retry_ev is deleted only at teardown). Found and "
             "repaired: after exhausted retries every later request on the connection was queued forever.")
_more("C31", "Added (C31-messages): message reassembly — ws_evhttp_read_cb with the real get_ws_frame evaluated on an abstract input stream for 15 frame sequences (fragmentation with continuation "
             "frames, interleaved ping/pong, close followed by data, malformed fragmentation, fragmented control frame, reserved opcode, unmasked frames), each in one read, cut in two at every "
             "byte and byte by byte: the messages delivered and the close equal an RFC 6455 decoder. Found and repaired: conforming fragmented messages closed the connection, a new data frame "
             "inside a fragmented message was concatenated, frames after a Close were still delivered. The reassembly clause is no longer declined for this family.",
      "evaluation of the reader on an abstract byte stream with in-place unmasking, under every two-way segmentation (K6)")
_more("C35", "Added (C35-sections): evdns_server_request_add_reply on every sequence of up to three additions over the three sections — each section's list holds exactly its own records in "
             "order, counted.", "evaluation on an abstract heap (K6)")
_more("C36", "Added (C36-encode, C36-search-name): dnsname_to_labels on 17 name forms writes exactly the wire form or fails (empty interior labels, 64-byte labels, 256-byte names); search "
             "candidates are <base without trailing dot>.<domain>. Found and repaired: names with an empty label were transmitted malformed.", "evaluation with byte memory (K6)")
_more("C37", "Added (C37-tcpframe): DNS over TCP — tcp_read_message driven as its callers drive it on a stream of three messages (5, 300, 3 bytes) cut at every byte and fed bytewise: the messages "
             "delivered are exactly the length-prefixed messages of the stream.", "evaluation under segmentation (K6)")
_more("C40", "Added (C40-pton-strict): evutil_inet_pton evaluated on 78 IPv4/IPv6 text forms against a strict reference parser (sscanf/strtol modelled with their C semantics). Found and "
             "repaired: signs, white space, wrapping components, 0x groups and a trailing colon were accepted.", "evaluation on abstract strings against a reference parser (K6)")
_more("C42", "Added (C42-records): evtag_unmarshal_header / evtag_consume / evtag_peek_length on records cut short at every length and split over two chains: accepted exactly when complete, no "
             "byte outside the buffer's data read (reads go through the abstract byte memory).", "evaluation with byte memory on abstract evbuffers (K6/K4)")
_more("C43", "Added (C43-reschedule): after every client-side completion the pool's queue is looked at again. Found and repaired: requests queued behind a request that could not be started "
             "never completed.")
_more("C44", "Added: a bare --refcnt is only allowed under the failed 'last reference' test taken after the user callback.")
_more("C45", "Added (C45-cursor): base->watcher_next is written only by the traversals and evwatch_free's repair.")
_more("C46", "Added (C46-snapshot): the bound of the random start and the scan is the count handed to select()/poll(), not re-read after the wait.")


CLAIMED.update({
 "C28": {"level": "other",
         "text": "Clauses of the URI round trip whose truth is in the code's own tables and decisions: V — scheme_ok, userinfo_ok, regname_ok and end_of_path (path, query, fragment) evaluated on every byte "
                 "value and on every percent-escape shape accept exactly the RFC 3986 character classes; P — parse_port accepts exactly digit strings with value 0..65535 (long inputs do not wrap), "
                 "evhttp_uri_set_port exactly -1..65535; J — evhttp_uri_join evaluated on 1848 combinations of component shapes either refuses or produces a string that the RFC 3986 Appendix B split "
                 "takes apart into exactly the components that were set; S — every setter validates with the predicate the parser uses. Found and repaired: join wrote paths that parse back as an "
                 "authority or a scheme; set_port accepted ports above 65535. Declined: that evhttp_uri_parse_with_flags splits every input string as RFC 3986 does (in-place parser on a copy of the "
                 "input; evaluating it would decide a sample of inputs), the UNIX_SOCKET and NONCONFORMANT forms. A (authority): parse_authority evaluated on 40 authority strings (in mutable byte memory, followed by a path or the terminator) x STRIP_BRACKETS: accepts exactly RFC 3986 authorities, stores exactly their userinfo / host / port, the host without brackets and the internal had-brackets bit iff asked, reads only the authority, writes only its allocations. H (host setter): evhttp_uri_set_host over host forms x public flags x prior state stores what evhttp_uri_join will write back as the host that was set, never touches public flags, a refused host changes nothing; evhttp_uri_set_flags keeps the internal bit; no other writer of uri->flags (two genuine defects fixed in /repo). U (whole parser): evhttp_uri_parse_with_flags evaluated on 68 URI-reference forms x STRIP_BRACKETS and 13 unix-socket forms against an RFC 3986 reference: same accept/refuse and same components (found: the documented unix-socket form lost its path, query and fragment; join wrote unix-socket URIs that do not parse; three more genuine defects fixed).",
         "note": STD_NOTE + ORDER_NOTE,
         "technique": "static analysis: exhaustive evaluation of the extracted validators over byte values (K6), decision table of evhttp_uri_join against the RFC 3986 split (K6), sibling agreement (K7)"},
})


CLAIMED.update({
 "C39": {"level": "other",
         "text": "Clauses of the configuration property that are decisions of the code: T - the option names documented for evdns_base_set_option are exactly the names the code recognises; "
                 "O - evdns_base_set_option_impl evaluated on an abstract evdns_base for each of the 17 options (with and without the trailing colon) x well-formed / zero / junk / trailing-junk "
                 "values x every class subset of the flags: a well-formed value changes exactly the option's own field (clipped to the bounds in the code) and only when its class is enabled, a "
                 "malformed value is refused with -1 and changes nothing (strtol/strtod modelled with their C semantics); L - resolv_conf_parse_line evaluated on 17 line forms of resolv.conf(5) "
                 "x 5 flag sets performs exactly the documented actions (nameserver added, search domains in order, option/value pairs handed to the option table) and nothing for comments, "
                 "unknown directives and missing arguments. Declined: memory safety of the file reader on arbitrary bytes, the hosts file, equality with a reference parser on all inputs. D (search domains): search_postfix_add on domains with 0..3 leading dots stores the text without them, with its own length, reading only the caller's string and writing only its block. N (names): str_matches_option on 15 token forms per option: a token names an option iff it is the name or the name followed by ':' and anything. H (hosts): evdns_base_parse_hosts_line on 18 hosts(5) line forms in byte memory adds exactly the line's names for its address (comments, blank lines, bad addresses and addresses with a port add nothing), names copied whole into blocks of their size. F (files): both file readers hand every line of the file to the line parser, in order, once, inside the buffer, and free the buffer once.",
         "note": STD_NOTE + ORDER_NOTE,
         "technique": "static analysis: documentation/code table agreement (K7), decision tables by evaluation of the extracted option and line parsers on abstract strings and an abstract heap (K6)"},
})


CLAIMED.update({
 "C17": {"level": "other",
         "text": "Necessary structural clauses of stream integrity for the socket and pair transports, decided by evaluating the extracted transport functions on the finite domain of what the "
                 "system call / the buffers answer: R/W - bufferevent_readcb and bufferevent_writecb for every event mask x transfer result (progress, 0, retriable error, reset, refused) x output "
                 "left: data is charged and the data callback triggered and no event callback runs; end of stream and hard errors disable the direction FIRST and then run exactly one event callback "
                 "with READING|EOF resp. ERROR (WRITING for the writer); a retriable error reports nothing; buffers are unfrozen exactly around the transfer. P - be_pair_transfer for reader "
                 "watermark x fill levels x flushing moves bytes only by whole-buffer moves from the writer's output to the reader's input, a flush hands over EVERYTHING the writer wrote (a genuine "
                 "defect fixed in /repo), something moves whenever the reader has room, both buffers are frozen again on every path; be_pair_flush for mode x direction transfers BEFORE it announces EOF to the partner, once, with the right direction bits. F - be_filter_read_nolock_ evaluated over chunks pending x read callback drains or not x got_eof never returns with data left in "
                 "the underlying input unless the filter input is full and the inbuf callback armed; be_filter_eventcb forwards each event exactly once and unchanged, and pushes pending input "
                 "through the filter in FINISHED mode before it announces EOF or a read error (two genuine defects fixed in /repo). M - inside the socket, pair and filter back ends only "
                 "the transport functions change a bufferevent's input/output buffers. Declined: equality of the delivered byte stream over histories of writes, toggles, flushes, schedules and "
                 "faults (runtime values and orders), what user-supplied filter callbacks do, the TLS handshake/renegotiation state machines. T (TLS): do_read / do_write evaluated over iovec layouts x scripts of TLS read/write answers (progress of 1, 2, all; want-read; want-write; closed) x rate-limit suspension: exactly the bytes the TLS read delivered are committed, in place and in order, closure is never reported with bytes of this call uncommitted; exactly the bytes the TLS write accepted are drained, no byte offered twice, no zero-length offer. D (deferred runners): a data callback's pending flag is cleared before the callback runs (the decision table of C19-runners, reused).",
         "note": STD_NOTE + ORDER_NOTE,
         "technique": "static analysis: decision tables by evaluation of the extracted transport callbacks over the finite domain of transfer results (K6), who-may-call over buffer-mutating calls (K2)"},
})


_more("C04", "Added (C04-changelist): the changelist decision table of C05 is part of this check too — a change dropped or cancelled there makes the backend report what nobody asked for.")
_more("C19", "Added (C19-rearm): who may switch a direction back on — every call through the bufferevent_ops `enable` slot in bufferevent*.c is accounted for: bufferevent_unsuspend_read_/write_ are "
      "evaluated over (suspend flags, flag dropped, enabled word): the slot is called iff nothing suspends the direction any more and bufev->enabled still has it (after EOF/ERROR it has not); "
      "bufferevent_enable is evaluated: the slot gets the requested directions minus the suspended ones after the request was recorded; any other site needs a dominating test of bufev->enabled "
      "for its direction (one named exception: a new connect arms the write event).", "who-may-call over a function-pointer slot + finite evaluation (K3/K6)")
_more("C21", "Added (C21-tick-eval): ev_token_bucket_get_tick_ evaluated with C integer semantics on pairs of instants, including pairs that straddle multiples of 2^32 milliseconds, for six tick "
      "lengths: the difference modulo 2^32 of the two tick numbers lies between floor and ceiling of the elapsed time in ticks — the tick count the refill is fed is the time that passed.")
_more("C23", "Added: chunk sizes that do not fit the counter (17+ hex digits, 2^63 and above) — the chunked evaluation requires that no body byte is delivered and the trailer stage is not reached "
      "(refusing or waiting are both accepted); a size with leading zeros is the control.")
_more("C24", "Added: the overflowing chunk sizes of C23 are part of the chunked evaluation here too.")
_more("C25", "Added (C25-headers-eval): one call of evhttp_parse_headers_ is evaluated on scripted reads (0-3 lines of two lengths, ending in a field line, a continuation line or the blank line; "
      "running total before the call 0/35/95 of a limit of 100; 0/30/70 bytes still buffered; with and without a connection): the result, the number of lines handed on before the limit fails, "
      "and the total left in the request (old total plus every line consumed) are those of the limit rule — the contract of one call composes over any segmentation of the header section. The "
      "shape clauses accept a local running total that is initialised from the field and only increased.", "finite evaluation of the header-section accounting (K6)")
_more("C11", "Added: event_reinit is evaluated with a wake-up pending at fork time (is_notify_pending=1): after a successful reinit of a notifiable base the flag is clear (found and repaired a genuine "
      "defect: the child swallowed every later cross-thread wake-up).")
_more("C20", "Added (C20-rearm): C19's who-may-re-arm rule is part of this check — a direction whose enable slot is called while another suspension reason is left (or while it is disabled) gets its "
      "event and its timeout back, and the timeout fires on a direction that is not running.")
_more("C22", "Added (C22-share-eval): what one operation may move for a group member — bufferevent_get_rlim_max_ evaluated with C integer semantics over direction x group suspended x group level "
      "(negative, zero, small, large) x members x (clipped minimum share, configured minimum share that differs) x per-operation maximum (800 cases): min(per-operation maximum, max(level/members, "
      "clipped share)), zero while the group is suspended, never negative.", "typed finite evaluation of the per-operation grant (K6)")
_more("C24", "Added (C24-read-resume): every store of a READING state to evcon->state in http.c is followed on every path to the function's exit by parsing the input buffer (evhttp_read_*), by "
      "scheduling read_more_deferred_cb when the buffer is not empty (evhttp_start_read_), by the end of the exchange, or by the next state switch — a message whose bytes are already buffered "
      "does not wait for another segment (one named exception: a freshly accepted connection).", "must-pass-through on the CFG from every state switch (K3)")
_more("C26", "Added (C26-reply-start): evhttp_send_reply_start evaluated over caller-set Content-Length x HTTP version x body/no body x the value req->chunked held before (a chunked request body "
      "leaves 1): Transfer-Encoding: chunked is added exactly when it should be, and req->chunked afterwards says exactly whether it was — chunk framing is never written unannounced.")
_more("C29", "Added: escaped question marks (%3F) in the decoder domain — only a literal '?' starts the query part in the deprecated mode.")
_more("C32", "Added (C32-frame-atomic): a frame queued with more than one addition to the output buffer (header, payload) is queued under the bufferevent lock — the multi-part emitter locks "
      "itself or every call of it lies between bufferevent_lock and bufferevent_unlock (lock dominates, no unlock in between, unlock on every way out).", "lock bracket around multi-part emission (K1/K3)")
_more("C33", "Added: name_parse is evaluated in byte memory on names that run into compression-pointer cycles without labels (self-pointer, two- and three-pointer cycles, a cycle behind a "
      "label) plus an ordinary compressed name as control: it has to return -1; an evaluation that reaches the same state again is a proof of non-termination.")
_more("C34", "Added (C34-id-bucket): every store of a transaction id into a request happens while the request is linked in no bucket (a new request, or evdns_request_remove dominates), and is "
      "followed on every path by evdns_request_insert/request_submit — the id decides the bucket in-flight requests are found in.", "who-may-store + must-pass-through (K3/K5)")
_more("C36", "Added (C36-name-format): every evutil_snprintf of a number-built name into a fixed local buffer of evdns.c fits in the worst case of its conversions (argument ranges from casts and "
      "masks), terminator included — a truncated reverse name is a query for another name.")
_more("C37", "Added (C37-reply-items): once request_parse has attached a reply item to the request (the OPT pseudo-record), no path reaches the failure exit that frees the request without its "
      "reply items (K11 on the CFG).")
_more("C38", "Added (C38-hosts-eval): evdns_getaddrinfo_fromhosts evaluated over hosts entries of seven family combinations x wanted family x allocation failure: not in the table -> -1; in the "
      "table -> exactly the entries of the wanted family, or the address-family error when there is none (never 'not in hosts'); allocation failure -> -1 and nothing handed out.", "finite evaluation with a scripted hosts table (K6)")
_more("C42", "Added (C42-payload-eval): evtag_unmarshal evaluated on payload lengths 0, 1, all-that-is-buffered and a failing header, with evbuffer_pullup's contract (NULL for size 0): the length is "
      "returned, exactly the payload is handed on and drained.")
_more("C39", "Added (C39-setport): sockaddr_setport evaluated for IPv4, IPv6 and another family x three ports: the port field of that family gets the port in network byte order (the two "
      "branches agree), other families are untouched, and sockaddr_getport reads it back.")
_more("C41", "Added (C41-rtrim): evutil_rtrim_lws_ evaluated in byte memory on 16 strings (empty, white space only, inner and leading white space, other control characters): exactly the "
      "trailing SP/HT bytes go and nothing in front of the string is written.")
_more("C46", "Changed (C46-secure): decided by evaluation — for twelve request lengths (0 to 2^20-1, around 256 and 65536) the pieces evutil_secure_rng_get_bytes hands to the generator cover "
      "[buf, buf+n) exactly; a chunked implementation is judged by its pieces, not by its spelling.")
_more("C04", "Added (C04-evmap): the reader/writer counts of an fd are stored only after the backend accepted the add (C05's rule, run here as well) — counts stored before a failing "
      "backend add make the next add believe the fd is registered, and the backend is never told about events this property promises to deliver.")
_more("C35", "Added: the compression-table lookup is decided by evaluation — on every table of up to three distinct names (prefixes and suffixes of one another) and seven looked-up names the "
      "result is the position of the entry with the very same name, or negative.")
_more("C10", "Added: the exactly-once walk over event_base_once follows only consistent edges of repeated tests of one plain local (correlated branches), so a single-exit spelling is judged like the original.")
_more("C10", "Added (C10-fresh): the deferred runners re-read callback pointers after every earlier user callback (C19's rule reused: a cached pointer is a use after release).")
_more("C19", "Added (C19-refs): bufferevent_private.refcnt is initialised once, incremented only in the incref functions and decremented only in bufferevent_decref_and_unlock_ "
             "(a second decrement site cannot know whether the deferred queue holds a reference).")
_more("C20", "Added (C20-write-event): the socket write callback never removes the write event while output is left (it carries the write timeout); the decision table is C17's.")
_more("C17", "Added: the socket write callback never removes the write event while output is left, for write low-water marks 0 and 64 (what is left would never be sent).")
_more("C29", "Added (C29-query): evhttp_parse_query_impl evaluated on 21 query strings (in byte memory: it cuts a copy in place with strsep) x the four flag combinations yields exactly the pairs of "
             "the documented splitter (conformant / NONCONFORMANT / LAST_VAL, keys compared without case), and refuses exactly what it refuses, leaving the list empty.",
      "evaluation of the extracted query splitter on byte memory against a reference splitter (K6)")
_more("C17", "Added (C17-pair-talk): be_pair_wants_to_talk as a truth table; be_pair_enable and be_pair_outbuf_cb hand waiting data over iff both sides are willing. "
             "Added (C17-tls-loop): consider_reading triggers the read callback iff some do_read made progress and reads what the TLS library holds decrypted before returning; "
             "consider_writing goes on while output is left and nothing blocks, and never removes the write event with output left.")
_more("C38", "Added (C38-union): evdns_getaddrinfo_gotresolve as a decision table over which family answered x what it answered (addresses, NODATA, NXDOMAIN, SERVFAIL) x the state of the other "
             "family (pending, done without result, done with answers, done with an error) x both TTL orders: nothing is reported and the other request is left alone while it is pending, the "
             "answers are kept; the user hears the union, A before AAAA; an error yields to answers; what is cached is what is reported and lives no longer than the shorter TTL "
             "(a genuine defect fixed in /repo).",
      "decision table by evaluation of the extracted merge callback (K6)")
_more("C40", "Added: the strict-reference family now holds IPv6 texts with a hexadecimal group glued to the embedded dotted quad.")
_more("C39", "Added (C39-readfile): evutil_read_file_ over open result x file size x malloc result x scripts of read() answers (full, short, zero, error): every read stays inside the block of "
             "size+1 behind the data read so far, the terminator follows the data, the descriptor is closed once, the block is freed or handed out, never both.")
_more("C27", "Added (C27-write-cb): evhttp_write_buffer replaces the connection's write-completion callback and its argument by exactly what it is given, NULL included (a callback left over from the "
             "previous reply would complete the request being streamed now).")
_more("C30", "Added (C30-glob): prefix_suffix_match evaluated on 14 patterns x 14 host names x case folding equals shell matching with '*' (found: a '*' at the end of a pattern matched nothing; fixed).",
      "evaluation of the extracted recursive matcher on abstract strings against a reference matcher (K6)")
_more("C44", "Added (C44-peer): the in/out address length is set to the size of the address buffer again between two accepts, and the callback gets that buffer and the length accept wrote.")
_more("C35", "Added (C35-truncate-udp-only): the truncation decision of evdns_server_request_format_response over transport x advertised UDP size x encoded length: TC and the cut apply iff the "
             "client came over UDP and the reply is longer than it can take.")
_more("C39", "Added (C39-inflight-table): the in-flight request table's pointer and length are stored back to back (no resolver code looks at either in between) and max-inflight re-files every "
             "request into the new table modulo the new length.")
_more("C06", "The table index may be computed by a helper function: it is then evaluated with C integer types (a narrow temporary truncates) for all 512 combinations.")
_more("C29", "Added (C29-decode-eval): evhttp_decode_uri_internal evaluated on 1294 inputs in byte memory (every string over {a % 4 z + ?} up to length 3, longer escape forms, every pair of "
             "hexadecimal digits) x the three plus-modes: documented decoding, terminator, returned length, no write outside the output block, no read behind the input.")
_more("C32", "Added (C32-frame-eval): make_ws_frame evaluated for 5 opcodes x 13 payload lengths around every length-form boundary appends exactly the RFC 6455 header and then the payload, by copy.")
_more("C02", "Added (C02-ncalls): event_active_nolock_ over queue flags x event kind x count: an already-active event keeps its pending call count, a newly activated signal event gets the given "
             "count, queued once. Added (C02-io-timeout): event_add_nolock_(ev, NULL) on a persistent event in no queue clears the re-arm interval of an earlier add, a pending event keeps "
             "its timeout (a genuine defect fixed in /repo).")
_more("C03", "Added (C03-internal-prio): every event marked EVLIST_INTERNAL is given priority 0 where it is set up (the priority scan goes on below a queue that held only internal callbacks).")
_more("C05", "Added (C05-epoll-use): C06's rule on how epoll_apply_one_change uses the operation table, in particular EPOLLET exactly when a change byte carries the ET bit.")
_more("C07", "Added to C07-target: file-scope state the signal handler itself writes is reset in evsig_init_ or in every function that closes the signalling socket.")
_more("C10", "Added (C10-schedule-ret): event_callback_activate(_later)_nolock_ against C02's reference model, return value included: 'newly scheduled' is reported exactly when the callback was in no "
             "queue (bufferevents and evbuffers take a reference exactly then).")
_more("C13", "Added (C13-reset-first): evbuffer_run_callbacks never resets the pending counters after a user callback may have run in the same call.")
_more("C12", "The layout family now holds an empty chain whose misalign sits at its end (what a failed evbuffer_prepend leaves behind).")
