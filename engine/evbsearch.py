"""evbuffer_search_eol on abstract buffer images holding concrete bytes (C12: every returned position and length equals the byte-string model)."""
from .prog import *
from .prog import PPtr, PRef, PStr
from .interp import normx, nkey, run_all
from . import evbheap as HB


def ref_eol(content, p, style):
    if style == "LF" or style == "NUL":
        i = content.find(b"\n" if style == "LF" else b"\0", p)
        return (i, 1) if i >= 0 else (-1, 0)
    if style == "CRLF":
        i = content.find(b"\n", p)
        if i < 0:
            return (-1, 0)
        if i > p and content[i - 1:i] == b"\r":
            return (i - 1, 2)
        return (i, 1)
    if style == "ANY":
        idx = [j for j in range(p, len(content)) if content[j] in b"\r\n"]
        if not idx:
            return (-1, 0)
        i = idx[0]
        n = 0
        while i + n < len(content) and content[i + n] in b"\r\n":
            n += 1
        return (i, n)
    raise ValueError(style)


CONTENTS = [b"ab\r\ncd\n\re\r\r\nf\n", b"\nx\r\n", b"\r\n\r\n", b"abc", b"a\0b\n", b"x\r", b"\r\nabc\n"]


def splits(content):
    """ways of laying the content out in chains: one chain; two chains cut at every position; three chains"""
    yield [content]
    for k in range(1, len(content)):
        yield [content[:k], content[k:]]
    if len(content) >= 3:
        yield [content[:1], content[1:2], content[2:]]


def rule_search_eol(P, rid):
    from .core import Rule
    r = Rule(rid, "K6", "evbuffer_search_eol returns the position and length of the byte-string model for every start position, chain layout and EOL style (ANY, CRLF, LF, NUL)", floor=1200)
    f = P.fn("evbuffer_search_eol")
    E = {}
    for e in P.enums.values():
        for n, v in e["items"]:
            E[n] = v
    styles = {"ANY": E.get("EVBUFFER_EOL_ANY"), "CRLF": E.get("EVBUFFER_EOL_CRLF"), "LF": E.get("EVBUFFER_EOL_LF"), "NUL": E.get("EVBUFFER_EOL_NUL")}
    if None in styles.values():
        r.brk("enum evbuffer_eol_style not found")
        return r
    itv = ["var", "it", "local"]
    kpos = nkey(["fld", itv, "evbuffer_ptr.pos", "."])
    nb = 0

    def extra(el, e_):
        n = callee_name(el.e)
        if n == "memchr":
            a = el.e[2]
            try:
                p, c, cnt = evalx(normx(a[0]), e_, P), evalx(normx(a[1]), e_, P), evalx(normx(a[2]), e_, P)
            except EvalError as ex:
                e_["#err"] = str(ex)
                return "impure"
            if not isinstance(p, int) or not isinstance(cnt, int) or cnt < 0 or cnt > 100000:
                e_["#err"] = "memchr(%r, %r, %r)" % (p, c, cnt)
                return "impure"
            for j in range(cnt):
                if ("m", p + j) not in e_:
                    e_["#viol"] = e_.get("#viol", ()) + ("memchr reads byte %d outside the buffer's data" % (p + j),)
                    return 0
                if e_[("m", p + j)] == (c & 0xff):
                    return p + j
            return 0
        return None
    for content in CONTENTS:
        for parts in splits(content):
            chains = [dict(buffer_len=len(x) + 7, misalign=3, off=len(x)) for x in parts]
            for p in [None] + list(range(len(content))):
                for sname, sval in styles.items():
                    env = HB.build(chains, len(chains) - 1)
                    pos = 0
                    where = {}
                    for ci, x in enumerate(parts):
                        base = env[HB.cell("c%d" % ci, "evbuffer_chain", "buffer")] + 3
                        for j, bv in enumerate(x):
                            env[("m", base + j)] = bv
                            where[pos] = (ci, j)
                            pos += 1
                    env.update({"#typed": 1, "#bytemem": 1, "event_debug_logging_mask_": 0, f.params[0][0]: PPtr("buf"), f.params[2][0]: PRef(None, "#eol"), "#eol": -7, f.params[3][0]: sval})
                    if p is None:
                        env[f.params[1][0]] = 0
                    else:
                        ci, j = where[p]
                        env[f.params[1][0]] = PPtr("st")
                        env[("@", "st", "evbuffer_ptr.pos")] = p
                        env[("@", "st", "evbuffer_ptr.internal_")] = PPtr(("sub", "st", "evbuffer_ptr.internal_"))
                        env[("@", ("sub", "st", "evbuffer_ptr.internal_"), "evbuffer_ptr::internal_.chain")] = PPtr("c%d" % ci)
                        env[("@", ("sub", "st", "evbuffer_ptr.internal_"), "evbuffer_ptr::internal_.pos_in_chain")] = j
                    hook = HB.make_hook(P, extra=extra)
                    outs = [o for o in run_all(f, (f.entry, 0), env, lambda el: False, P, hook, max_steps=6000) if not (o.kind == "exit" and o.why == "noreturn")]
                    want = ref_eol(content, p or 0, sname)
                    for o in outs:
                        if o.kind != "ret":
                            why = "%s %s %s" % (o.kind, o.why, o.env.get("#err", ""))
                            if "holds no data" in why:
                                got = ("over-read", why)
                            else:
                                r.brk("evbuffer_search_eol(%r in %d chains, start %s, %s): %s" % (content, len(parts), p, sname, why))
                                return r
                        else:
                            got = (o.env.get(kpos), o.env.get("#eol"))
                            if o.env.get("#viol"):
                                got = ("over-read", o.env.get("#viol")[0])
                        r.inst((content, tuple(len(x) for x in parts), p, sname), {"content": content.decode("latin-1"), "chains": [len(x) for x in parts], "start": p, "style": sname, "result": list(got) if isinstance(got[0], int) else [str(x) for x in got]},
                               nontrivial=want[0] >= 0)
                        if got != want and nb < 6:
                            nb += 1
                            r.bad("K6:evbuffer_search_eol:%s" % sname, "%s:%d" % (f.file, f.line), f.name,
                                  "content %r laid out in chains of %s bytes, search from %s with style %s: returns (position, length) = %s, the byte-string model gives %s" % (
                                      content, [len(x) for x in parts], "the beginning" if p is None else "position %d" % p, sname, got, want))
    return r
