"""Program model over lvx facts: functions, CFG utilities, expression helpers, call graph."""
import collections
from .facts import AnalysisBroken

# ---------------------------------------------------------------- expressions

def is_e(e, k):
    return isinstance(e, list) and e and e[0] == k


def walk(e):
    """All sub-expressions (pre-order), including e itself."""
    if not isinstance(e, list) or not e:
        return
    if isinstance(e[0], str):
        yield e
        k = e[0]
        if k in ("int", "str", "var", "fn", "null", "other", "sizeof", "float", "vaarg"):
            return
        if k == "call":
            for s in walk(e[1]):
                yield s
            for a in e[2]:
                for s in walk(a):
                    yield s
            return
        if k == "sinit":
            for fn_, v in e[2]:
                for s in walk(v):
                    yield s
            return
        if k == "ainit":
            for v in e[1]:
                for s in walk(v):
                    yield s
            return
        for c in e[1:]:
            if isinstance(c, list):
                for s in walk(c):
                    yield s
    else:
        for c in e:
            for s in walk(c):
                yield s


def strip(e):
    """Remove casts."""
    while is_e(e, "cast") or is_e(e, "stmtexpr"):
        e = e[2] if e[0] == "cast" else e[1]
    return e


def eq(a, b):
    """Structural equality ignoring int spellings and casts."""
    a, b = strip(a), strip(b)
    if not isinstance(a, list) or not isinstance(b, list):
        return a == b
    if not a or not b:
        return a == b
    if a[0] != b[0]:
        return False
    if a[0] == "int":
        return a[1] == b[1]
    if a[0] == "fld":
        return a[2] == b[2] and eq(a[1], b[1])
    if len(a) != len(b):
        return False
    return all(eq(x, y) if isinstance(x, list) else x == y for x, y in zip(a[1:], b[1:]))


def key(e):
    """Hashable canonical form (ints by value, casts stripped)."""
    e = strip(e)
    if not isinstance(e, list):
        return e
    if not e:
        return ()
    if e[0] == "int":
        return ("int", e[1])
    if e[0] == "fld":
        return ("fld", key(e[1]), e[2])
    return tuple(key(x) if isinstance(x, list) else x for x in e)


def show(e):
    """C-like rendering for reports."""
    if not isinstance(e, list) or not e:
        return str(e)
    k = e[0]
    if k == "int":
        sp = e[2] if len(e) > 2 else ""
        if sp and len(sp) < 40 and not sp.startswith("<") and "(" not in sp:
            return sp
        return str(e[1])
    if k == "str":
        return '"%s"' % e[1][:40].replace("\n", "\\n").replace("\r", "\\r")
    if k == "var" or k == "fn":
        return e[1]
    if k == "fld":
        return "%s%s%s" % (show(e[1]), e[3] if len(e) > 3 else "->", e[2].split(".")[-1])
    if k == "idx":
        return "%s[%s]" % (show(e[1]), show(e[2]))
    if k == "deref":
        return "*" + show(e[1])
    if k == "addr":
        return "&" + show(e[1])
    if k == "un":
        return "%s%s" % (e[1], show(e[2]))
    if k == "incdec":
        return (e[1] + show(e[3])) if e[2] == "pre" else (show(e[3]) + e[1])
    if k == "bin":
        return "(%s %s %s)" % (show(e[2]), e[1], show(e[3]))
    if k == "asg":
        return "%s %s %s" % (show(e[2]), e[1], show(e[3]))
    if k == "cond":
        return "(%s ? %s : %s)" % (show(e[1]), show(e[2]), show(e[3]))
    if k == "cast":
        return "(%s)%s" % (e[1], show(e[2]))
    if k == "call":
        c = e[1]
        if c[0] == "fn":
            cn = c[1]
        elif c[0] == "slot":
            cn = "%s->%s" % (show(c[2]), c[1].split(".")[-1])
        else:
            cn = "(*%s)" % show(c[1])
        return "%s(%s)" % (cn, ", ".join(show(a) for a in e[2]))
    if k == "ret":
        return "return %s" % show(e[1])
    if k == "decl":
        return "%s %s = %s" % (e[2], e[1], show(e[3]))
    if k == "null":
        return ""
    if k == "sizeof":
        return e[1]
    if k == "stmtexpr":
        return "({%s})" % show(e[1])
    return "<%s>" % k


def root_var(e):
    """Root variable of an access path (through fld/idx/deref/addr/cast), or None."""
    e = strip(e)
    while isinstance(e, list) and e:
        if e[0] == "var":
            return e
        if e[0] in ("fld", "idx", "deref", "addr"):
            e = strip(e[1])
            continue
        if e[0] == "bin" and e[1] in ("+", "-"):
            e = strip(e[2])
            continue
        if e[0] == "incdec":
            e = strip(e[3])
            continue
        return None
    return None


def fields_of(e):
    """Field names on an access path, outermost last."""
    out = []
    e = strip(e)
    while isinstance(e, list) and e:
        if e[0] == "fld":
            out.append(e[2])
            e = strip(e[1])
        elif e[0] in ("idx", "deref", "addr"):
            e = strip(e[1])
        else:
            break
    return list(reversed(out))


def callee_name(call):
    c = call[1]
    if c[0] == "fn":
        return c[1]
    return None


def callee_slot(call):
    c = call[1]
    if c[0] == "slot":
        return c[1]
    return None


def negate_truth(cond, truth):
    """Normalise (cond, truth): strip leading '!' and '!= 0' / '== 0'."""
    cond = strip(cond)
    while True:
        if is_e(cond, "un") and cond[1] == "!":
            cond, truth = strip(cond[2]), not truth
            continue
        if is_e(cond, "bin") and cond[1] in ("!=", "==") and (is_e(strip(cond[3]), "int") and strip(cond[3])[1] == 0):
            if cond[1] == "==":
                truth = not truth
            cond = strip(cond[2])
            continue
        if is_e(cond, "bin") and cond[1] in ("!=", "==") and (is_e(strip(cond[2]), "int") and strip(cond[2])[1] == 0):
            if cond[1] == "==":
                truth = not truth
            cond = strip(cond[3])
            continue
        break
    return cond, truth


# ---------------------------------------------------------------- CFG model

class Elem(object):
    __slots__ = ("fn", "bid", "idx", "e", "loc", "mac", "mtext", "n")

    def __init__(self, fn, bid, idx, d):
        self.fn = fn
        self.bid = bid
        self.idx = idx
        self.e = d["e"]
        self.loc = d.get("loc", [0, 0])
        self.mac = d.get("mac", [])
        self.mtext = d.get("mtext", "")
        self.n = d.get("n", -1)

    @property
    def line(self):
        return self.loc[0]

    @property
    def kind(self):
        return self.e[0]

    def where(self):
        return "%s:%d" % (self.fn.file, self.loc[0])

    def pos(self):
        return (self.bid, self.idx)

    def __repr__(self):
        return "<%s %s>" % (self.where(), show(self.e)[:80])


class Block(object):
    __slots__ = ("id", "elems", "succ", "preds", "term", "label", "noreturn")


class Fn(object):
    def __init__(self, d, unit):
        self.d = d
        self.unit = unit
        self.name = d["name"]
        self.file = d["file"]
        self.line = d["line"]
        self.endline = d.get("endline", d["line"])
        self.static = d["static"]
        self.params = d["params"]
        self.ret = d.get("ret", "")
        self.decl_in = d.get("decl_in", [])
        self.public = any(x.startswith("include/event2/") or x == "include/event.h" or x.startswith("include/ev") for x in self.decl_in)
        self.entry = d.get("entry")
        self.exit = d.get("exit")
        self.blocks = {}
        self.locals = {n: t for n, t, _ in d.get("locals", [])}
        for bd in d.get("blocks", []):
            b = Block()
            b.id = bd["id"]
            b.elems = [Elem(self, b.id, i, ed) for i, ed in enumerate(bd["elems"])]
            b.succ = [(s, l) for s, l in bd["succ"] if s is not None]
            b.preds = []
            b.term = bd.get("term")
            b.label = bd.get("label")
            b.noreturn = bd.get("noreturn", False)
            self.blocks[b.id] = b
        for b in self.blocks.values():
            for s, l in b.succ:
                self.blocks[s].preds.append((b.id, l))
        self._dom = None
        self._pdom = None
        self._rpo = None

    def __repr__(self):
        return "<Fn %s %s:%d>" % (self.name, self.file, self.line)

    def var_type(self, name):
        for n, t in self.params:
            if n == name:
                return t
        return self.locals.get(name)

    # ---- iteration
    def elems(self):
        for b in self.blocks.values():
            for el in b.elems:
                yield el

    def calls(self, name=None, slot=None):
        for el in self.elems():
            if el.e[0] == "call":
                if name is not None and callee_name(el.e) != name:
                    continue
                if slot is not None and callee_slot(el.e) != slot:
                    continue
                yield el

    def stores(self):
        """(elem, lhs, op, rhs) for assignments, inc/dec and initialised declarations."""
        for el in self.elems():
            e = el.e
            if e[0] == "asg":
                yield el, e[2], e[1], e[3]
            elif e[0] == "incdec":
                yield el, e[3], e[1], ["int", 1, "1"]
            elif e[0] == "decl":
                yield el, ["var", e[1], "local"], "=", e[3]

    def returns(self):
        for el in self.elems():
            if el.e[0] == "ret":
                yield el

    # ---- orders
    def rpo(self):
        if self._rpo is None:
            seen, order = set(), []
            stack = [(self.entry, iter([s for s, _ in self.blocks[self.entry].succ]))]
            seen.add(self.entry)
            while stack:
                b, it = stack[-1]
                adv = False
                for s in it:
                    if s not in seen:
                        seen.add(s)
                        stack.append((s, iter([x for x, _ in self.blocks[s].succ])))
                        adv = True
                        break
                if not adv:
                    order.append(b)
                    stack.pop()
            self._rpo = list(reversed(order))
        return self._rpo

    def _idom(self, entry, succ_of, pred_of):
        # Cooper-Harvey-Kennedy
        order, seen = [], set([entry])
        stack = [(entry, iter(succ_of(entry)))]
        while stack:
            b, it = stack[-1]
            adv = False
            for s in it:
                if s not in seen:
                    seen.add(s)
                    stack.append((s, iter(succ_of(s))))
                    adv = True
                    break
            if not adv:
                order.append(b)
                stack.pop()
        rpo = list(reversed(order))
        num = {b: i for i, b in enumerate(rpo)}
        idom = {entry: entry}
        changed = True
        while changed:
            changed = False
            for b in rpo[1:]:
                new = None
                for p in pred_of(b):
                    if p in idom:
                        if new is None:
                            new = p
                        else:
                            a, c = p, new
                            while a != c:
                                while num[a] > num[c]:
                                    a = idom[a]
                                while num[c] > num[a]:
                                    c = idom[c]
                            new = a
                if new is not None and idom.get(b) != new:
                    idom[b] = new
                    changed = True
        return idom

    def dom(self):
        if self._dom is None:
            self._dom = self._idom(self.entry, lambda b: [s for s, _ in self.blocks[b].succ],
                                   lambda b: [p for p, _ in self.blocks[b].preds])
        return self._dom

    def pdom(self):
        if self._pdom is None:
            # a noreturn block (failed assertion, abort) never reaches the exit: its CFG edge to the exit block is not a path
            self._pdom = self._idom(self.exit, lambda b: [p for p, _ in self.blocks[b].preds if not self.blocks[p].noreturn],
                                    lambda b: [] if self.blocks[b].noreturn else [s for s, _ in self.blocks[b].succ])
        return self._pdom

    def dominates(self, a, b):
        """block a dominates block b (reflexive). Unreachable b -> True."""
        d = self.dom()
        if b not in d:
            return True
        while True:
            if a == b:
                return True
            if b == self.entry:
                return False
            b = d[b]

    def postdominates(self, a, b):
        d = self.pdom()
        if b not in d:
            return True  # b cannot reach exit (noreturn/abort path)
        while True:
            if a == b:
                return True
            if b == self.exit:
                return False
            b = d[b]

    def pos_dominates(self, p, q):
        """program point p=(bid,idx) dominates q."""
        if p[0] == q[0]:
            return p[1] <= q[1]
        return self.dominates(p[0], q[0])

    def pos_postdominates(self, p, q):
        if p[0] == q[0]:
            return p[1] >= q[1]
        return self.postdominates(p[0], q[0])

    # ---- reachability
    def reach_blocks(self, start, avoid_blocks=(), avoid_edges=()):
        """Blocks reachable from block `start` (inclusive) without entering avoid_blocks / using avoid_edges."""
        seen = set()
        if start in avoid_blocks:
            return seen
        seen.add(start)
        st = [start]
        while st:
            b = st.pop()
            for s, _ in self.blocks[b].succ:
                if s in seen or s in avoid_blocks or (b, s) in avoid_edges:
                    continue
                seen.add(s)
                st.append(s)
        return seen

    def can_reach_from(self, target):
        """Blocks from which `target` is reachable (inclusive)."""
        seen = set([target])
        st = [target]
        while st:
            b = st.pop()
            for p, _ in self.blocks[b].preds:
                if p not in seen:
                    seen.add(p)
                    st.append(p)
        return seen

    def reachable_from_entry(self):
        return self.reach_blocks(self.entry)

    def path_avoiding(self, src, dst_pred, avoid_pred, include_src_rest=True):
        """Is there a path from just after element position src=(bid,idx) (idx may be -1 for block start)
        to an element satisfying dst_pred, never executing an element satisfying avoid_pred?
        Returns the witness element or None.  Element-granular."""
        bid, idx = src
        seen = set()
        work = [(bid, idx + 1)]
        while work:
            b, i = work.pop()
            blk = self.blocks[b]
            blocked = False
            for el in blk.elems[i:]:
                if avoid_pred(el):
                    blocked = True
                    break
                if dst_pred(el):
                    return el
            if blocked:
                continue
            for s, _ in blk.succ:
                if s not in seen:
                    seen.add(s)
                    work.append((s, 0))
        return None

    def exit_reachable_avoiding(self, src, avoid_pred, exit_pred=None, origin=None, skip_edge=None):
        """Is there a path from just after src to function exit (a return elem satisfying exit_pred, or the
        exit block) that avoids every element satisfying avoid_pred? Returns witness (ret elem or True) or None."""
        bid, idx = src
        seen = set()
        work = [(bid, idx + 1)]
        while work:
            b, i = work.pop()
            blk = self.blocks[b]
            blocked = False
            for el in blk.elems[i:]:
                if avoid_pred(el):
                    blocked = True
                    break
                if el.e[0] == "ret" and (exit_pred is None or exit_pred(el)):
                    return el
                if el.e[0] == "ret":
                    blocked = True
                    break
            if blocked:
                continue
            if b == self.exit:
                continue
            if blk.noreturn:
                continue
            for s, _ in blk.succ:
                if skip_edge is not None and skip_edge(blk, s, _):
                    continue
                if s == self.exit:
                    # falling off the end of a void function (every element of this block was passed without being blocked or returning)
                    if exit_pred is None:
                        return True
                if origin is not None and self.contra(origin, s):
                    continue
                if s not in seen:
                    seen.add(s)
                    work.append((s, 0))
        return None

    # ---- guards
    def branch_blocks(self):
        for b in self.blocks.values():
            if b.term and "cond" in b.term and len(b.succ) >= 1:
                yield b

    def guards_at(self, bid):
        """[(cond, truth, branch_block)] such that every path entry->bid takes that edge of the branch.
        A branch with one pruned edge is ignored (constant)."""
        out = []
        reach0 = self.reach_blocks(self.entry)
        if bid not in reach0:
            return out
        for b in self.branch_blocks():
            if b.term["k"] == "switch":
                continue
            if len(b.succ) != 2:
                continue
            if not self.dominates(b.id, bid):
                continue
            (t, tl), (f, fl) = b.succ
            if tl != "T":
                (t, tl), (f, fl) = (f, fl), (t, tl)
            if t == f:
                continue
            r_without_t = self.reach_blocks(self.entry, avoid_edges=((b.id, t),))
            r_without_f = self.reach_blocks(self.entry, avoid_edges=((b.id, f),))
            if bid not in r_without_t and bid in r_without_f:
                out.append((b.term["cond"], True, b))
            elif bid not in r_without_f and bid in r_without_t:
                out.append((b.term["cond"], False, b))
        return out

    def contra(self, a_bid, b_bid):
        k = (a_bid, b_bid)
        c = self.__dict__.setdefault("_contra", {})
        if k not in c:
            c[k] = a_bid != b_bid and self.contradictory(a_bid, b_bid)
        return c[k]

    def contradictory(self, a_bid, b_bid):
        """True when every path block a -> block b is infeasible because a guard that dominates a and a guard that
        dominates b test the same condition with opposite outcomes, and no operand of that condition is stored on
        the way (operands must be plain variables)."""
        ga = [(negate_truth(c, t)) for c, t, _ in self.guards_at(a_bid)]
        gb = [(negate_truth(c, t)) for c, t, blk in self.guards_at(b_bid)]
        if not ga or not gb:
            return False
        mid = self.between_blocks(a_bid, b_bid) - {b_bid}
        for ca, ta in ga:
            for cb, tb in gb:
                if ta == tb or not eq(ca, cb):
                    continue
                vs = set()
                ok = True
                for s in walk(ca):
                    if s[0] in ("call", "asg", "incdec", "fld", "deref", "idx"):
                        ok = False
                        break
                    if s[0] == "var":
                        if s[2] not in ("local", "param"):
                            ok = False
                            break
                        vs.add(s[1])
                if not ok or not vs:
                    continue
                stored = False
                for m in mid:
                    for el in self.blocks[m].elems:
                        e = el.e
                        l = None
                        if e[0] == "asg":
                            l = strip(e[2])
                        elif e[0] == "incdec":
                            l = strip(e[3])
                        elif e[0] == "decl":
                            l = ["var", e[1], "local"]
                        if l is not None and is_e(l, "var") and l[1] in vs:
                            # a store in a's own block before the guard's scope does not matter; be conservative: only
                            # stores in blocks strictly between count, plus a's block itself
                            stored = True
                        for q in walk(e):
                            if is_e(q, "addr") and is_e(strip(q[1]), "var") and strip(q[1])[1] in vs:
                                stored = True
                if not stored:
                    return True
        return False

    def loops_of(self, bid):
        """headers of the natural loops that contain block bid"""
        if "_loops" not in self.__dict__:
            self._loops = {}
            for b in self.blocks.values():
                if any(self.dominates(b.id, p) for p, _ in b.preds):
                    self._loops[b.id] = self.natural_loop(b.id)
        return frozenset(h for h, body in self._loops.items() if bid in body)

    def tied(self, a, b):
        """elements a and b execute together: same loop nest, and one dominates while the other post-dominates it"""
        if self.loops_of(a.bid) != self.loops_of(b.bid):
            return False
        if a.bid == b.bid:
            return True
        return (self.dominates(a.bid, b.bid) and self.postdominates(b.bid, a.bid)) or \
               (self.dominates(b.bid, a.bid) and self.postdominates(a.bid, b.bid))

    def natural_loop(self, hdr):
        """blocks of the natural loop(s) with header block `hdr` (back edges t->hdr with hdr dominating t)."""
        body = set([hdr])
        st = [p for p, _ in self.blocks[hdr].preds if self.dominates(hdr, p)]
        while st:
            b = st.pop()
            if b in body:
                continue
            body.add(b)
            for p, _ in self.blocks[b].preds:
                if p not in body:
                    st.append(p)
        return body

    def var_stores(self, name):
        return [(el, rhs) for el, lhs, op, rhs in self.stores() if is_e(strip(lhs), "var") and strip(lhs)[1] == name]

    def reaching_defs(self, name, el):
        """definitions of variable `name` that reach element el (no other definition of it on the way)."""
        defs = self.var_stores(name)
        dset = set(id(d) for d, _ in defs)
        out = []
        for d, rhs in defs:
            if d is el:
                continue
            w = self.path_avoiding(d.pos(), lambda x: x is el, lambda x: id(x) in dset and x is not d and x is not el)
            if w is not None:
                out.append((d, rhs))
        return out

    def depends_on(self, expr, names, el=None, depth=0):
        """does expr (evaluated at el) data-depend on one of the variables `names`, through local copies?"""
        for s in walk(expr):
            if is_e(s, "var"):
                if s[1] in names:
                    return True
                if s[2] == "local" and depth < 4:
                    defs = self.reaching_defs(s[1], el) if el is not None else self.var_stores(s[1])
                    for d, rhs in defs:
                        if self.depends_on(rhs, names, d, depth + 1):
                            return True
        return False

    def segment_blocks(self, a, b):
        """blocks on paths a -> b that do not pass through a again (a excluded, b included)."""
        fwd = set()
        st = [s for s, _ in self.blocks[a].succ if s != a]
        while st:
            x = st.pop()
            if x in fwd or x == a:
                continue
            fwd.add(x)
            if x == b:
                continue
            for s, _ in self.blocks[x].succ:
                if s not in fwd and s != a:
                    st.append(s)
        bwd = set()
        st = [b]
        while st:
            x = st.pop()
            if x in bwd or x == a:
                continue
            bwd.add(x)
            for p, _ in self.blocks[x].preds:
                if p not in bwd and p != a:
                    st.append(p)
        return fwd & bwd

    def between_blocks(self, a_succ, bid):
        """Blocks on some path from block a_succ to block bid (inclusive)."""
        fwd = self.reach_blocks(a_succ)
        bwd = self.can_reach_from(bid)
        return fwd & bwd


_INL_BASE = [None]


def _inl_baseline():
    if _INL_BASE[0] is None:
        try:
            from . import inline as _inl
            _INL_BASE[0] = set(__import__('json').load(open(_inl.BASELINE)))
        except Exception:
            _INL_BASE[0] = set()
    return _INL_BASE[0]


class Program(object):
    def __init__(self, facts, config="build"):
        self.config = config
        self.units = facts
        self.fns = {}        # name -> Fn (first definition wins; header inlines dedup'd)
        self.all_fns = []    # distinct definitions
        self.dups = collections.defaultdict(list)
        self.records = {}
        self.enums = {}
        self.globals = {}    # name -> [global dicts]
        self.fnrefs = []
        seen = set()
        # private helpers that the reference tree does not have are spliced back into their only caller (engine/inline.py); nothing happens on the reference tree
        self.inlined = []
        base = _inl_baseline()
        if base and any(fd["name"] not in base for f in facts.values() for fd in f["functions"]):
            import copy as _copy
            from . import inline as _inl
            facts = dict((u, _copy.deepcopy(f)) for u, f in facts.items())
            self.inlined = _inl.normalise(facts)
            self.units = facts
        for u, f in facts.items():
            for r in f["records"]:
                self.records.setdefault(r["name"], r)
            for e in f["enums"]:
                self.enums.setdefault(e["name"], e)
            gseen = set()
            for g in f["globals"]:
                k = (g["name"], g["file"], g["line"])
                if k in seen:
                    continue
                seen.add(k)
                g["unit"] = u
                self.globals.setdefault(g["name"], []).append(g)
            for r in f["fnrefs"]:
                k = ("ref", r["fn"], r["file"], r["line"], r.get("in"))
                if k in seen:
                    continue
                seen.add(k)
                r["unit"] = u
                self.fnrefs.append(r)
            for fd in f["functions"]:
                k = ("fn", fd["name"], fd["file"], fd["line"])
                if k in seen:
                    continue
                seen.add(k)
                if "blocks" not in fd:
                    raise AnalysisBroken("no CFG for %s" % fd["name"])
                fn = Fn(fd, u)
                self.all_fns.append(fn)
                if fn.name in self.fns:
                    self.dups[fn.name].append(fn)
                else:
                    self.fns[fn.name] = fn
        self._slots = None
        self._callers = None

    def fn(self, name):
        f = self.fns.get(name)
        if f is None:
            raise AnalysisBroken("anchor function %s not found" % name)
        return f

    def has(self, name):
        return name in self.fns

    def fns_in(self, *files):
        return [f for f in self.all_fns if f.file in files]

    def enum_val(self, name):
        for e in self.enums.values():
            for n, v in e["items"]:
                if n == name:
                    return v
        raise AnalysisBroken("enumerator %s not found" % name)

    def global_(self, name):
        g = self.globals.get(name)
        if not g:
            raise AnalysisBroken("global %s not found" % name)
        return g[0]

    # ---- function-pointer slots
    def slots(self):
        """slot 'Rec.field' -> set of function names stored there (initialisers + field stores)."""
        if self._slots is None:
            s = collections.defaultdict(set)
            for gl in self.globals.values():
                for g in gl:
                    if "init" in g:
                        for sub in walk(g["init"]):
                            if is_e(sub, "sinit"):
                                for fname, v in sub[2]:
                                    v = strip(v)
                                    if is_e(v, "addr"):
                                        v = strip(v[1])
                                    if is_e(v, "fn"):
                                        s[fname].add(v[1])
            for fn in self.all_fns:
                for el, lhs, op, rhs in fn.stores():
                    lhs = strip(lhs)
                    if is_e(lhs, "fld"):
                        r = strip(rhs)
                        if is_e(r, "addr"):
                            r = strip(r[1])
                        if is_e(r, "fn"):
                            s[lhs[2]].add(r[1])
                # compound literal / local struct initialisers
                for el in fn.elems():
                    for sub in walk(el.e):
                        if is_e(sub, "sinit"):
                            for fname, v in sub[2]:
                                v = strip(v)
                                if is_e(v, "fn"):
                                    s[fname].add(v[1])
            self._slots = s
        return self._slots

    def callers(self):
        """callee name -> [(Fn, Elem)] over direct calls."""
        if self._callers is None:
            c = collections.defaultdict(list)
            for fn in self.all_fns:
                for el in fn.calls():
                    n = callee_name(el.e)
                    if n:
                        c[n].append((fn, el))
            self._callers = c
        return self._callers

    def registered(self, registrar, index):
        """Function names passed as argument `index` of calls to `registrar`."""
        out = set()
        for r in self.fnrefs:
            c = r["ctx"]
            if c.get("k") == "arg" and c.get("index") == index and c["callee"][0] == "fn" and c["callee"][1] == registrar:
                out.add(r["fn"])
        return out

    def stats(self):
        nb = sum(len(f.blocks) for f in self.all_fns)
        ne = sum(sum(len(b.elems) for b in f.blocks.values()) for f in self.all_fns)
        return {"units": len(self.units), "functions": len(self.all_fns), "cfg_blocks": nb, "elements": ne}


# ---------------------------------------------------------------- pure expression evaluation (K6)

HEAP_BASE = 100000
FREED = "<freed>"


class PPtr(object):
    """Pointer to an abstract heap object; its fields live in the evaluation environment under ("@", id, "record.field")."""
    __slots__ = ("id",)

    def __init__(self, id_):
        self.id = id_

    def __eq__(self, o):
        if isinstance(o, PPtr):
            return self.id == o.id
        if isinstance(o, int):
            return False if o == 0 else NotImplemented
        return False

    def __ne__(self, o):
        r = self.__eq__(o)
        return r if r is NotImplemented else not r

    def __hash__(self):
        return hash(("PPtr", self.id))

    def __add__(self, n):
        # (struct T *)p + 1: the memory directly behind an allocated object (EVBUFFER_CHAIN_EXTRA): objects allocated during evaluation have ids ("n", k)
        # and own the address range starting at HEAP_BASE * (20 + k)
        if isinstance(n, int) and n >= 1 and isinstance(self.id, tuple) and self.id[0] == "n":
            # +1 on the typed pointer, or +sizeof(header) on a byte pointer: both designate the first byte behind the header
            return HEAP_BASE * (20 + self.id[1])
        raise EvalError("pointer arithmetic on abstract object %r" % (self.id,))
    __radd__ = __add__

    def __sub__(self, o):
        raise EvalError("pointer arithmetic on abstract object %r" % (self.id,))

    def __bool__(self):
        return True

    def __repr__(self):
        return "&%s" % (self.id,)


class PRef(object):
    """Pointer to one field of an abstract heap object (e.g. &chain->next), or to a variable of the evaluated function (obj None)."""
    __slots__ = ("obj", "field")

    def __init__(self, obj, field):
        self.obj = obj
        self.field = field

    def cell(self):
        return ("@", self.obj, self.field) if self.obj is not None else self.field

    def __eq__(self, o):
        return isinstance(o, PRef) and self.obj == o.obj and self.field == o.field

    def __ne__(self, o):
        return not self.__eq__(o)

    def __hash__(self):
        return hash(("PRef", self.obj, self.field))

    def __bool__(self):
        return True

    def __repr__(self):
        return "&%s.%s" % (self.obj, self.field)


def heap_cell(e, env, P):
    """environment key of the lvalue e when it designates a field of an abstract heap object or the target of a PRef; else None"""
    e = strip(e)
    if is_e(e, "fld"):
        try:
            b = evalx(e[1], env, P)
        except EvalError:
            return None
        if isinstance(b, PPtr):
            return ("@", b.id, e[2])
        return None
    if is_e(e, "deref"):
        try:
            b = evalx(e[1], env, P)
        except EvalError:
            return None
        if isinstance(b, PRef):
            return b.cell()
        if isinstance(b, int) and not isinstance(b, bool) and env.get("#bytemem") and b >= HEAP_BASE:
            return ("m", b)
        return None
    if is_e(e, "idx"):
        try:
            b = evalx(e[1], env, P)
        except EvalError:
            return None
        if isinstance(b, PRef) and b.obj is None and isinstance(b.field, str) and b.field.startswith("#arr"):
            # an array of the caller handed down as a pointer parameter ("call" mechanism of the evaluator)
            try:
                i = evalx(e[2], env, P)
            except EvalError:
                return None
            return (b.field, i) if isinstance(i, int) else None
        if env.get("#bytemem") and isinstance(b, int) and not isinstance(b, bool) and b >= HEAP_BASE:
            try:
                i = evalx(e[2], env, P)
            except EvalError:
                return None
            if isinstance(i, int):
                return ("m", b + i)
    return None


class PCtypeTab(object):
    """glibc's character-class table (*__ctype_b_loc()): index -128..255 -> class bits of the "C" locale"""
    def at(self, i=0):
        if not (-128 <= i <= 255):
            raise EvalError("ctype table read out of bounds (index %d)" % i)
        c = i & 0xff
        if i < 0 or c > 127:
            return 0
        v = 0
        if 65 <= c <= 90: v |= 256
        if 97 <= c <= 122: v |= 512
        if v: v |= 1024
        if 48 <= c <= 57: v |= 2048
        if 48 <= c <= 57 or 65 <= c <= 70 or 97 <= c <= 102: v |= 4096
        if c in (32, 9, 10, 11, 12, 13): v |= 8192
        if 32 <= c <= 126: v |= 16384
        if 33 <= c <= 126: v |= 32768
        if c in (32, 9): v |= 1
        if c < 32 or c == 127: v |= 2
        if 33 <= c <= 126 and not (v & (1024 | 2048)): v |= 4
        if v & (1024 | 2048): v |= 8
        return v


def _cdiv(a, b):
    """C integer division (truncation toward zero), exact for arbitrarily large operands"""
    if isinstance(a, float) or isinstance(b, float):
        return a / b
    q = abs(a) // abs(b)
    return q if (a < 0) == (b < 0) else -q


class PStr(object):
    """A pointer into a NUL-terminated constant byte string (abstract value of `const char *` in evaluated regions)."""
    __slots__ = ("data", "off")

    def __init__(self, data, off=0):
        if isinstance(data, str):
            data = data.encode("latin-1")
        self.data = data if data.endswith(b"\0") else data + b"\0"
        self.off = off

    def at(self, i=0):
        j = self.off + i
        if not (0 <= j < len(self.data)):
            raise EvalError("string read out of bounds (offset %d of %d)" % (j, len(self.data)))
        return self.data[j]

    def text(self):
        return self.data[self.off:].split(b"\0")[0]

    def __add__(self, n):
        if isinstance(n, int):
            return PStr(self.data, self.off + n)
        return NotImplemented
    __radd__ = __add__

    def __sub__(self, o):
        if isinstance(o, PStr):
            return self.off - o.off
        if isinstance(o, int):
            return PStr(self.data, self.off - o)
        return NotImplemented

    def __eq__(self, o):
        if isinstance(o, PStr):
            return self.data is o.data and self.off == o.off or (self.data == o.data and self.off == o.off)
        return False

    def __ne__(self, o):
        return not self.__eq__(o)

    def __lt__(self, o):
        return isinstance(o, PStr) and self.off < o.off

    def __le__(self, o):
        return isinstance(o, PStr) and self.off <= o.off

    def __gt__(self, o):
        return isinstance(o, PStr) and self.off > o.off

    def __ge__(self, o):
        return isinstance(o, PStr) and self.off >= o.off

    def __hash__(self):
        return hash((self.data, self.off))

    def __bool__(self):
        return True

    def __repr__(self):
        return "PStr(%r+%d)" % (self.data[:24], self.off)


class EvalError(Exception):
    pass


_UNSIGNED = {"ev_uint8_t": 8, "uint8_t": 8, "unsigned char": 8, "u_char": 8, "ev_uint16_t": 16, "uint16_t": 16, "unsigned short": 16,
             "ev_uint32_t": 32, "uint32_t": 32, "unsigned int": 32, "unsigned": 32, "ev_uint64_t": 64, "uint64_t": 64,
             "size_t": 64, "unsigned long": 64}
_SIGNED = {"char": 8, "signed char": 8, "ev_int8_t": 8, "short": 16, "ev_int16_t": 16, "int": 32, "ev_int32_t": 32,
           "ev_int64_t": 64, "long": 64, "ev_ssize_t": 64, "ssize_t": 64}


def cast_int(ty, v):
    if isinstance(v, float):
        t_ = ty.replace("const ", "").strip()
        if t_ in _UNSIGNED or t_ in _SIGNED:
            v = int(v)          # C conversion of a floating value to an integer type truncates toward zero
        else:
            return v
    if not isinstance(v, int):
        return v
    ty = ty.replace("const ", "").strip()
    if ty in _UNSIGNED:
        return v & ((1 << _UNSIGNED[ty]) - 1)
    if ty in _SIGNED:
        b = _SIGNED[ty]
        v &= (1 << b) - 1
        return v - (1 << b) if v >> (b - 1) else v
    return v


def table_values(g):
    """Integer values of a file-scope constant array initialiser (padded with the filler/zero)."""
    init = g.get("init")
    if not init or init[0] not in ("ainit", "str"):
        raise AnalysisBroken("global %s has no array initialiser" % g["name"])
    if init[0] == "str":
        return [ord(c) for c in init[1]] + [0]
    vals = []
    for x in init[1]:
        x = strip(x)
        if x[0] != "int":
            raise AnalysisBroken("global %s: non-constant element" % g["name"])
        vals.append(x[1])
    return vals


def evalx(e, env, P=None):
    """Evaluate a pure integer expression tree. Leaves are looked up in env by key(); constant global
    arrays are read through P. Explicit casts to fixed-width integer types truncate/sign-wrap; otherwise
    Python integers (unbounded) — callers mask where C width matters."""
    if is_e(e, "cast"):
        v = evalx(e[2], env, P)
        return cast_int(e[1], v)
    if is_e(e, "stmtexpr"):
        return evalx(e[1], env, P)
    k = key(e)
    if k in env and env[k] is not None:
        return env[k]
    t = e[0]
    if t == "int":
        return e[1]
    if t == "str":
        return PStr(e[1])
    if t == "var" and e[1] in env:
        if env[e[1]] is None:
            raise EvalError("variable %s has no known value" % e[1])
        return env[e[1]]
    if t == "fld" or t == "deref" or (t == "idx" and (env.get("#bytemem") or env.get("#arrays"))):
        hc = heap_cell(e, env, P)
        if hc is not None:
            if hc not in env:
                if isinstance(hc, tuple) and isinstance(hc[0], str) and hc[0].startswith("#arr"):
                    raise EvalError("read of array element %s[%s] that was never written" % hc)
                if isinstance(hc, tuple) and hc[0] == "m":
                    raise EvalError("read of memory byte %d that holds no data (outside every buffer's data, or never written)" % hc[1])
                if isinstance(hc, tuple) and len(hc) == 3 and env.get(("@", hc[1], "#zero")):
                    return 0        # object declared zero-initialised by the rule that built the heap image
                raise EvalError("uninitialised heap cell %s" % (hc,))
            if env[hc] is FREED or env[hc] == FREED:
                raise EvalError("use after free: %s" % (hc,))
            return env[hc]
    if t == "addr":
        x = strip(e[1])
        if is_e(x, "fld"):
            try:
                b = evalx(x[1], env, P)
            except EvalError:
                b = None
            if isinstance(b, PPtr):
                return PRef(b.id, x[2])
        if is_e(x, "deref"):
            return evalx(x[1], env, P)
    if t in ("deref", "idx"):
        try:
            b = evalx(e[1], env, P)
        except EvalError:
            b = None       # not an abstract string (e.g. a constant global table: handled below)
        if isinstance(b, (PStr, PCtypeTab)):
            i = evalx(e[2], env, P) if t == "idx" else 0
            return b.at(i)
        if b == "ctype_loc" and t == "deref":
            return PCtypeTab()
    if t == "bin":
        op = e[1]
        if op == "&&":
            return 1 if (evalx(e[2], env, P) and evalx(e[3], env, P)) else 0
        if op == "||":
            return 1 if (evalx(e[2], env, P) or evalx(e[3], env, P)) else 0
        a, b = evalx(e[2], env, P), evalx(e[3], env, P)
        if op == "&": return a & b
        if op == "|": return a | b
        if op == "^": return a ^ b
        if op == "<<": return a << b
        if op == ">>": return a >> b
        if op == "+": return a + b
        if op == "-": return a - b
        if op == "*": return a * b
        if op == "/":
            if b == 0: raise EvalError("div0")
            return _cdiv(a, b)
        if op == "%":
            if b == 0: raise EvalError("div0")
            return a - _cdiv(a, b) * b
        if op == "<": return int(a < b)
        if op == "<=": return int(a <= b)
        if op == ">": return int(a > b)
        if op == ">=": return int(a >= b)
        if op == "==": return int(a == b)
        if op == "!=": return int(a != b)
        raise EvalError("operator " + op)
    if t == "un":
        a = evalx(e[2], env, P)
        if e[1] == "~": return ~a
        if e[1] == "!": return int(not a)
        if e[1] == "-": return -a
        if e[1] == "+": return a
        raise EvalError("unary " + e[1])
    if t == "cond":
        return evalx(e[2], env, P) if evalx(e[1], env, P) else evalx(e[3], env, P)
    if t == "idx" and P is not None:
        b = strip(e[1])
        if is_e(b, "var") and b[2] in ("global", "lstatic"):
            vals = table_values(P.global_(b[1]))
            i = evalx(e[2], env, P)
            if not (0 <= i < len(vals)):
                raise EvalError("index %d out of table %s[%d]" % (i, b[1], len(vals)))
            return vals[i]
    if t == "call" and P is not None and e[1][0] == "fn" and e[1][1] in P.fns:
        # inline a pure library function: optional single local initialised from a parameter, one return of a pure expression
        g = P.fns[e[1][1]]
        rets = list(g.returns())
        others = [x for x in g.elems() if x.e[0] not in ("ret", "decl")]
        if len(rets) == 1 and not others and len(g.params) == len(e[2]):
            env2 = {}
            for (pn, pt), a in zip(g.params, e[2]):
                env2[pn] = cast_int(pt, evalx(a, env, P))
            for x in g.elems():
                if x.e[0] == "decl":
                    env2[x.e[1]] = cast_int(x.e[2], evalx(x.e[3], env2, P))
            return cast_int(g.ret, evalx(rets[0].e[1], env2, P))
    raise EvalError("unsupported node %s in %s" % (t, show(e)))


def compilex(e, argnames, P=None):
    """Compile a pure integer expression tree into a Python function f(*args). `argnames` maps key(leaf) -> argument name.
    Same semantics as evalx (unbounded ints, explicit casts truncate)."""
    tabs = {}

    def gen(e):
        if is_e(e, "cast"):
            ty = e[1].replace("const ", "").strip()
            inner = gen(e[2])
            if ty in _UNSIGNED:
                return "((%s) & %d)" % (inner, (1 << _UNSIGNED[ty]) - 1)
            if ty in _SIGNED:
                b = _SIGNED[ty]
                return "_sx(%s, %d)" % (inner, b)
            return inner
        if is_e(e, "stmtexpr"):
            return gen(e[1])
        k = key(e)
        if k in argnames:
            return argnames[k]
        t = e[0]
        if t == "int":
            return "(%d)" % e[1]
        if t == "bin":
            op = e[1]
            a, b = gen(e[2]), gen(e[3])
            if op in ("&", "|", "^", "<<", ">>", "+", "-", "*"):
                return "(%s %s %s)" % (a, op, b)
            if op in ("<", "<=", ">", ">=", "==", "!="):
                return "int(%s %s %s)" % (a, op, b)
            if op == "&&":
                return "int(bool(%s) and bool(%s))" % (a, b)
            if op == "||":
                return "int(bool(%s) or bool(%s))" % (a, b)
            raise EvalError("operator " + op)
        if t == "un":
            a = gen(e[2])
            if e[1] == "~": return "(~%s)" % a
            if e[1] == "!": return "int(not %s)" % a
            if e[1] == "-": return "(-%s)" % a
            if e[1] == "+": return a
            raise EvalError("unary " + e[1])
        if t == "cond":
            return "(%s if %s else %s)" % (gen(e[2]), gen(e[1]), gen(e[3]))
        if t == "idx" and P is not None:
            b = strip(e[1])
            if is_e(b, "var") and b[2] in ("global", "lstatic"):
                name = "_t_" + b[1]
                tabs[name] = tuple(table_values(P.global_(b[1])))
                return "%s[%s]" % (name, gen(e[2]))
        raise EvalError("unsupported node %s in %s" % (t, show(e)))

    src = gen(e)
    names = sorted(set(argnames.values()))
    env = dict(tabs)
    env["_sx"] = lambda v, b: ((v & ((1 << b) - 1)) - (1 << b)) if (v >> (b - 1)) & 1 else (v & ((1 << b) - 1))
    return eval("lambda %s: %s" % (", ".join(names), src), env), names


# ---------------------------------------------------------------- typed evaluation (C integer conversions, opt-in)

def _tyinfo(t):
    """(bits, signed) of a C integer type name, or None"""
    if not t:
        return None
    t = t.replace("const ", "").replace("volatile ", "").strip()
    if t in _UNSIGNED:
        return (_UNSIGNED[t], False)
    if t in _SIGNED:
        return (_SIGNED[t], True)
    if t in ("enum", ) or t.startswith("enum "):
        return (32, False)
    if t in ("ev_off_t", "off_t", "long long", "int64_t"):
        return (64, True)
    if t in ("unsigned long long", "ev_uintptr_t", "uintptr_t"):
        return (64, False)
    if t in ("unsigned char", "ev_uint8_t"):
        return (8, False)
    if t in ("unsigned short",):
        return (16, False)
    return None


def _conv(v, ty):
    if isinstance(v, float):
        v = int(v)
    if not isinstance(v, int):
        return v
    bits, signed = ty
    v &= (1 << bits) - 1
    if signed and v >> (bits - 1):
        v -= 1 << bits
    return v


def _promote(a, b):
    """usual arithmetic conversions on (bits, signed) pairs"""
    def ip(t):
        return (32, True) if t[0] < 32 else t
    a, b = ip(a), ip(b)
    if a == b:
        return a
    if a[0] == b[0]:
        return (a[0], False)
    big, small = (a, b) if a[0] > b[0] else (b, a)
    return big


def texpr_type(e, fn, P):
    """static C type (bits, signed) of expression e in function fn, or None when unknown"""
    e0 = e
    if is_e(e, "cast"):
        t = _tyinfo(e[1])
        return t if t else texpr_type(e[2], fn, P)
    if is_e(e, "stmtexpr"):
        return texpr_type(e[1], fn, P)
    k = e[0] if isinstance(e, list) and e else None
    if k == "int":
        sp = (e[2] if len(e) > 2 else "") or ""
        s = sp.lower().rstrip()
        if s.endswith(("ull", "llu")):
            return (64, False)
        if s.endswith(("ul", "lu")):
            return (64, False)
        if s.endswith("ll") or s.endswith("l"):
            return (64, True)
        if s.endswith("u") and not s.startswith("0x") or (s.startswith("0x") and s.endswith("u")):
            return (32, False)
        if isinstance(e[1], int) and not (-(1 << 31) <= e[1] < (1 << 31)):
            return (64, e[1] < (1 << 63))
        return (32, True)
    if k == "var":
        t = fn.var_type(e[1]) if fn is not None else None
        if t is None and P is not None and e[1] in P.globals:
            t = P.globals[e[1]][0].get("type")
        return _tyinfo(t)
    if k == "fld":
        if P is not None:
            rec, _, fld = e[2].rpartition(".")
            rd = P.records.get(rec)
            if rd:
                for n, t in rd["fields"]:
                    if n == fld:
                        return _tyinfo(t)
        return None
    if k == "idx" or k == "deref":
        b = strip(e[1])
        bt = None
        if is_e(b, "var") and fn is not None:
            bt = fn.var_type(b[1])
        elif is_e(b, "fld") and P is not None:
            rec, _, fld = b[2].rpartition(".")
            rd = P.records.get(rec)
            if rd:
                for n, t in rd["fields"]:
                    if n == fld:
                        bt = t
        if bt:
            bt = bt.replace("const ", "").strip()
            if bt.endswith("*"):
                return _tyinfo(bt[:-1].strip())
            if "[" in bt:
                return _tyinfo(bt[:bt.index("[")].strip())
        return None
    if k == "bin":
        op = e[1]
        if op in ("<", "<=", ">", ">=", "==", "!=", "&&", "||"):
            return (32, True)
        a, b = texpr_type(e[2], fn, P), texpr_type(e[3], fn, P)
        if op in ("<<", ">>"):
            return ((32, True) if a and a[0] < 32 else a)
        if a and b:
            return _promote(a, b)
        return a or b
    if k == "un":
        if e[1] == "!":
            return (32, True)
        a = texpr_type(e[2], fn, P)
        return ((32, True) if a and a[0] < 32 else a)
    if k == "cond":
        a, b = texpr_type(e[2], fn, P), texpr_type(e[3], fn, P)
        if a and b:
            return _promote(a, b)
        return a or b
    if k == "call" and P is not None and e[1][0] == "fn" and e[1][1] in P.fns:
        return _tyinfo(P.fns[e[1][1]].ret)
    if k in ("asg", "incdec"):
        return texpr_type(e[2] if k == "asg" else e[3], fn, P)
    return None


def tevalx(e, env, P, fn):
    """evalx with C integer semantics where the static types are known: operands are converted to the promoted type before
    arithmetic and comparison (so size_t subtraction wraps, signed/unsigned comparison converts), results wrap to the type."""
    if is_e(e, "cast"):
        v = tevalx(e[2], env, P, fn)
        t = _tyinfo(e[1])
        return _conv(v, t) if t else v
    if is_e(e, "stmtexpr"):
        return tevalx(e[1], env, P, fn)
    k_ = key(e)
    if k_ in env and env[k_] is not None:
        return env[k_]
    t = e[0]
    if t in ("deref", "idx"):
        try:
            b_ = tevalx(e[1], env, P, fn)
        except EvalError:
            b_ = None       # e.g. a constant global table: evalx handles it
        if isinstance(b_, PStr):
            i_ = tevalx(e[2], env, P, fn) if t == "idx" else 0
            v_ = b_.at(i_)
            return v_ - 256 if v_ > 127 else v_      # plain char is signed on this platform
        return evalx(e, env, P)
    if t == "bin":
        op = e[1]
        if op == "&&":
            return 1 if (tevalx(e[2], env, P, fn) and tevalx(e[3], env, P, fn)) else 0
        if op == "||":
            return 1 if (tevalx(e[2], env, P, fn) or tevalx(e[3], env, P, fn)) else 0
        a, b = tevalx(e[2], env, P, fn), tevalx(e[3], env, P, fn)
        if (isinstance(a, float) or isinstance(b, float)) and isinstance(a, (int, float)) and isinstance(b, (int, float)):
            # floating arithmetic (strtod results): plain real arithmetic, comparisons give 0/1
            if op in ("+", "-", "*"):
                return {"+": a + b, "-": a - b, "*": a * b}[op]
            if op == "/":
                if b == 0:
                    raise EvalError("div0")
                return a / b
            if op in ("<", "<=", ">", ">=", "==", "!="):
                return int({"<": a < b, "<=": a <= b, ">": a > b, ">=": a >= b, "==": a == b, "!=": a != b}[op])
            raise EvalError("operator %s on a floating value" % op)
        if not isinstance(a, int) or not isinstance(b, int):
            if op == "+":
                return a + b
            if op == "-":
                return a - b
            if op in ("==", "!="):
                return int((a == b) == (op == "=="))
            if op in ("<", "<=", ">", ">="):
                return int({"<": a < b, "<=": a <= b, ">": a > b, ">=": a >= b}[op])
            raise EvalError("pointer arithmetic %s" % op)
        ta, tb = texpr_type(e[2], fn, P), texpr_type(e[3], fn, P)
        if op in ("<<", ">>"):
            rt = (32, True) if ta and ta[0] < 32 else ta
            if rt:
                a = _conv(a, rt)
            v = evalx(["bin", op, ["int", a], ["int", b]], {}, None)
            return _conv(v, rt) if rt else v
        if ta and tb:
            ct = _promote(ta, tb)
            a, b = _conv(a, ct), _conv(b, ct)
            v = evalx(["bin", op, ["int", a], ["int", b]], {}, None)
            if op in ("<", "<=", ">", ">=", "==", "!="):
                return v
            return _conv(v, ct)
        return evalx(["bin", op, ["int", a], ["int", b]], {}, None)
    if t == "un":
        a = tevalx(e[2], env, P, fn)
        ta = texpr_type(e[2], fn, P)
        v = evalx(["un", e[1], ["int", a]], {}, None)
        if e[1] in ("~", "-") and ta:
            rt = (32, True) if ta[0] < 32 else ta
            return _conv(v, rt)
        return v
    if t == "cond":
        c = tevalx(e[1], env, P, fn)
        v = tevalx(e[2] if c else e[3], env, P, fn)
        ct = texpr_type(e, fn, P)
        return _conv(v, ct) if ct else v
    return evalx(e, env, P)
