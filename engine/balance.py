"""K1 BALANCE: bracket resources (locks) return to their entry level on every exit.

Forward dataflow over each function's CFG with set-of-vectors states, bottom-up function summaries
(delta vectors per return, min-prefix), composition at call sites, and a small amount of path sensitivity:
 * `if (lock)` wrappers of the lock macros: the lock==NULL edge is pruned (world: locking enabled),
 * EVLOCK_LOCK2/UNLOCK2 `lock2 != lock1`: the equal edge is pruned (both macros take the same pair),
 * stable conditions (over never-reassigned params/locals) that are tested more than once are tracked as facts,
 * constant return values of callees with return-correlated effects are tracked through `if (f())`, `r = f(); if (r...)`,
 * declared guard tokens (field tests that a paired acquire/release both make) cross function boundaries.
"""
import collections
from .prog import *
from .facts import AnalysisBroken

CAP = 3
MAX_STATES = 96


def vec_add(vec, cls, d):
    m = dict(vec)
    m[cls] = m.get(cls, 0) + d
    if m[cls] == 0:
        del m[cls]
    return tuple(sorted(m.items()))


def vec_sum(a, b):
    m = dict(a)
    for c, d in b:
        m[c] = m.get(c, 0) + d
        if m[c] == 0:
            del m[c]
    return tuple(sorted(m.items()))


class Summary(object):
    def __init__(self):
        self.outs = set()       # (vec, ret, toks)
        self.minp = {}          # class -> most negative relative depth reached (<= 0 entries only)
        self.minps = set()      # (token-facts, class, depth): the same, per guard-token valuation
        self.pcalls = {}        # param index -> set of relative vectors at calls through that function-pointer parameter
        self.maxp = {}
        self.diag = []          # (kind, msg, elem)
        self.n_events = 0
        self.witness = {}       # (vec) -> list of lines

    def sig(self):
        return (frozenset(self.outs), tuple(sorted(self.minp.items())), frozenset(self.minps),
                tuple(sorted((k, frozenset(v)) for k, v in self.pcalls.items())))

    def deltas(self):
        return set(v for v, r, t in self.outs)


class LockModel(object):
    """Recognises lock events in libevent."""
    LOCK_SLOT = "evthread_lock_callbacks.lock"
    UNLOCK_SLOT = "evthread_lock_callbacks.unlock"
    WAIT_SLOT = "evthread_condition_callbacks.wait_condition"
    LOCK_FN = "evthreadimpl_lock_lock_"
    UNLOCK_FN = "evthreadimpl_lock_unlock_"
    WAIT_FN = "evthreadimpl_cond_wait_"
    TRY = 0x10

    def __init__(self, P):
        self.P = P
        self._cls_cache = {}

    def lock_op(self, el):
        """-> (kind, lockexpr, mode) for a lock/unlock/wait call element, else None."""
        e = el.e
        if e[0] != "call":
            return None
        s, n = callee_slot(e), callee_name(e)
        if s == self.LOCK_SLOT or n == self.LOCK_FN:
            m = strip(e[2][0])
            return ("lock", e[2][1], m[1] if is_e(m, "int") else None)
        if s == self.UNLOCK_SLOT or n == self.UNLOCK_FN:
            return ("unlock", e[2][1], None)
        if s == self.WAIT_SLOT or n == self.WAIT_FN:
            return ("wait", e[2][1], None)
        return None

    def lock_class(self, fn, expr, depth=0):
        expr = strip(expr)
        if is_e(expr, "fld"):
            return expr[2]
        if is_e(expr, "var"):
            if expr[2] == "global":
                return "global:" + expr[1]
            if expr[2] == "param":
                for i, (n, t) in enumerate(fn.params):
                    if n == expr[1]:
                        return "$%d" % i
            if depth > 4:
                return None
            ck = (fn.name, fn.file, expr[1])
            if ck in self._cls_cache:
                return self._cls_cache[ck]
            self._cls_cache[ck] = None
            classes = set()
            for el, lhs, op, rhs in fn.stores():
                if eq(lhs, expr):
                    r = strip(rhs)
                    if is_e(r, "var") and r[1] == expr[1]:
                        continue
                    if is_e(r, "var") and r[2] == "local" and r[1] == "tmp":
                        # EVLOCK_SORTLOCKS_ swap temporary
                        continue
                    c = self.lock_class(fn, r, depth + 1)
                    classes.add(c)
            classes.discard(None) if len(classes) > 1 else None
            res = classes.pop() if len(classes) == 1 else None
            self._cls_cache[ck] = res
            return res
        if is_e(expr, "cond"):
            a = self.lock_class(fn, expr[2], depth + 1)
            b = self.lock_class(fn, expr[3], depth + 1)
            return a if a == b else (a or b)
        return None


class Balance(object):
    def __init__(self, P, model, ops_slots=(), tokens=(), special=None, trusted_neutral=()):
        self.P = P
        self.M = model
        self.ops_slots = set(ops_slots)
        self.tokens = set(tokens)
        self.special = special or {}
        self.trusted_neutral = set(trusted_neutral)
        self.lock2_same = False     # analysed world for LOCK2/UNLOCK2: False = the two locks are distinct objects, True = they are the same object
        self.summ = {}
        self.by_unit = collections.defaultdict(dict)
        for f in P.all_fns:
            self.by_unit[f.unit].setdefault(f.name, f)
        self.lock_events = 0
        self.parents = {}
        self.record = None
        self._ppt = {}
        self._pending_pcalls = {}

    # ------------------------------------------------------------ resolution
    def resolve(self, caller, name):
        f = self.by_unit[caller.unit].get(name)
        if f is not None:
            return f
        return self.P.fns.get(name)

    def fkey(self, f):
        return (f.name, f.file, f.line)

    def param_ptr_index(self, fn, call):
        c = call[1]
        if c[0] != "ptr":
            return None
        v = strip(c[1])
        if is_e(v, "deref"):
            v = strip(v[1])
        if not (is_e(v, "var") and v[2] == "param"):
            return None
        for i, (n, t) in enumerate(fn.params):
            if n == v[1]:
                return i
        return None

    def ptr_param_targets(self, fn, call):
        """For a call through a function-pointer parameter: the library functions every caller passes, or None
        when some caller passes something else (then the callee is user code)."""
        c = call[1]
        if c[0] != "ptr":
            return None
        v = strip(c[1])
        if is_e(v, "deref"):
            v = strip(v[1])
        if not (is_e(v, "var") and v[2] == "param"):
            return None
        idx = None
        for i, (n, t) in enumerate(fn.params):
            if n == v[1]:
                idx = i
        if idx is None:
            return None
        ck = (fn.name, fn.file, idx)
        if ck in self._ppt:
            return self._ppt[ck]
        self._ppt[ck] = None
        out = []
        callers = self.P.callers().get(fn.name, [])
        ok = bool(callers)
        for cf, cel in callers:
            if idx >= len(cel.e[2]):
                ok = False
                break
            a = strip(cel.e[2][idx])
            if is_e(a, "addr"):
                a = strip(a[1])
            if is_e(a, "fn"):
                g = self.resolve(cf, a[1])
                if g is None:
                    ok = False
                    break
                out.append(g)
            elif is_e(a, "var") and a[2] == "param":
                # pass-through of the caller's own parameter
                sub = self.ptr_param_targets(cf, ["call", ["ptr", a], []])
                if sub is None:
                    ok = False
                    break
                out += sub
            else:
                ok = False
                break
        if fn.public:
            ok = False
        self._ppt[ck] = out if ok else None
        return self._ppt[ck]

    def callees(self, fn):
        out = []
        for el in fn.calls():
            n = callee_name(el.e)
            if n:
                g = self.resolve(fn, n)
                if g is not None and n not in self.special:
                    out.append(g)
                    for a in el.e[2]:
                        a = strip(a)
                        if is_e(a, "addr"):
                            a = strip(a[1])
                        if is_e(a, "fn"):
                            h = self.resolve(fn, a[1])
                            if h is not None:
                                out.append(h)
            else:
                s = callee_slot(el.e)
                if s in self.ops_slots:
                    for m in sorted(self.P.slots().get(s, ())):
                        g = self.resolve(fn, m)
                        if g is not None:
                            out.append(g)
        return out

    # ------------------------------------------------------------ whole program
    def solve(self):
        fns = self.P.all_fns
        keyf = {self.fkey(f): f for f in fns}
        graph = {k: [self.fkey(g) for g in self.callees(f)] for k, f in keyf.items()}
        order = tarjan(graph)
        for scc in order:
            for k in scc:
                self.summ[k] = Summary()
            rec = len(scc) > 1 or scc[0] in graph[scc[0]]
            for it in range(12):
                changed = False
                for k in scc:
                    old = self.summ[k].sig()
                    s = self.analyze(keyf[k])
                    self.summ[k] = s
                    if s.sig() != old:
                        changed = True
                if not rec or not changed:
                    break
            else:
                for k in scc:
                    self.summ[k].diag.append(("nofix", "summary did not stabilise in 12 rounds (recursion)", None))
        return self.summ

    def site_vectors(self):
        """After solve(): {(fkey, elem.n): set(local vec)} for every call element."""
        self.record = {}
        for f in self.P.all_fns:
            self.analyze(f)
        r = self.record
        self.record = None
        return r

    def contexts(self, roots, sites, limit=24, project=None):
        """Absolute entry vectors per function, propagated top-down from roots (entered at depth 0)."""
        ctx = collections.defaultdict(set)
        top = set()
        self.prov = {}
        self.project = project
        work = collections.deque()
        for f in roots:
            k = self.fkey(f)
            if () not in ctx[k]:
                ctx[k].add(())
                work.append(f)
        keyf = {self.fkey(f): f for f in self.P.all_fns}
        while work:
            f = work.popleft()
            k = self.fkey(f)
            for el in f.calls():
                loc = sites.get((k, el.n))
                if not loc:
                    continue
                n = callee_name(el.e)
                targets = []
                if n:
                    if n in self.special:
                        continue
                    g = self.resolve(f, n)
                    if g is not None:
                        targets = [g]
                else:
                    sl = callee_slot(el.e)
                    if sl in self.ops_slots:
                        targets = [g for g in (self.resolve(f, m) for m in sorted(self.P.slots().get(sl, ()))) if g is not None]
                    else:
                        targets = self.ptr_param_targets(f, el.e) or []
                for g in targets:
                    gk = self.fkey(g)
                    if gk in top:
                        continue
                    add = set()
                    for c in (ctx[k] if k not in top else [()]):
                        for l in loc:
                            v = vec_sum(c, l)
                            if project is not None:
                                v = tuple(x for x in v if x[0] in project)
                            if any(abs(d) > CAP + 1 for _, d in v):
                                continue
                            add.add(v)
                    new = add - ctx[gk]
                    for v in new:
                        self.prov.setdefault((gk, v), (k, el))
                    if new:
                        ctx[gk] |= new
                        if len(ctx[gk]) > limit:
                            top.add(gk)
                        work.append(g)
        return ctx, top

    def why(self, f, cls, ctx, sites, depth=0):
        """A call chain (root first) that enters f with class `cls` held, for reports."""
        k = self.fkey(f)
        chain = []
        seen = set()
        cur = k
        want = None
        for v in ctx.get(k, ()):
            if dict(v).get(cls, 0) > 0:
                want = v
                break
        while want is not None and (cur, want) in self.prov and (cur, want) not in seen and len(chain) < 12:
            seen.add((cur, want))
            pk, el = self.prov[(cur, want)]
            chain.append("%s@%s:%d" % (pk[0], pk[1], el.line))
            # find a caller ctx vector that (with some local vector) gives `want`
            nxt = None
            for c in ctx.get(pk, ()):
                for l in sites.get((pk, el.n), ()):
                    vv = vec_sum(c, l)
                    if self.project is not None:
                        vv = tuple(x for x in vv if x[0] in self.project)
                    if vv == want:
                        nxt = c
                        break
                if nxt is not None:
                    break
            cur, want = pk, nxt
            if want is None or dict(want).get(cls, 0) <= 0:
                break
        return " <- ".join(chain)

    def summary_of(self, f):
        return self.summ.get(self.fkey(f))

    # ------------------------------------------------------------ one function
    def stable_conds(self, fn):
        stored = collections.Counter()
        for el, lhs, op, rhs in fn.stores():
            l = strip(lhs)
            if is_e(l, "var"):
                stored[l[1]] += 1
            for sub in walk(rhs):
                if is_e(sub, "addr") and is_e(strip(sub[1]), "var"):
                    stored[strip(sub[1])[1]] += 2
        for el in fn.calls():
            for a in el.e[2]:
                a = strip(a)
                if is_e(a, "addr") and is_e(strip(a[1]), "var"):
                    stored[strip(a[1])[1]] += 2
        cnt = collections.Counter()
        for b in fn.branch_blocks():
            c, t = negate_truth(b.term["cond"], True)
            k = self.cond_key(fn, c, stored)
            if k is not None:
                cnt[k] += 1
        return set(k for k, n in cnt.items() if n >= 2 or (isinstance(k, tuple) and k and k[0] == "tok")), stored

    def cond_key(self, fn, c, stored):
        c = strip(c)
        if is_e(c, "fld") and c[2] in self.tokens:
            return ("tok", c[2])
        ok = True
        for sub in walk(c):
            if sub[0] in ("call", "asg", "incdec", "fld", "deref", "idx"):
                ok = False
                break
            if sub[0] == "var":
                if sub[2] in ("global", "lstatic"):
                    ok = False
                    break
                lim = 1 if sub[2] == "local" else 0
                if stored.get(sub[1], 0) > lim:
                    ok = False
                    break
        if not ok:
            return None
        if c[0] == "int":
            return None
        return ("cond", key(c))

    def analyze(self, fn):
        M = self.M
        S = Summary()
        tracked, stored = self.stable_conds(fn)
        # locals whose constant values are tracked: tested in some branch, address never taken
        cvars = set()
        for b in fn.branch_blocks():
            for sub in walk(b.term["cond"]):
                if is_e(sub, "var") and sub[2] == "local":
                    cvars.add(sub[1])
        addr_taken = set()
        for el in fn.elems():
            for sub in walk(el.e):
                if is_e(sub, "addr") and is_e(strip(sub[1]), "var"):
                    addr_taken.add(strip(sub[1])[1])
        cvars -= addr_taken
        blocks = fn.blocks
        if fn.entry is None:
            return S
        init = ((), frozenset())
        states = collections.defaultdict(set)
        states[fn.entry].add(init)
        parents = {}
        work = collections.deque([(fn.entry, init)])
        exploded = False

        def low(c, d, facts):
            d = max(d, -CAP - 1)
            if d < 0:
                toks = frozenset(x for x in facts if x[0][0] == "tok")
                S.minps.add((toks, c, d))
                if d < S.minp.get(c, 0):
                    S.minp[c] = d

        def note_depth(vec, facts=frozenset()):
            for c, d in vec:
                if d < 0:
                    low(c, d, facts)
                if d > S.maxp.get(c, 0):
                    S.maxp[c] = d

        def push(b, st, frm):
            if st in states[b]:
                return
            if len(states[b]) >= MAX_STATES:
                nonlocal exploded
                exploded = True
                return
            states[b].add(st)
            parents[(b, st)] = frm
            work.append((b, st))

        while work:
            bid, st0 = work.popleft()
            blk = blocks[bid]
            cur = [st0]   # list of (vec, facts)
            dead = False
            for el in blk.elems:
                nxt = []
                e = el.e
                if e[0] == "call":
                    if self.record is not None:
                        self.record.setdefault((self.fkey(fn), el.n), set()).update(v for v, f_ in cur)
                    lo = M.lock_op(el)
                    if lo and fn.name not in self.special:
                        kind, lx, mode = lo
                        cls = M.lock_class(fn, lx) or ("?" + show(lx))
                        S.n_events += 1
                        for vec, facts in cur:
                            if kind == "lock":
                                v2 = vec_add(vec, cls, +1)
                            elif kind == "unlock":
                                v2 = vec_add(vec, cls, -1)
                            else:
                                v2 = vec
                                d = dict(vec).get(cls, 0)
                                # a wait needs the lock held: record as a prefix requirement
                                low(cls, d - 1, facts)
                            if any(abs(d) > CAP for c, d in v2):
                                S.diag.append(("cap", "depth of %s exceeds +-%d (changes per loop iteration?)" % (cls, CAP), el))
                                continue
                            note_depth(v2, facts)
                            nxt.append((v2, facts))
                        cur = nxt
                        continue
                    pidx = self.param_ptr_index(fn, e)
                    if pidx is not None:
                        S.pcalls.setdefault(pidx, set()).update(v for v, f_ in cur)
                    self._pending_pcalls = {}
                    outs = self.call_outs(fn, el)
                    if self._pending_pcalls:
                        for i, vecs in self._pending_pcalls.items():
                            for v0, f_ in cur:
                                for v1 in vecs:
                                    S.pcalls.setdefault(i, set()).add(vec_sum(v0, v1))
                    if outs is not None:
                        souts, sminp, correlated = outs
                        ck = key(e)
                        for vec, facts in cur:
                            for (mt, c, d) in sminp:
                                if any((tk, not tv) in facts for tk, tv in mt):
                                    continue
                                low(c, dict(vec).get(c, 0) + d, facts | mt)
                            for ovec, oret, otoks in souts:
                                f2 = facts
                                # guard tokens: must be consistent, then merged
                                bad = False
                                for tk, tv in otoks:
                                    if (tk, not tv) in f2:
                                        bad = True
                                        break
                                if bad:
                                    continue
                                if otoks:
                                    f2 = f2 | otoks
                                v2 = vec_sum(vec, ovec)
                                if any(abs(d) > CAP for c, d in v2):
                                    S.diag.append(("cap", "depth exceeds +-%d after call %s" % (CAP, show(e)[:60]), el))
                                    continue
                                note_depth(v2, f2)
                                f2 = frozenset(x for x in f2 if not (x[0][0] == "ret" and x[0][1] == ck))
                                if correlated and oret is not None:
                                    f2 = f2 | frozenset([(("ret", ck), oret)])
                                nxt.append((v2, f2))
                        cur = list(set(nxt))
                        if not cur:
                            dead = True
                            break
                        continue
                    # unknown / neutral call: nothing
                    continue
                if e[0] in ("asg", "decl", "incdec"):
                    if e[0] == "asg":
                        lhs, rhs = strip(e[2]), strip(e[3])
                    elif e[0] == "decl":
                        lhs, rhs = ["var", e[1], "local"], strip(e[3])
                    else:
                        lhs, rhs = strip(e[3]), None
                    nxt = []
                    for vec, facts in cur:
                        f2 = facts
                        if is_e(lhs, "var"):
                            f2 = frozenset(x for x in f2 if not (x[0][0] in ("retvar", "val") and x[0][1] == lhs[1]))
                            if lhs[1] in cvars and rhs is not None and is_e(rhs, "int") and (e[0] == "decl" or (e[0] == "asg" and e[1] == "=")):
                                f2 = f2 | frozenset([(("val", lhs[1]), rhs[1])])
                            if rhs is not None and is_e(rhs, "call") and e[0] != "incdec" and (e[0] == "decl" or e[1] == "="):
                                ck = key(rhs)
                                for (fk, fv) in facts:
                                    if fk == ("ret", ck):
                                        f2 = f2 | frozenset([(("retvar", lhs[1]), fv)])
                        if is_e(lhs, "fld") and lhs[2] in self.tokens:
                            f2 = frozenset(x for x in f2 if x[0] != ("tok", lhs[2]))
                        nxt.append((vec, f2))
                    cur = nxt
                    continue
                if e[0] == "ret":
                    rv = strip(e[1])
                    ret = rv[1] if is_e(rv, "int") else None
                    for vec, facts in cur:
                        toks = frozenset(x for x in facts if x[0][0] == "tok")
                        if is_e(rv, "var"):
                            for (fk, fv) in facts:
                                if fk == ("retvar", rv[1]):
                                    ret = fv
                        S.outs.add((vec, ret, toks))
                        S.witness.setdefault(vec, (bid, (vec, facts), el))
                    dead = True
                    break
            if dead:
                continue
            if blk.noreturn:
                continue
            if bid == fn.exit:
                continue
            # successors
            succs = blk.succ
            for (s, lab) in succs:
                if s == fn.exit and not any(el.e[0] == "ret" for el in blk.elems):
                    # falling off the end (void function)
                    for vec, facts in cur:
                        f2 = self.refine(fn, blk, lab, s, vec, facts, tracked, stored)
                        if f2 is None:
                            continue
                        toks = frozenset(x for x in f2 if x[0][0] == "tok")
                        S.outs.add((vec, None, toks))
                        S.witness.setdefault(vec, (bid, (vec, facts), None))
                    continue
                for vec, facts in cur:
                    f2 = self.refine(fn, blk, lab, s, vec, facts, tracked, stored)
                    if f2 is None:
                        continue
                    push(s, (vec, f2), (bid, st0))
        # guard tokens are kept in the summary only when the effect depends on them
        if any(t for v, r, t in S.outs):
            by = collections.defaultdict(set)
            for v, r, t in S.outs:
                by[t].add(v)
            allv = set(v for v, r, t in S.outs)
            if all(vs == allv for vs in by.values()):
                S.outs = set((v, r, frozenset()) for v, r, t in S.outs)
        if exploded:
            S.diag.append(("explode", "more than %d abstract states at a block" % MAX_STATES, None))
        self.parents[self.fkey(fn)] = parents
        return S

    def refine(self, fn, blk, lab, succ, vec, facts, tracked, stored):
        """Edge refinement; returns new facts or None when the edge is infeasible in the analysed world."""
        if lab not in ("T", "F") or not blk.term or "cond" not in blk.term:
            return facts
        truth = lab == "T"
        c, t = negate_truth(blk.term["cond"], truth)
        M = self.M
        # (1) `if (lock)` wrapper: the edge on which the lock pointer is NULL is pruned when the non-NULL
        #     side starts with a lock operation on the same expression
        other = [x for x, l in blk.succ if l != lab]
        if len(blk.succ) == 2:
            tside = succ if t else (other[0] if other else None)
            if tside is not None and tside in fn.blocks and fn.blocks[tside].elems:
                lo = M.lock_op(fn.blocks[tside].elems[0])
                if lo and lo[0] in ("lock", "unlock") and eq(lo[1], c):
                    if not t:
                        return None
                    return facts
        # (2) LOCK2 distinctness test
        if is_e(c, "bin") and c[1] in ("!=", "==") and is_e(strip(c[2]), "var") and is_e(strip(c[3]), "var"):
            a, b = strip(c[2]), strip(c[3])
            if a[2] == "local" and b[2] == "local" and a[1].endswith("_tmplock_") and b[1].endswith("_tmplock_"):
                differ = t if c[1] == "!=" else not t
                if differ == self.lock2_same:
                    return None
                return facts
        # (3) return-value facts
        val = self.known_value(c, facts)
        if val is not None:
            if bool(val) != t:
                return None
            return facts
        if is_e(c, "bin") and c[1] in ("<", "<=", ">", ">=", "==", "!="):
            lv = self.known_value(strip(c[2]), facts, raw=True)
            r = strip(c[3])
            if lv is not None and is_e(r, "int"):
                rv = r[1]
                res = {"<": lv < rv, "<=": lv <= rv, ">": lv > rv, ">=": lv >= rv, "==": lv == rv, "!=": lv != rv}[c[1]]
                if res != t:
                    return None
                return facts
        # (4) stable conditions / tokens
        k = self.cond_key(fn, c, stored)
        if k is not None and k in tracked:
            if (k, not t) in facts:
                return None
            return facts | frozenset([(k, t)])
        return facts

    def known_value(self, c, facts, raw=False):
        c = strip(c)
        if is_e(c, "call"):
            ck = key(c)
            for (fk, fv) in facts:
                if fk == ("ret", ck):
                    return fv if raw else (1 if fv else 0)
        if is_e(c, "var"):
            for (fk, fv) in facts:
                if fk == ("retvar", c[1]) or fk == ("val", c[1]):
                    return fv if raw else (1 if fv else 0)
        if is_e(c, "asg") and c[1] == "=" and is_e(strip(c[3]), "call"):
            return self.known_value(strip(c[3]), facts, raw)
        return None

    def call_outs(self, fn, el):
        """-> (outs, minp, correlated) with param classes substituted, or None for a neutral call."""
        e = el.e
        n = callee_name(e)
        cands = []
        if n:
            if n in self.special:
                sp = self.special[n]
                outs = set()
                for (cls, d, ret) in sp:
                    if cls is None:
                        outs.add(((), ret, frozenset()))
                    else:
                        c = self.subst_cls(fn, e, cls)
                        outs.add((((c, d),), ret, frozenset()))
                return outs, set(), True
            if n in self.trusted_neutral:
                return None
            g = self.resolve(fn, n)
            if g is None:
                return None
            cands = [g]
        else:
            s = callee_slot(e)
            if s in self.ops_slots:
                for m in sorted(self.P.slots().get(s, ())):
                    g = self.resolve(fn, m)
                    if g is not None:
                        cands.append(g)
            if not cands:
                return None
        outs = set()
        minp = set()
        for g in cands:
            sm = self.summ.get(self.fkey(g))
            if sm is None:
                continue
            for vec, ret, toks in sm.outs:
                v2 = tuple(sorted((self.subst_cls(fn, e, c), d) for c, d in vec))
                outs.add((v2, ret if len(cands) == 1 else None, toks))
            for (mt, c, d) in sm.minps:
                minp.add((mt, self.subst_cls(fn, e, c), d))
            # higher-order: the callee calls its function-pointer parameter k at relative depth v
            for k, vecs in sm.pcalls.items():
                if k >= len(e[2]):
                    continue
                a = strip(e[2][k])
                if is_e(a, "addr"):
                    a = strip(a[1])
                if is_e(a, "fn"):
                    h = self.resolve(fn, a[1])
                    hs = self.summ.get(self.fkey(h)) if h is not None else None
                    if hs is not None:
                        for v in vecs:
                            for (mt, c, d) in hs.minps:
                                dd = dict(v).get(c, 0) + d
                                if dd < 0:
                                    minp.add((mt, c, dd))
                elif is_e(a, "var") and a[2] == "param":
                    for i, (pn, pt) in enumerate(fn.params):
                        if pn == a[1]:
                            self._pending_pcalls.setdefault(i, set()).update(vecs)
        if not cands:
            return None
        if all(self.summ.get(self.fkey(g)) is None for g in cands):
            return None
        vecs = set(v for v, r, t in outs)
        correlated = len(vecs) > 1
        if not correlated:
            # collapse return values: nothing depends on them
            outs = set((v, None, t) for v, r, t in outs)
        if not outs:
            # callee never returns (yet): continuation is dead
            return outs, minp, False
        return outs, minp, correlated

    def subst_cls(self, fn, call, cls):
        if isinstance(cls, str) and cls.startswith("$"):
            i = int(cls[1:])
            if i < len(call[2]):
                c = self.M.lock_class(fn, call[2][i])
                return c or ("?" + show(call[2][i]))
            return "?arg"
        return cls

    # ------------------------------------------------------------ witness
    def witness_path(self, fn, vec):
        sm = self.summary_of(fn)
        if sm is None or vec not in sm.witness:
            return None
        bid, st, el = sm.witness[vec]
        parents = self.parents.get(self.fkey(fn), {})
        chain = [bid]
        cur = (bid, st)
        guard = 0
        while cur in parents and parents[cur] is not None and guard < 2000:
            cur = parents[cur]
            chain.append(cur[0])
            guard += 1
        chain.reverse()
        steps = []
        for b in chain:
            for x in fn.blocks[b].elems:
                lo = self.M.lock_op(x)
                if lo:
                    steps.append("%s@%d" % (lo[0], x.line))
                elif x.e[0] == "call" and callee_name(x.e):
                    g = self.resolve(fn, callee_name(x.e))
                    if g is not None:
                        s2 = self.summary_of(g)
                        if s2 and any(v for v in s2.deltas()):
                            steps.append("%s@%d" % (callee_name(x.e), x.line))
        if el is not None:
            steps.append("return@%d" % el.line)
        else:
            steps.append("end-of-function")
        return " -> ".join(["entry"] + steps)


def tarjan(graph):
    """SCCs in reverse topological order (callees first). Iterative."""
    index = {}
    low = {}
    onstack = set()
    stack = []
    out = []
    counter = [0]
    for root in graph:
        if root in index:
            continue
        work = [(root, iter(graph.get(root, ())))]
        index[root] = low[root] = counter[0]
        counter[0] += 1
        stack.append(root)
        onstack.add(root)
        while work:
            v, it = work[-1]
            adv = False
            for w in it:
                if w not in graph:
                    continue
                if w not in index:
                    index[w] = low[w] = counter[0]
                    counter[0] += 1
                    stack.append(w)
                    onstack.add(w)
                    work.append((w, iter(graph.get(w, ()))))
                    adv = True
                    break
                elif w in onstack:
                    low[v] = min(low[v], index[w])
            if adv:
                continue
            work.pop()
            if work:
                u = work[-1][0]
                low[u] = min(low[u], low[v])
            if low[v] == index[v]:
                comp = []
                while True:
                    w = stack.pop()
                    onstack.discard(w)
                    comp.append(w)
                    if w == v:
                        break
                out.append(comp)
    return out
