"""K11 OWN (single resource, exactly-once): from an acquisition point, on every path until the next acquisition or the function
exit, the resource is consumed exactly once."""
import collections
from .prog import *


def exactly_once(fn, start, is_consume, is_stop=None, max_states=4000):
    """start: (bid, idx) position just after which the resource is owned (idx = -1 for block entry).
    is_consume(elem) -> bool; is_stop(elem) -> bool (next acquisition: scope ends *before* it).
    Returns {"leaks": [witness elem or 'exit'], "doubles": [elem]}.
    State machine per path: owned -> consumed; consume while consumed = double; stop/exit while owned = leak."""
    leaks, doubles = [], []
    seen = set()
    # correlated branches: a test of a plain local (`res != 0`, `!res`, `res`) whose address is never taken fixes its truth until the next store to it; a later test of the same
    # local follows only the consistent edge (`if (res == 0) link; ...; if (res != 0) free;` has two feasible paths, not four)
    addr_taken = set()
    for blk in fn.blocks.values() if isinstance(fn.blocks, dict) else fn.blocks:
        for el in blk.elems:
            for q in walk(el.e):
                if is_e(q, "addr") and is_e(strip(q[1]), "var"):
                    addr_taken.add(strip(q[1])[1])

    def test_var(cond):
        c, t = negate_truth(cond, True)
        if is_e(c, "var") and len(c) > 2 and c[2] in ("local", "param") and c[1] not in addr_taken:
            return c[1], t
        return None, None

    def stored(e):
        out = set()
        for q in walk(e):
            tgt = None
            if is_e(q, "asg"):
                tgt = q[2]
            elif is_e(q, "incdec"):
                tgt = q[3] if len(q) > 3 else None
            elif is_e(q, "decl"):
                out.add(q[1])
            if tgt is not None and is_e(strip(tgt), "var"):
                out.add(strip(tgt)[1])
        return out

    work = collections.deque([(start[0], start[1] + 1, "owned", frozenset())])
    while work and len(seen) < max_states:
        b, i, st, facts = work.popleft()
        if (b, i, st, facts) in seen:
            continue
        seen.add((b, i, st, facts))
        blk = fn.blocks[b]
        ended = False
        for el in blk.elems[i:]:
            if is_stop is not None and is_stop(el):
                if st == "owned":
                    leaks.append(el)
                ended = True
                break
            if is_consume(el):
                if st == "consumed":
                    doubles.append(el)
                st = "consumed"
            if el.e[0] == "ret":
                if st == "owned":
                    leaks.append(el)
                ended = True
                break
            if facts:
                w = stored(el.e)
                if w:
                    facts = frozenset(x for x in facts if x[0] not in w)
        if ended:
            continue
        if blk.noreturn:
            continue
        if b == fn.exit:
            if st == "owned":
                leaks.append("exit")
            continue
        v = t = None
        if blk.term is not None and blk.term.get("cond") is not None and sorted(l for _, l in blk.succ) == ["F", "T"]:
            w = stored(blk.term["cond"])
            if w:
                facts = frozenset(x for x in facts if x[0] not in w)
            else:
                v, t = test_var(blk.term["cond"])
        known = dict(facts).get(v) if v is not None else None
        for s, lab in blk.succ:
            if v is None:
                work.append((s, 0, st, facts))
                continue
            truth = (lab == "T") == t        # truth of "v != 0" on this edge
            if known is not None and known != truth:
                continue
            work.append((s, 0, st, frozenset(set(facts) | {(v, truth)})))
    return {"leaks": leaks, "doubles": doubles}
