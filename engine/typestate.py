"""K11 OWN (single resource, exactly-once): from an acquisition point, on every path until the next acquisition or the function
exit, the resource is consumed exactly once."""
import collections
from .prog import *


def exactly_once(fn, start, is_consume, is_stop=None, max_states=4000):
    """start: (bid, idx) position just after which the resource is owned (idx = -1 for block entry).
    is_consume(elem) -> bool; is_stop(elem) -> bool (next acquisition: scope ends *before* it).
    Returns {"leaks": [witness elem or 'exit'], "doubles": [elem]}.
    State machine per path: owned -> consumed; consume while consumed = double; stop/exit while owned = leak."""
    leaks, doubles = [], []
    seen = set()
    work = collections.deque([(start[0], start[1] + 1, "owned")])
    while work and len(seen) < max_states:
        b, i, st = work.popleft()
        if (b, i, st) in seen:
            continue
        seen.add((b, i, st))
        blk = fn.blocks[b]
        ended = False
        for el in blk.elems[i:]:
            if is_stop is not None and is_stop(el):
                if st == "owned":
                    leaks.append(el)
                ended = True
                break
            if is_consume(el):
                if st == "consumed":
                    doubles.append(el)
                st = "consumed"
            if el.e[0] == "ret":
                if st == "owned":
                    leaks.append(el)
                ended = True
                break
        if ended:
            continue
        if blk.noreturn:
            continue
        if b == fn.exit:
            if st == "owned":
                leaks.append("exit")
            continue
        for s, lab in blk.succ:
            work.append((s, 0, st))
    return {"leaks": leaks, "doubles": doubles}
