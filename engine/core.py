"""Rule results, driver, evidence writer, known-findings handling."""
import json, os, sys, time, hashlib, importlib, shutil, subprocess, tempfile, traceback
from . import facts as F
from .prog import Program, show
from .facts import AnalysisBroken, VERIF

KNOWN = os.path.join(VERIF, "known_findings.txt")


class Finding(object):
    def __init__(self, key, where, fn, msg, path=None):
        self.key = key          # stable identity: kind:function:construct (never a line number)
        self.where = where      # file:line on the current tree (for the reader)
        self.fn = fn
        self.msg = msg
        self.path = path

    def to_json(self):
        return {"key": self.key, "where": self.where, "function": self.fn, "what": self.msg, "path": self.path}


class Rule(object):
    """One rule instantiation and its outcome."""

    def __init__(self, rid, kind, desc, floor=1):
        self.id = rid
        self.kind = kind
        self.desc = desc
        self.floor = floor
        self.instances = 0      # instances matched & evaluated
        self.nontrivial = set() # distinct (site) keys whose decision needed a path/flow/dominance fact
        self.findings = []
        self.broken = []
        self.samples = []
        self.notes = []

    def inst(self, site_key=None, sample=None, nontrivial=True):
        self.instances += 1
        if nontrivial and site_key is not None:
            self.nontrivial.add(site_key)
        if sample is not None and len(self.samples) < 6:
            self.samples.append(sample)

    def bad(self, key, where, fn, msg, path=None):
        self.findings.append(Finding(key, where, fn, msg, path))

    def brk(self, msg):
        self.broken.append(msg)

    def status(self):
        if self.broken:
            return "BROKEN"
        if self.instances < self.floor:
            return "BROKEN"
        if self.findings:
            return "VIOLATION"
        return "ok"


class Ctx(object):
    """Lazy access to parsed programs per configuration."""

    def __init__(self, tier, repo=F.REPO):
        self.tier = tier
        self.repo = repo
        self._db = None
        self._progs = {}

    def db(self):
        if self._db is None:
            self._db = F.compdb(self.repo) if self.repo == F.REPO else self._db_for_scratch()
        return self._db

    def _db_for_scratch(self):
        base = F.compdb(F.REPO)
        out = {}
        for u, fl in base.items():
            out[u] = [x.replace("-I/repo", "-I" + self.repo) if x.startswith("-I/repo") else x for x in fl]
        return out

    def prog(self, units=None, config="build"):
        units = tuple(sorted(units or F.UNITS))
        k = (units, config)
        if k not in self._progs:
            facts = F.extract(units, config, self.repo, self.db())
            self._progs[k] = Program(facts, config)
        return self._progs[k]


def load_known():
    """known_findings.txt -> {property: {key: text}} for 'finding:' lines; 'fixed:' lines suppress nothing."""
    out = {}
    if not os.path.exists(KNOWN):
        return out
    for ln in open(KNOWN):
        ln = ln.strip()
        if not ln or ln.startswith("#"):
            continue
        if ln.startswith("finding:"):
            parts = ln[len("finding:"):].split()
            pid = key = None
            rest = []
            for p in parts:
                if p.startswith("property=") and pid is None:
                    pid = p[9:]
                elif p.startswith("key=") and key is None:
                    key = p[4:]
                else:
                    rest.append(p)
            if pid and key:
                out.setdefault(pid, {})[key] = " ".join(rest)
    return out


def run_property(pid, tier, repo=F.REPO, configs=None, quiet=False):
    """Runs the property module in each configuration; returns (rules_by_config, stats)."""
    mod = importlib.import_module("engine.props." + pid)
    ctx = Ctx(tier, repo)
    if configs is None:
        configs = ["build"] if tier == "quick" else getattr(mod, "CONFIGS", ["build", "assert", "reinsert", "nodebug", "nomm"])
    res = {}
    stats = {}
    for cfg in configs:
        try:
            rules = mod.run(ctx, cfg)
        except AnalysisBroken as ex:
            r = Rule(pid + "-anchor", "anchor", "anchors present", 1)
            r.brk(str(ex))
            rules = [r]
        res[cfg] = rules
        units = getattr(mod, "UNITS", None)
        try:
            stats[cfg] = ctx.prog(units, cfg).stats()
        except AnalysisBroken:
            stats[cfg] = {}
    return mod, res, stats


def main(argv):
    import argparse
    ap = argparse.ArgumentParser()
    ap.add_argument("pid")
    ap.add_argument("--tier", default=os.environ.get("VERIF_TIER", "quick"))
    ap.add_argument("--replay")
    ap.add_argument("--repo", default=F.REPO)
    ap.add_argument("--no-evidence", action="store_true")
    a = ap.parse_args(argv)
    pid, tier = a.pid, a.tier
    if tier not in ("quick", "thorough"):
        tier = "quick"
    seed = int(os.environ.get("VERIF_SEED", "0") or 0)
    t0 = time.time()
    try:
        mod, res, stats = run_property(pid, tier, a.repo)
    except Exception:
        traceback.print_exc()
        print("ANALYSIS-BROKEN property=%s (engine error)" % pid)
        return 2
    known = load_known().get(pid, {})
    broken = False
    new_findings = {}
    known_hit = {}
    total_inst = 0
    nontriv = set()
    rule_rows = []
    samples = []
    for cfg, rules in res.items():
        for r in rules:
            st = r.status()
            shown = {"VIOLATION": "findings", "BROKEN": "broken", "ok": "ok"}[st]
            if st == "VIOLATION" and all(f.key in known for f in r.findings):
                shown = "known-findings-only"
            print("RULE %s %s [%s] instances=%d floor=%d %s" % (r.id, r.kind, cfg, r.instances, r.floor, shown))
            for b in r.broken:
                print("  BROKEN: %s" % b)
            if r.instances < r.floor and not r.broken:
                print("  BROKEN: matched %d instances, floor is %d (anchor vanished or shape unrecognised)" % (r.instances, r.floor))
            for f in r.findings:
                print("  %s %s: %s: %s%s" % (f.where, f.fn, r.id, f.msg, (" [path: %s]" % f.path) if f.path else ""))
                if f.key in known:
                    known_hit[f.key] = f
                else:
                    new_findings.setdefault(f.key, (r, f))
            if st == "BROKEN":
                broken = True
            total_inst += r.instances
            nontriv |= set((r.id, k) for k in r.nontrivial)
            rule_rows.append({"rule": r.id, "kind": r.kind, "config": cfg, "desc": r.desc, "instances": r.instances,
                              "floor": r.floor, "status": st, "findings": [f.to_json() for f in r.findings],
                              "notes": r.notes})
            if cfg == list(res.keys())[0]:
                for s in r.samples[:3]:
                    samples.append({"rule": r.id, "instance": s})
    for k, f in known_hit.items():
        print("KNOWN-FINDING: property=%s key=%s %s (%s)" % (pid, k, known[k], f.where))
    mut_rows = None
    if tier == "thorough" and not a.replay and a.repo == F.REPO:
        from . import mutants
        mut_rows, mut_broken = mutants.run(pid)
        for m in mut_rows:
            print("MUTANT %s %s" % (m["patch"], "detected" if m["detected"] else "MISSED"))
        if mut_broken:
            broken = True
            print("  BROKEN: a seeded self-test mutant was not detected")
        eq_rows, eq_broken = mutants.run_equivalents(pid)
        for m in eq_rows:
            print("EQUIVALENT %s %s" % (m["patch"], "silent" if m["silent"] else "FALSE-ALARM %s" % (m.get("false_alarms") or m.get("error") or "analysis broken")))
        if eq_broken:
            broken = True
            print("  BROKEN: the check raises an alarm on a behaviour-preserving rewrite (selftest/equivalents)")
        if eq_rows:
            mut_rows = list(mut_rows) + [dict(m, kind="equivalent") for m in eq_rows]
    wall = time.time() - t0
    replay_path = None
    if new_findings:
        os.makedirs(os.path.join(VERIF, "evidence", "replay"), exist_ok=True)
        h = hashlib.sha1("|".join(sorted(new_findings)).encode()).hexdigest()[:10]
        replay_path = os.path.join(VERIF, "evidence", "replay", "%s-%s.json" % (pid, h))
        with open(replay_path, "w") as fh:
            json.dump({"property": pid, "findings": [dict(f.to_json(), rule=r.id) for r, f in new_findings.values()]}, fh, indent=1)
    # evidence
    if not a.no_evidence and a.repo == F.REPO and not a.replay:
        level = getattr(mod, "LEVEL", "other")
        first = stats.get(list(res.keys())[0], {})
        cov = {
            "explanation": getattr(mod, "EXPLANATION", ""),
            "evaluations": total_inst,
            "distinct_nontrivial": len(nontriv),
            "rule": getattr(mod, "NONTRIVIAL_RULE", "instances are enumerated from the parsed program by each rule's anchor query; "
                            "an instance is non-trivial when deciding it needed at least one dominance / path / dataflow / table-model "
                            "fact (not mere existence); distinct = distinct (rule, site) pairs"),
            "samples": samples[:12] if samples else [{"note": "no instance samples recorded"}],
            "units": first.get("units"), "functions": first.get("functions"), "cfg_blocks": first.get("cfg_blocks"),
            "configs": list(res.keys()),
            "rules": rule_rows,
            "trusted_base": getattr(mod, "TRUSTED", ["clang 14 parser/AST/CFG", "tools/lvx.cc", "engine/*.py", "rule tables in engine/props/%s.py" % pid]),
            "exhaustive": bool(getattr(mod, "EXHAUSTIVE", False)),
            "known_findings_matched": sorted(known_hit),
            "analysis_broken": broken,
        }
        if mut_rows is not None:
            cov["mutants"] = mut_rows
        if level == "proof":
            ob = sum(getattr(r, "obligations", r.instances) for r in res[list(res.keys())[0]])
            dis = sum(getattr(r, "discharged", r.instances if r.status() == "ok" else 0) for r in res[list(res.keys())[0]])
            cov["obligations"] = ob
            cov["discharged"] = dis
            cov["checker_cmd"] = "./check %s --tier %s" % (pid, tier)
        ev = {"property_id": pid, "tier": tier, "seed": seed, "level": level, "coverage": cov,
              "assumptions": getattr(mod, "ASSUMPTIONS", []), "wall_s": round(wall, 3),
              "violations": len(new_findings)}
        os.makedirs(os.path.join(VERIF, "evidence"), exist_ok=True)
        tmp = os.path.join(VERIF, "evidence", pid + ".json.tmp")
        with open(tmp, "w") as fh:
            json.dump(ev, fh, indent=1)
        os.replace(tmp, os.path.join(VERIF, "evidence", pid + ".json"))
    if a.replay:
        want = json.load(open(a.replay))
        keys = set(f["key"] for f in want.get("findings", []))
        allf = set()
        for rules in res.values():
            for r in rules:
                allf |= set(f.key for f in r.findings)
        still = keys & allf
        if still:
            print("VIOLATION property=%s replay=%s" % (pid, a.replay))
            return 1
        print("replay: none of the %d recorded findings is present on this tree" % len(keys))
        return 2 if broken else 0
    if new_findings:
        print("VIOLATION property=%s replay=%s" % (pid, replay_path))
        return 1
    if broken:
        print("ANALYSIS-BROKEN property=%s" % pid)
        return 2
    print("PASS property=%s tier=%s rules=%d instances=%d wall=%.1fs" % (pid, tier, len(rule_rows), total_inst, wall))
    return 0
