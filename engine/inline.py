"""Normalisation before analysis: a static function that the reference tree does not have (selftest/baseline_functions.json), that is called from exactly one place in its unit and whose
address is never taken, is a private helper somebody extracted from its caller.  It is spliced back into the caller's control-flow graph (parameters become initialised locals, returns
become an assignment to a result variable and a jump behind the call), and disappears as a function.  The rules then see the caller as it was before the extraction; on the reference tree
nothing is inlined.  Without the baseline file nothing is inlined either."""
import copy, json, os

BASELINE = os.path.join(os.path.dirname(os.path.dirname(os.path.abspath(__file__))), "selftest", "baseline_functions.json")


def _walk(e):
    if isinstance(e, list):
        yield e
        for x in e:
            for y in _walk(x):
                yield y


def _rename(e, prefix, names, subst=None):
    """rename variables of the helper (params and locals) inside an expression tree; parameters in subst are replaced by the caller's variable"""
    if not isinstance(e, list):
        return e
    if len(e) >= 3 and e[0] == "var" and isinstance(e[1], str) and e[1] in names and e[2] in ("local", "param"):
        if subst and e[1] in subst:
            return copy.deepcopy(subst[e[1]])
        return ["var", prefix + e[1], "local"] + e[3:]
    if len(e) >= 2 and e[0] == "decl" and isinstance(e[1], str) and e[1] in names:
        return ["decl", prefix + e[1]] + [_rename(x, prefix, names, subst) for x in e[2:]]
    return [_rename(x, prefix, names, subst) for x in e]


def _replace(e, old, new):
    if e == old:
        return copy.deepcopy(new)
    if isinstance(e, list):
        return [_replace(x, old, new) for x in e]
    return e


def _call_sites(fd, name):
    out = []
    for b in fd.get("blocks", []):
        for i, el in enumerate(b["elems"]):
            e = el["e"]
            if isinstance(e, list) and e and e[0] == "call" and isinstance(e[1], list) and e[1][:2] == ["fn", name]:
                out.append((b, i))
    return out


def _mentions_call(e, name):
    return any(isinstance(q, list) and len(q) > 1 and q[0] == "call" and isinstance(q[1], list) and q[1][:2] == ["fn", name] for q in _walk(e))


def inline_unit(unit, baseline):
    fns = {}
    for fd in unit["functions"]:
        fns.setdefault(fd["name"], fd)
    taken = set(r["fn"] for r in unit.get("fnrefs", []))
    done = []
    for g in list(unit["functions"]):
        name = g["name"]
        if name in baseline or not g.get("static") or name in taken or "blocks" not in g:
            continue
        if g.get("file", "").endswith(".h"):
            continue        # an extracted helper lives next to its caller; a new inline function in a header is analysed as a function
        sites = []
        for fd in unit["functions"]:
            if fd is g or "blocks" not in fd:
                continue
            for b, i in _call_sites(fd, name):
                sites.append((fd, b, i))
        if not (1 <= len(sites) <= 3) or _call_sites(g, name) or (len(sites) > 1 and len(g["blocks"]) > 16):
            continue
        ok_all = True
        for nsite in range(len(sites)):
            cur = []
            for fd in unit["functions"]:
                if fd is g or "blocks" not in fd:
                    continue
                for b, i in _call_sites(fd, name):
                    cur.append((fd, b, i))
            if not cur:
                break
            if not _splice(unit, g, name, cur[0], "%s$%s" % (name, ("%d$" % nsite) if len(sites) > 1 else "")):
                ok_all = False
                break
            done.append((name, cur[0][0]["name"]))
        if ok_all:
            unit["functions"].remove(g)
    return done


def _splice(unit, g, name, site, prefix):
    if True:
        f, B, k = site
        # the value of the call may be used by the element that follows it or by the block's terminator - nowhere else
        call_e = B["elems"][k]["e"]
        later = B["elems"][k + 2:]
        if any(_mentions_call(el["e"], name) and el["e"] == call_e for el in later):
            return False
        names = set(p[0] for p in g["params"]) | set(l[0] for l in g.get("locals", []))
        off = max(b["id"] for b in f["blocks"]) + 1
        post_id = off
        off += 1
        idmap = dict((b["id"], b["id"] + off) for b in g["blocks"])
        nmax = max([el.get("n", 0) for b in f["blocks"] for el in b["elems"]] + [0]) + 1
        retv = ["var", prefix + "ret", "local"]
        loc = B["elems"][k].get("loc", [0, 0])
        # the part of B behind the call
        post = {"id": post_id, "elems": B["elems"][k + 1:], "succ": B["succ"], "label": None}
        if B.get("term") is not None:
            post["term"] = B["term"]
        if B.get("noreturn"):
            post["noreturn"] = True
        if post["elems"] and _mentions_call(post["elems"][0]["e"], name):
            post["elems"][0] = dict(post["elems"][0], e=_replace(post["elems"][0]["e"], call_e, retv))
        elif post.get("term") and _mentions_call(post["term"].get("cond"), name):
            post["term"] = dict(post["term"], cond=_replace(post["term"]["cond"], call_e, retv))
        # B: what precedes the call, then the parameters bound to the arguments.  A parameter that the helper never modifies (no store, no address taken) and whose argument is a plain
        # variable of the caller IS that variable: it is substituted, so that the spliced code reads as it did before the extraction
        modified = set()
        for gb in g["blocks"]:
            for el in gb["elems"]:
                for q in _walk(el["e"]):
                    if isinstance(q, list) and q:
                        tgt = None
                        if q[0] == "asg" and len(q) > 2:
                            tgt = q[2]
                        elif q[0] == "incdec" and len(q) > 3:
                            tgt = q[3]
                        elif q[0] == "addr" and len(q) > 1:
                            tgt = q[1]
                        while isinstance(tgt, list) and tgt and tgt[0] in ("cast", "paren"):
                            tgt = tgt[-1]
                        if isinstance(tgt, list) and len(tgt) > 2 and tgt[0] == "var":
                            modified.add(tgt[1])
        subst = {}
        caller_stores = set()
        binds = []
        for (pn, pt), a in zip(g["params"], call_e[2]):
            a0 = a
            while isinstance(a0, list) and a0 and a0[0] in ("cast", "paren"):
                a0 = a0[-1]
            if pn not in modified and isinstance(a0, list) and len(a0) > 2 and a0[0] == "var" and a0[2] in ("local", "param"):
                subst[pn] = copy.deepcopy(a0)
                continue
            if pn not in modified and isinstance(a0, list) and a0 and all(q[0] in ("int", "bin", "un", "cast", "paren") for q in _walk(a0) if isinstance(q, list) and q and isinstance(q[0], str)):
                subst[pn] = copy.deepcopy(a0)      # a constant argument (`EV_WRITE`) is the constant
                continue
            binds.append({"e": ["decl", prefix + pn, pt, copy.deepcopy(a)], "loc": loc, "n": nmax})
            nmax += 1
        # a helper local that is initialised once, never modified, from the very expression a never-modified caller local is initialised from, is that local (`bufev = &priv->bev` again)
        def _modified_in(blocks):
            out = set()
            for bb in blocks:
                for el in bb["elems"]:
                    for q in _walk(el["e"]):
                        if isinstance(q, list) and q:
                            tgt = None
                            if q[0] == "asg" and len(q) > 2:
                                tgt = q[2]
                            elif q[0] == "incdec" and len(q) > 3:
                                tgt = q[3]
                            elif q[0] == "addr" and len(q) > 1:
                                tgt = q[1]
                            while isinstance(tgt, list) and tgt and tgt[0] in ("cast", "paren"):
                                tgt = tgt[-1]
                            if isinstance(tgt, list) and len(tgt) > 2 and tgt[0] == "var":
                                out.add(tgt[1])
            return out
        cmod = _modified_in(f["blocks"])
        caller_init = {}
        for bb in f["blocks"]:
            for el in bb["elems"]:
                e = el["e"]
                if isinstance(e, list) and e and e[0] == "decl" and len(e) > 3 and e[3] is not None and e[1] not in cmod:
                    caller_init.setdefault(json.dumps(e[3]), ["var", e[1], "local"])
        dropped = set()
        for gb in g["blocks"]:
            for el in gb["elems"]:
                e = el["e"]
                if isinstance(e, list) and e and e[0] == "decl" and len(e) > 3 and e[3] is not None and e[1] not in modified and e[1] in names:
                    init = _rename(copy.deepcopy(e[3]), prefix, names, subst)
                    hit = caller_init.get(json.dumps(init))
                    if hit is not None:
                        subst_local = hit
                        subst[e[1]] = subst_local
                        dropped.add(e[1])
        B["elems"] = B["elems"][:k] + binds
        B["succ"] = [[idmap[g["entry"]], ""]]
        B.pop("term", None)
        B.pop("noreturn", None)
        # the helper's blocks
        for gb in g["blocks"]:
            nb = {"id": idmap[gb["id"]], "elems": [], "succ": [[idmap[s], l] for s, l in gb["succ"] if s is not None], "label": gb.get("label")}
            if gb.get("term") is not None:
                nb["term"] = dict(gb["term"], cond=_rename(copy.deepcopy(gb["term"].get("cond")), prefix, names, subst)) if "cond" in gb["term"] else copy.deepcopy(gb["term"])
            if gb.get("noreturn"):
                nb["noreturn"] = True
            returned = False
            for el in gb["elems"]:
                if isinstance(el["e"], list) and el["e"] and el["e"][0] == "decl" and el["e"][1] in dropped:
                    continue
                e = _rename(copy.deepcopy(el["e"]), prefix, names, subst)
                if e and e[0] == "ret":
                    if len(e) > 1 and e[1] is not None:
                        nb["elems"].append(dict(el, e=["asg", "=", retv, e[1]], n=nmax))
                        nmax += 1
                    returned = True
                    break
                nb["elems"].append(dict(el, e=e, n=nmax))
                nmax += 1
            if returned or gb["id"] == g.get("exit"):
                nb["succ"] = [[post_id, ""]]
                nb.pop("term", None)
            f["blocks"].append(nb)
        f["blocks"].append(post)
        f["locals"] = f.get("locals", []) + [[prefix + pn, pt, loc[0]] for pn, pt in g["params"]] + [[prefix + l[0], l[1], l[2] if len(l) > 2 else 0] for l in g.get("locals", [])] + [[prefix + "ret", g.get("ret", "int"), loc[0]]]
        return True


def normalise(facts):
    """facts: {unit: fact dict}; returns the list of (helper, caller) pairs that were spliced"""
    if not os.path.exists(BASELINE):
        return []
    try:
        baseline = set(json.load(open(BASELINE)))
    except Exception:
        return []
    done = []
    for u, f in facts.items():
        for _ in range(4):          # a helper of a helper
            d = inline_unit(f, baseline)
            if not d:
                break
            done += d
    return done
