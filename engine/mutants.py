"""Self-test: each seeded mutant (selftest/mutants/<ID>-*.patch, a change to /repo that still compiles) is applied
to a scratch copy of the library sources (never to /repo), the property's rules are re-run on the copy, and
the mutant counts as detected iff a finding appears that is not present on the unchanged tree. Inner output
is captured; nothing here prints a VIOLATION line."""
import glob, os, shutil, subprocess, tempfile, io, contextlib
from . import facts as F


def scratch_copy():
    d = tempfile.mkdtemp(prefix="verif-mut-")
    for name in os.listdir(F.REPO):
        p = os.path.join(F.REPO, name)
        if name in ("include", "compat"):
            shutil.copytree(p, os.path.join(d, name))
        elif os.path.isfile(p) and name.endswith((".c", ".h")):
            shutil.copy(p, os.path.join(d, name))
    return d


def findings_on(pid, repo, configs=("build",)):
    from . import core
    buf = io.StringIO()
    with contextlib.redirect_stdout(buf):
        mod, res, stats = core.run_property(pid, "quick", repo, list(configs))
    keys = set()
    broken = False
    for rules in res.values():
        for r in rules:
            keys |= set(f.key for f in r.findings)
            if r.status() == "BROKEN":
                broken = True
    return keys, broken


def run(pid):
    pats = sorted(glob.glob(os.path.join(F.VERIF, "selftest", "mutants", pid + "-*.patch")))
    rows = []
    bad = False
    if not pats:
        return rows, False
    base, _ = findings_on(pid, F.REPO)
    for p in pats:
        d = scratch_copy()
        try:
            r = subprocess.run(["patch", "-p1", "-s", "-d", d, "-i", p], stdout=subprocess.PIPE, stderr=subprocess.STDOUT)
            if r.returncode != 0:
                rows.append({"patch": os.path.basename(p), "detected": False, "error": "patch does not apply: " + r.stdout.decode()[-300:]})
                bad = True
                continue
            keys, broken = findings_on(pid, d)
            new = sorted(keys - base)
            det = bool(new) or broken
            rows.append({"patch": os.path.basename(p), "detected": det, "new_findings": new[:5], "analysis_broken": broken})
            if not det:
                bad = True
        finally:
            shutil.rmtree(d, ignore_errors=True)
            for c in glob.glob(os.path.join(F.BUILD, "facts", "*-" + __import__("hashlib").sha1(d.encode()).hexdigest()[:8])):
                shutil.rmtree(c, ignore_errors=True)
    return rows, bad


def run_equivalents(pid):
    """the other direction: selftest/equivalents/<pid>-eq-*.patch are behaviour-preserving rewrites (together they build and pass the baseline programs and the replays).  The property's
    rules must report nothing new on them and must not break: a report is a false alarm of the checker."""
    pats = sorted(glob.glob(os.path.join(F.VERIF, "selftest", "equivalents", pid + "-*.patch")))
    rows = []
    bad = False
    if not pats:
        return rows, False
    base, _ = findings_on(pid, F.REPO)
    for p in pats:
        d = scratch_copy()
        try:
            r = subprocess.run(["patch", "-p1", "-s", "-d", d, "-i", p], stdout=subprocess.PIPE, stderr=subprocess.STDOUT)
            if r.returncode != 0:
                rows.append({"patch": os.path.basename(p), "silent": False, "error": "patch does not apply: " + r.stdout.decode()[-300:]})
                bad = True
                continue
            keys, broken = findings_on(pid, d)
            new = sorted(keys - base)
            silent = not new and not broken
            rows.append({"patch": os.path.basename(p), "silent": silent, "false_alarms": new[:5], "analysis_broken": broken})
            if not silent:
                bad = True
        finally:
            shutil.rmtree(d, ignore_errors=True)
            for c in glob.glob(os.path.join(F.BUILD, "facts", "*-" + __import__("hashlib").sha1(d.encode()).hexdigest()[:8])):
                shutil.rmtree(c, ignore_errors=True)
    return rows, bad
