"""WebSocket message reassembly (C31): ws_evhttp_read_cb + get_ws_frame evaluated on an abstract input stream under segmentation.

The connection's input evbuffer is a byte string in the evaluation environment whose bytes also live in the abstract byte memory (the reader works on
the pointer evbuffer_pullup returns and unmasks in place); evws->incomplete_frames is a second abstract buffer; the user callback and the close are
recorded.  A frame sequence is fed in one piece, cut in two at every byte, and byte by byte; what is delivered must equal an RFC 6455 reference decoder."""
from .prog import *
from .prog import PPtr, PRef
from .interp import normx, nkey, run_all

INBASE = 3000000
INCBASE = 4000000
TEXT, BINARY, CLOSE, PING, PONG, CONT = 1, 2, 8, 9, 10, 0


def frame(fin, opcode, payload, mask=None):
    b = bytearray([(fin << 7) | opcode])
    n = len(payload)
    m = 0x80 if mask is not None else 0
    if n <= 125:
        b.append(m | n)
    elif n <= 65535:
        b.append(m | 126)
        b += n.to_bytes(2, "big")
    else:
        b.append(m | 127)
        b += n.to_bytes(8, "big")
    if mask is not None:
        b += bytes(mask)
        payload = bytes(c ^ mask[i % 4] for i, c in enumerate(payload))
    return bytes(b) + payload


def reference(frames):
    """RFC 6455 5.4: -> list of ('msg', type, payload) then optional ('close',); malformed fragmentation / reserved opcodes close without delivering"""
    out = []
    cur = None
    for fin, op, payload in frames:
        if op in (3, 4, 5, 6, 7) or op >= 0xB:
            return out + [("close",)]
        if op >= 8:
            if not fin or len(payload) > 125:
                return out + [("close",)]
            if op == CLOSE:
                return out + [("close",)]
            continue                      # ping/pong: not delivered to the message callback
        if op == CONT:
            if cur is None:
                return out + [("close",)]
            cur[1] += payload
            if fin:
                out.append(("msg", cur[0], bytes(cur[1])))
                cur = None
            continue
        if cur is not None:
            return out + [("close",)]     # a new data frame while a fragmented message is in progress
        if fin:
            out.append(("msg", op, payload))
        else:
            cur = [op, bytearray(payload)]
    return out


class Conn(object):
    def __init__(self):
        self.stream = b""       # everything received so far
        self.consumed = 0       # bytes the reader drained from the input buffer
        self.inc = None         # contents of evws->incomplete_frames (None = no buffer)
        self.mem = {}           # abstract memory (unmasking happens in place)
        self.events = []
        self.closed = 0
        self.extra = {}         # further fields of struct evws_connection kept between calls


def step(P, c, data):
    """the bytes `data` arrive; one call of ws_evhttp_read_cb.  Returns None or ('unknown', why)"""
    f = P.fn("ws_evhttp_read_cb")
    for j, bv in enumerate(data):
        c.mem[("m", INBASE + len(c.stream) + j)] = bv
    c.stream += data
    E = lambda fl: ("@", "ws", "evws_connection.%s" % fl)
    env = dict(c.mem)
    env.update({"#typed": 1, "#bytemem": 1, "event_debug_logging_mask_": 0, f.params[0][0]: 5, f.params[1][0]: PPtr("ws"), ("@", "ws", "#zero"): 1,
                E("bufev"): 5, E("cb"): 11, E("cb_arg"): 12, E("incomplete_frames"): (PPtr("incbuf") if c.inc is not None else 0), E("closed"): c.closed,
                "#consumed": c.consumed, "#avail": len(c.stream), "#inc": c.inc, "#events": (), "#incgen": 0})
    for k, v in c.extra.items():
        env[k] = v

    def hook(el, e_):
        n = callee_name(el.e)
        a = el.e[2]
        try:
            if n is None:
                # the user's message callback: evws->cb(evws, type, data, len, arg)
                if len(a) >= 4:
                    ty, p, ln = evalx(normx(a[1]), e_, P), evalx(normx(a[2]), e_, P), evalx(normx(a[3]), e_, P)
                    bs = []
                    for j in range(ln if isinstance(ln, int) and 0 <= ln < 100000 else 0):
                        if ("m", p + j) not in e_:
                            e_["#err"] = "callback given byte %d that holds no data" % (p + j)
                            return "impure"
                        bs.append(e_[("m", p + j)])
                    e_["#events"] = e_["#events"] + (("msg", ty, bytes(bs)),)
                    return 0
                return "impure"
            if n == "bufferevent_get_input":
                return 77
            if n in ("bufferevent_incref_and_lock_", "bufferevent_decref_and_unlock_", "event_warn", "event_warnx"):
                return 0
            if n == "evbuffer_get_length":
                h = evalx(normx(a[0]), e_, P)
                if h == 77:
                    return e_["#avail"] - e_["#consumed"]
                if isinstance(h, PPtr) and h.id == "incbuf":
                    return len(e_["#inc"] or b"")
                return "impure"
            if n == "evbuffer_pullup":
                h = evalx(normx(a[0]), e_, P)
                if h == 77:
                    return (INBASE + e_["#consumed"]) if e_["#avail"] - e_["#consumed"] > 0 else 0
                if isinstance(h, PPtr) and h.id == "incbuf":
                    gen = e_["#incgen"] + 1
                    e_["#incgen"] = gen
                    base = INCBASE + gen * 100000
                    for j, bv in enumerate(e_["#inc"] or b""):
                        e_[("m", base + j)] = bv
                    return base if e_["#inc"] else 0
                return "impure"
            if n == "evbuffer_drain":
                h = evalx(normx(a[0]), e_, P)
                cnt = evalx(normx(a[1]), e_, P)
                if h != 77 or not isinstance(cnt, int) or cnt < 0:
                    return "impure"
                e_["#consumed"] = min(e_["#avail"], e_["#consumed"] + cnt)
                return 0
            if n in ("evbuffer_remove_buffer", "evbuffer_add", "evbuffer_add_buffer"):
                if n == "evbuffer_remove_buffer":
                    src, dst, cnt = evalx(normx(a[0]), e_, P), evalx(normx(a[1]), e_, P), evalx(normx(a[2]), e_, P)
                    if src != 77 or not (isinstance(dst, PPtr) and dst.id == "incbuf"):
                        return "impure"
                    cnt = min(cnt, e_["#avail"] - e_["#consumed"])
                    bs = bytes(e_[("m", INBASE + e_["#consumed"] + j)] for j in range(cnt))
                    e_["#consumed"] += cnt
                    e_["#inc"] = (e_["#inc"] or b"") + bs
                    return cnt
                if n == "evbuffer_add":
                    dst, p, cnt = evalx(normx(a[0]), e_, P), evalx(normx(a[1]), e_, P), evalx(normx(a[2]), e_, P)
                    if not (isinstance(dst, PPtr) and dst.id == "incbuf"):
                        return "impure"
                    bs = []
                    for j in range(cnt):
                        if ("m", p + j) not in e_:
                            e_["#err"] = "evbuffer_add reads byte %d that holds no data" % (p + j)
                            return "impure"
                        bs.append(e_[("m", p + j)])
                    e_["#inc"] = (e_["#inc"] or b"") + bytes(bs)
                    return 0
                return "impure"
            if n == "evbuffer_new":
                e_["#inc"] = b""
                return PPtr("incbuf")
            if n == "evbuffer_free":
                e_["#inc"] = None
                return 0
            if n in ("evws_force_disconnect_", "evws_close"):
                e_["#events"] = e_["#events"] + (("close",),)
                e_[("@", "ws", "evws_connection.closed")] = 1
                return 0
            if n == "get_ws_frame":
                return "call"
            if n in ("memcpy", "__builtin_memcpy", "__builtin___memcpy_chk"):
                d = strip(a[0])
                src = evalx(normx(a[1]), e_, P)
                cnt = evalx(normx(a[2]), e_, P)
                if is_e(d, "addr") and is_e(strip(d[1]), "var") and isinstance(src, int):
                    e_[strip(d[1])[1]] = sum(e_[("m", src + j)] << (8 * j) for j in range(cnt))
                    return 0
                return "impure"
            if n in ("ntohs", "__bswap_16"):
                v = evalx(normx(a[0]), e_, P)
                return ((v & 0xff) << 8) | ((v >> 8) & 0xff)
        except EvalError as ex:
            e_["#err"] = str(ex)
            return "impure"
        except KeyError as ex:
            e_["#err"] = "read of memory %s that holds no data" % (ex,)
            return "impure"
        return None
    outs = [o for o in run_all(f, (f.entry, 0), env, lambda el: False, P, hook, max_steps=60000) if not (o.kind == "exit" and o.why == "noreturn")]
    res = set()
    for o in outs:
        if o.kind == "unknown":
            return ("unknown", "%s %s" % (o.why, o.env.get("#err", "")))
        res.add((o.env["#events"], o.env["#consumed"], o.env["#inc"], o.env.get(("@", "ws", "evws_connection.closed")),
                 tuple(sorted((k, v) for k, v in o.env.items() if isinstance(k, tuple) and len(k) == 3 and k[0] == "@" and k[1] == "ws" and not k[2].startswith("#")
                              and k[2].split(".")[-1] not in ("bufev", "cb", "cb_arg", "incomplete_frames", "closed")))))
    if len(res) != 1:
        return ("unknown", "%d outcomes" % len(res))
    ev, c.consumed, c.inc, c.closed, extra = list(res)[0]
    c.extra = dict(extra)
    # unmasking happened in memory: keep it
    o = outs[0]
    for k, v in o.env.items():
        if isinstance(k, tuple) and len(k) == 2 and k[0] == "m" and INBASE <= k[1] < INCBASE:
            c.mem[k] = v
    c.events += list(ev)
    return None


def feed(P, stream, cuts):
    c = Conn()
    pos = 0
    for k in list(cuts) + [len(stream)]:
        if c.closed:
            break       # evws_close() replaces the read callback (checked by the rule): later bytes are not looked at
        if k > pos:
            u = step(P, c, stream[pos:k])
            if u is not None:
                return u
            pos = k
    return c.events
