"""Chunked-body reader of http.c under segmentation (shared by C23 and C24).

evhttp_read_body (chunked branch) and evhttp_handle_chunked_read are evaluated from their extracted CFGs (typed C semantics) on an
abstract input buffer: the evbuffer calls they make (get_length, readln, remove_buffer, drain) act on a byte string held in the
evaluation environment.  A message is fed in one piece, cut in two at every byte position, and byte by byte; the terminal action
(trailer stage reached / failure / "request complete"), the body delivered and the bytes left for the trailer stage must not
depend on the segmentation, and must be what RFC 9112 section 7.1 prescribes for the message.
"""
from .prog import *
from .prog import PStr
from .interp import normx, nkey, run_all

BUF = 77          # abstract handle of the connection's input evbuffer
BODY = 78         # abstract handle of req->input_buffer


def strtoll_model(text, base):
    """(value, bytes consumed) like strtoll(3) without range clamping of the digits run"""
    i = 0
    while i < len(text) and text[i] in b" \t\n\v\f\r":
        i += 1
    sign = 1
    if i < len(text) and text[i] in b"+-":
        sign = -1 if text[i:i + 1] == b"-" else 1
        i += 1
    if base == 16 and text[i:i + 2].lower() == b"0x" and i + 2 < len(text) and chr(text[i + 2]) in "0123456789abcdefABCDEF":
        i += 2
    digs = b"0123456789abcdefghijklmnopqrstuvwxyz"[:base]
    j = i
    while j < len(text) and bytes([text[j]]).lower() in [bytes([d]) for d in digs]:
        j += 1
    if j == i:
        return 0, 0
    v = sign * int(text[i:j], base)
    v = max(-(1 << 63), min((1 << 63) - 1, v))
    return v, j


class Feed(object):
    """state of one message exchange across calls of evhttp_read_body"""
    def __init__(self):
        self.buf = b""
        self.body = b""
        self.ntoread = -1
        self.body_size = 0
        self.terminal = None


def step(P, st, data, max_body=(1 << 64) - 1):
    """append `data` to the input buffer and evaluate one evhttp_read_body call; returns None or ('unknown', why)"""
    f = P.fn("evhttp_read_body")
    g = P.fn("evhttp_handle_chunked_read")
    evcon = ["var", f.params[0][0], "param"]
    req = ["var", f.params[1][0], "param"]
    greq = ["var", g.params[0][0], "param"]

    def rk(base, fld):
        return nkey(["fld", base, "evhttp_request.%s" % fld, "->"])

    def mk(base):
        return nkey(["fld", ["fld", base, "evhttp_request.evcon", "->"], "evhttp_connection.max_body_size", "->"])
    st.buf += data

    def common(el, e_):
        n = callee_name(el.e)
        a = el.e[2]
        try:
            if n == "evbuffer_get_length":
                h = evalx(normx(a[0]), e_, P)
                return len(e_["#buf"]) if h == BUF else (len(e_["#body"]) if h == BODY else "impure")
            if n == "evbuffer_readln":
                b = e_["#buf"]
                i = b.find(b"\n")
                if i < 0:
                    return 0
                line = b[:i]
                if line.endswith(b"\r"):
                    line = line[:-1]
                e_["#buf"] = b[i + 1:]
                return PStr(line)
            if n in ("evbuffer_remove_buffer", "evbuffer_drain"):
                h = evalx(normx(a[0]), e_, P)
                cnt = evalx(normx(a[-1]), e_, P)
                if not isinstance(cnt, int) or cnt < 0:
                    return "impure"
                src = "#buf" if h == BUF else ("#body" if h == BODY else None)
                if src is None:
                    return "impure"
                cnt = min(cnt, len(e_[src]))
                if n == "evbuffer_remove_buffer":
                    e_["#body"] = e_["#body"] + e_[src][:cnt]
                e_[src] = e_[src][cnt:]
                return cnt if n == "evbuffer_remove_buffer" else 0
            if n == "evbuffer_add_buffer":
                e_["#body"] = e_["#body"] + e_["#buf"]
                e_["#buf"] = b""
                return 0
            if n in ("evutil_strtoll", "strtoll"):
                p = evalx(normx(a[0]), e_, P)
                base = evalx(normx(a[2]), e_, P)
                if not isinstance(p, PStr):
                    return "impure"
                v, used = strtoll_model(p.text(), base)
                endp = strip(a[1])
                if is_e(endp, "addr") and is_e(strip(endp[1]), "var"):
                    e_[strip(endp[1])[1]] = p + used
                return v
            if n == "__ctype_b_loc":
                return "ctype_loc"
            if n in ("event_mm_free_", "bufferevent_disable"):
                return 0
            if n == "bufferevent_get_input":
                return BUF
        except EvalError:
            return "impure"
        return None

    def hook(el, e_):
        n = callee_name(el.e)
        if n == "evhttp_handle_chunked_read":
            env2 = {"#typed": 1, greq[1]: 1, g.params[1][0]: BUF, "#buf": e_["#buf"], "#body": e_["#body"], "event_debug_logging_mask_": 0,
                    rk(greq, "ntoread"): e_.get(rk(req, "ntoread")), rk(greq, "body_size"): e_.get(rk(req, "body_size")), rk(greq, "flags"): 0,
                    rk(greq, "chunk_cb"): 0, rk(greq, "input_buffer"): BODY, mk(greq): e_.get(mk(req))}
            alts = []
            for o2 in run_all(g, (g.entry, 0), env2, lambda x: False, P, common, max_steps=4000):
                if o2.kind == "exit" and o2.why == "noreturn":
                    continue
                if o2.kind != "ret":
                    e_["#err"] = "evhttp_handle_chunked_read: %s %s" % (o2.kind, o2.why)
                    return "impure"
                try:
                    rv = evalx(normx(o2.at.e[1]), o2.env, P)
                except EvalError as ex:
                    e_["#err"] = str(ex)
                    return "impure"
                alts.append((rv, {rk(req, "ntoread"): o2.env.get(rk(greq, "ntoread")), rk(req, "body_size"): o2.env.get(rk(greq, "body_size")), "#buf": o2.env["#buf"], "#body": o2.env["#body"]}))
            return alts or "impure"
        if n in ("evhttp_read_trailer", "evhttp_connection_fail_", "evhttp_connection_done", "evhttp_lingering_fail", "evhttp_request_free_auto"):
            e_["#term"] = e_.get("#term", ()) + ({"evhttp_read_trailer": "trailer", "evhttp_connection_done": "done", "evhttp_request_free_auto": "free"}.get(n, "fail"),)
            return 0
        return common(el, e_)
    env = {"#typed": 1, evcon[1]: 1, req[1]: 1, "#buf": st.buf, "#body": st.body, "event_debug_logging_mask_": 0,
           rk(req, "chunked"): 1, rk(req, "ntoread"): st.ntoread, rk(req, "body_size"): st.body_size, rk(req, "flags"): 0, rk(req, "chunk_cb"): 0,
           rk(req, "input_buffer"): BODY, mk(req): max_body}
    outs = [o for o in run_all(f, (f.entry, 0), env, lambda el: False, P, hook, max_steps=600) if not (o.kind == "exit" and o.why == "noreturn")]
    res = set()
    for o in outs:
        if o.kind == "unknown":
            return ("unknown", "%s %s" % (o.why, o.env.get("#err", "")))
        res.add((o.env.get("#term", ()), o.env["#buf"], o.env["#body"], o.env.get(rk(req, "ntoread")), o.env.get(rk(req, "body_size"))))
    if len(res) != 1:
        return ("unknown", "%d different outcomes" % len(res))
    term, st.buf, st.body, st.ntoread, st.body_size = list(res)[0]
    if term:
        st.terminal = term
    return None


def feed(P, msg, cuts):
    """feed msg in the pieces given by the sorted cut positions; returns (terminal, body, rest) or ('unknown', why)"""
    st = Feed()
    pos = 0
    pieces = []
    for c in list(cuts) + [len(msg)]:
        pieces.append(msg[pos:c])
        pos = c
    for k, piece in enumerate(pieces):
        if not piece and k > 0:
            continue
        u = step(P, st, piece)
        if u is not None:
            return u
        if st.terminal:
            # bytes not yet delivered stay in the socket: they belong to whatever reads next
            rest = st.buf + b"".join(pieces[k + 1:])
            return (st.terminal, st.body, rest)
    return ((), st.body, st.buf)


VALID = [
    (b"5\r\nhello\r\n3\r\nabc\r\n0\r\n\r\n", b"helloabc"),
    (b"1\r\na\r\n1\r\nb\r\n0\r\n\r\n", b"ab"),
    (b"A\r\n0123456789\r\n0\r\n\r\n", b"0123456789"),
    (b"a\r\n0123456789\r\n0\r\n\r\n", b"0123456789"),
    (b"005\r\nhello\r\n0\r\n\r\n", b"hello"),
    (b"0\r\n\r\n", b""),
    (b"2\r\n\r\n\r\n0\r\n\r\n", b"\r\n"),                 # chunk data that is itself CRLF
    (b"5;name=value\r\nhello\r\n0\r\n\r\n", b"hello"),     # chunk extension: MUST be ignored (RFC 9112 7.1.1)
    (b"5 ;name\r\nhello\r\n0;x\r\n\r\n", b"hello"),        # BWS before the extension
]
INVALID = [b"-5\r\nhello\r\n0\r\n\r\n", b"+5\r\nhello\r\n0\r\n\r\n", b"0x5\r\nhello\r\n0\r\n\r\n", b" 5\r\nhello\r\n0\r\n\r\n", b"5\r\nhello\r\nG\r\n0\r\n\r\n", b"5x\r\nhello\r\n0\r\n\r\n"]

# chunk sizes that do not fit the counter (RFC 9112 7.1: "recipients MUST anticipate potentially large hexadecimal numerals and prevent parsing errors due to integer conversion
# overflows"): 2^64+5 must not be read as 5, 2^63 not as a negative number that slips through.  Refusing the message or waiting for a chunk that cannot arrive are both fine;
# delivering body bytes or reaching the trailer stage is not.
OVERFLOW = [b"10000000000000005\r\nhello\r\n0\r\n\r\n", b"100000000000000000000000000000005\r\nhello\r\n0\r\n\r\n", b"8000000000000005\r\nhello\r\n0\r\n\r\n",
            b"ffffffffffffffff\r\nhello\r\n0\r\n\r\n", b"FFFFFFFFFFFFFFFFFFFFFFFB\r\nhello\r\n0\r\n\r\n", b"10000000000000000\r\n\r\n", b"00000000000000000000005\r\nhello\r\n0\r\n\r\n"]


def rule_chunked(P, rid, what):
    from .core import Rule
    r = Rule(rid, "K6", "chunked %s bodies: terminal action, body and leftover bytes are those of RFC 9112 7.1 and do not depend on how the stream is segmented" % what, floor=150)
    f = P.fn("evhttp_handle_chunked_read")
    nb = 0

    def report(key, msg, cuts, why):
        nonlocal nb
        if nb < 6:
            nb += 1
            r.bad(key, "%s:%d" % (f.file, f.line), f.name, "message %r %s: %s" % (msg, ("cut at %s" % list(cuts)) if cuts else "in one piece", why))
    for msg, body in VALID:
        tail = msg[msg.rfind(b"0"):]
        tail = tail[tail.find(b"\n") + 1:]            # what follows the last-chunk line: the trailer section + final CRLF
        want = (("trailer",), body, tail)
        segs = [()] + [(k,) for k in range(0, len(msg) + 1)] + [tuple(range(1, len(msg)))]
        for cuts in segs:
            got = feed(P, msg, cuts)
            if got[0] == "unknown":
                r.brk("chunked reader not evaluable on %r cut %s: %s" % (msg, list(cuts)[:3], got[1]))
                return r
            r.inst((msg, cuts), {"message": msg.decode("latin-1"), "cuts": list(cuts)[:4] + (["..."] if len(cuts) > 4 else []), "terminal": list(got[0]), "body": got[1].decode("latin-1"), "left": got[2].decode("latin-1")})
            if got != want:
                ext = b";" in msg
                key = "K6:evhttp_handle_chunked_read:%s" % ("chunk-extension-rejected" if ext and got[0] == ("fail",) else ("segmentation-dependent" if cuts and feed(P, msg, ()) == want else "valid-message-misread"))
                report(key, msg, cuts, "libevent: terminal %s body %r left %r; RFC 9112: %s body %r left %r" % (list(got[0]), got[1], got[2], list(want[0]), want[1], want[2]))
    for msg in INVALID:
        for cuts in [()] + [(k,) for k in range(1, len(msg))]:
            got = feed(P, msg, cuts)
            if got[0] == "unknown":
                r.brk("chunked reader not evaluable on %r: %s" % (msg, got[1]))
                return r
            r.inst((msg, cuts), {"message": msg.decode("latin-1"), "cuts": list(cuts), "terminal": list(got[0])})
            if got[0] != ("fail",):
                report("K6:evhttp_handle_chunked_read:invalid-chunk-size-accepted", msg, cuts, "not rejected (terminal %s)" % (list(got[0]),))
    for msg in OVERFLOW:
        zeros = msg.startswith(b"0000")           # the last one is a control: leading zeros are not an overflow, the size is 5
        for cuts in [()] + [(k,) for k in (1, msg.find(b"\r"), msg.find(b"\n") + 1, msg.find(b"\n") + 3) if 0 < k < len(msg)]:
            got = feed(P, msg, cuts)
            if got[0] == "unknown":
                r.brk("chunked reader not evaluable on %r: %s" % (msg, got[1]))
                return r
            r.inst((msg, cuts), {"message": msg.decode("latin-1"), "cuts": list(cuts), "terminal": list(got[0]), "body": got[1].decode("latin-1")})
            if zeros:
                if got[0] != ("trailer",) or got[1] != b"hello":
                    report("K6:evhttp_handle_chunked_read:valid-message-misread", msg, cuts, "a chunk size with leading zeros is not read as 5 (terminal %s, body %r)" % (list(got[0]), got[1]))
            elif got[0] not in (("fail",), ()) or got[1] != b"":
                report("K6:evhttp_handle_chunked_read:chunk-size-overflow", msg, cuts, "a chunk size that does not fit 63 bits is read as a small one: terminal %s, body %r delivered "
                       "(what follows would be parsed as the next message)" % (list(got[0]), got[1]))
    seen, uniq = set(), []
    for f_ in r.findings:
        if f_.key not in seen:
            seen.add(f_.key)
            uniq.append(f_)
    r.findings = uniq
    return r
