"""Static lockset ("held at this point") analysis for one lock class: must-held forward dataflow per function plus the
greatest fixpoint of "internal function only ever called with the lock held" (K1 `requires`)."""
from .prog import *


class Held(object):
    def __init__(self, P, lock_field, files, slot_held=()):
        """lock_field e.g. 'event_base.th_base_lock'.  slot_held: ops slots whose targets are invoked with the lock held."""
        self.P = P
        self.lock_field = lock_field
        self.fns = [f for f in P.all_fns if f.file in files]
        self.byname = {}
        for f in self.fns:
            self.byname.setdefault(f.name, f)
        self.slot_held = slot_held
        self._in = {}
        self.H = None

    # ---- lock events
    def event(self, el):
        """+1 acquire, -1 release, 0 none (of this lock class)"""
        if el.e[0] != "call":
            return 0
        c = el.e[1]
        if c[0] == "slot" and c[1] in ("evthread_lock_callbacks.lock", "evthread_lock_callbacks.unlock"):
            args = el.e[2]
            if len(args) >= 2 and any(is_e(q, "fld") and q[2] == self.lock_field for q in walk(args[1])):
                return 1 if c[1].endswith(".lock") else -1
        return 0

    def pruned_edge(self, f, b, lab):
        """the lock==NULL edge of the EVLOCK_LOCK/UNLOCK wrapper (world: locking enabled)"""
        t = b.term
        if not t or t.get("k") != "if" or not t.get("mac"):
            return False
        if not any(m in ("EVLOCK_LOCK", "EVLOCK_UNLOCK") for m in t["mac"]):
            return False
        c = strip(t["cond"])
        if any(is_e(q, "fld") and q[2] == self.lock_field for q in walk(c)) and not is_e(c, "bin"):
            return lab == "F"
        return False

    def solve(self, f, entry_held):
        k = (id(f), entry_held)
        if k in self._in:
            return self._in[k]
        IN = {f.entry: entry_held}
        order = f.rpo()
        changed = True
        while changed:
            changed = False
            for bid in order:
                if bid not in IN:
                    continue
                st = IN[bid]
                b = f.blocks[bid]
                for el in b.elems:
                    ev = self.event(el)
                    if ev > 0:
                        st = True
                    elif ev < 0:
                        st = False
                for s, lab in b.succ:
                    if self.pruned_edge(f, b, lab):
                        continue
                    new = st if s not in IN else (IN[s] and st)
                    if IN.get(s, None) != new:
                        IN[s] = new
                        changed = True
        self._in[k] = IN
        return IN

    def held_at(self, f, el, entry_held):
        IN = self.solve(f, entry_held)
        if el.bid not in IN:
            return True      # unreachable
        st = IN[el.bid]
        for x in f.blocks[el.bid].elems:
            if x is el:
                return st
            ev = self.event(x)
            if ev > 0:
                st = True
            elif ev < 0:
                st = False
        return st

    def held_at_term(self, f, bid, entry_held):
        IN = self.solve(f, entry_held)
        if bid not in IN:
            return True
        st = IN[bid]
        for x in f.blocks[bid].elems:
            ev = self.event(x)
            if ev > 0:
                st = True
            elif ev < 0:
                st = False
        return st

    # ---- interprocedural: functions only ever entered with the lock held
    def entry_held_set(self, never=(), exempt_callers=()):
        if self.H is not None:
            return self.H
        P = self.P
        callers = P.callers()
        # functions handed as an argument to an internal function that calls its parameter: their call sites are those indirect calls
        param_sites = {}
        refs_by_fn = {}
        for r_ in P.fnrefs:
            refs_by_fn.setdefault(r_["fn"], []).append(r_)
        for n, refs in refs_by_fn.items():
            sites = []
            ok = True
            for r_ in refs:
                c = r_["ctx"]
                if c.get("k") == "arg" and c["callee"][0] == "fn" and c["callee"][1] in self.byname and not self.byname[c["callee"][1]].public:
                    g = self.byname[c["callee"][1]]
                    idx = c.get("index")
                    if idx is None or idx >= len(g.params):
                        ok = False
                        break
                    pn = g.params[idx][0]
                    ps = [el for el in g.calls() if el.e[1][0] == "ptr" and any(is_e(q, "var") and q[1] == pn for q in walk(el.e[1]))]
                    if not ps:
                        ok = False
                        break
                    sites += [(g, el) for el in ps]
                else:
                    ok = False
                    break
            if ok and sites:
                param_sites[n] = sites
        addr_taken = set(refs_by_fn)
        slot_targets = set()
        for sl in self.slot_held:
            slot_targets |= P.slots().get(sl, set())
        # exempt closure: functions reachable only from exempt callers
        exempt = set(exempt_callers)
        grew = True
        while grew:
            grew = False
            for f in self.fns:
                if f.name in exempt or f.public:
                    continue
                cs = [g.name for g, el in callers.get(f.name, [])] + [g.name for g, el in param_sites.get(f.name, [])]
                if f.name in addr_taken and f.name not in param_sites:
                    continue
                if cs and all(c in exempt for c in cs):
                    exempt.add(f.name)
                    grew = True
        self.exempt = exempt
        cand = set()
        for f in self.fns:
            if f.public or f.name in never or f.name in exempt:
                continue
            if f.name in addr_taken and f.name not in slot_targets and f.name not in param_sites:
                continue
            cand.add(f.name)
        slot_sites = {}
        for g in P.all_fns:
            for el in g.calls():
                sl = callee_slot(el.e)
                if sl in self.slot_held:
                    for t in P.slots().get(sl, ()):
                        slot_sites.setdefault(t, []).append((g, el))
        exempt_callers = exempt
        changed = True
        H = set(cand)
        while changed:
            changed = False
            for n in sorted(H):
                sites = list(callers.get(n, [])) + slot_sites.get(n, []) + param_sites.get(n, [])
                if not [x for x in sites if x[0].name not in exempt_callers]:
                    H.discard(n)     # never called from analysed code: cannot assume anything
                    changed = True
                    continue
                for g, el in sites:
                    if g.name in exempt_callers:
                        continue      # object not yet / no longer shared
                    gh = g.name in H
                    self._in.pop((id(g), gh), None) if False else None
                    if not self.held_at(g, el, gh):
                        H.discard(n)
                        changed = True
                        break
        self.H = H
        return H
