"""Shared rules for the evdns encoders (C35, C36): output bounds, label limits, compression range, error propagation."""
from .core import Rule
from .prog import *
from .dnsparse import linear
from . import effects


def _unsigned_or_const(fn, k):
    if k == "const":
        return True
    # k is key(expr); accept variables whose declared type is unsigned / size_t
    if isinstance(k, tuple) and k and k[0] == "var":
        t = (fn.var_type(k[1]) or "").replace("const ", "")
        return any(x in t for x in ("size_t", "unsigned", "u16", "u8", "u32", "ev_uint"))
    if isinstance(k, tuple) and k and k[0] == "fld":
        return True
    return False


def implied(fn, have, need):
    """have >= need, judged syntactically: have - need is a non-negative combination of unsigned terms / constants"""
    d = dict(have)
    for k, v in need.items():
        d[k] = d.get(k, 0) - v
    for k, v in list(d.items()):
        if v == 0:
            del d[k]
    for k, v in d.items():
        if v < 0:
            return False
        if not _unsigned_or_const(fn, k):
            return False
    return True


def buffer_writes(fn, buf):
    """[(elem, index_expr, size_expr, what)] for writes through `buf` (parameter or local array)"""
    out = []
    seen = set()
    def isbuf(e):
        e = strip(e)
        return is_e(e, "var") and e[1] == buf
    for el in fn.elems():
        e = el.e
        if e[0] == "asg":
            l = strip(e[2])
            if is_e(l, "idx") and isbuf(l[1]):
                ix = strip(l[2])
                if is_e(ix, "incdec"):
                    ix = strip(ix[3])
                out.append((el, ix, ["int", 1, "1"], show(l)))
        if e[0] == "call" and callee_name(e) in ("memcpy", "memmove", "memset") and len(e[2]) >= 3:
            a = strip(e[2][0])
            if is_e(a, "bin") and a[1] == "+" and isbuf(a[2]):
                out.append((el, strip(a[3]), e[2][2], "%s(%s, .., %s)" % (callee_name(e), show(a), show(e[2][2]))))
    return out


def capacity_guard(fn, el, ix, size, length_names):
    """dominating guard `X > L` (false edge) or `X >= L` with X implying ix+size, allowing positive increments of the
    index variable between the guard and the write (they are added to the obligation)."""
    vs = [q[1] for q in walk(ix) if is_e(q, "var")]
    for c, t, b in fn.guards_at(el.bid):
        c2, t2 = negate_truth(c, t)
        c2 = strip(c2)
        if not (is_e(c2, "bin") and c2[1] in (">", ">=") and not t2):
            continue
        L = strip(c2[3])
        if not (is_e(L, "var") and L[1] in length_names):
            continue
        have = linear(c2[2])
        if c2[1] == ">=":
            have = linear(["bin", "+", c2[2], ["int", 1, "1"]])
        # stores to the index variables on the segment
        seg = fn.segment_blocks(b.id, el.bid)
        delta = {}
        ok = True
        for v in set(vs):
            for d, rhs in fn.var_stores(v):
                if d.bid not in seg or d.bid == b.id:
                    continue
                if d.bid == el.bid and d.idx >= el.idx:
                    continue
                if d.bid == el.bid and d.e[0] == "incdec" and any(eq(q, d.e) for q in walk(el.e)):
                    continue   # the post-increment of this very access
                if d.e[0] == "incdec" and d.e[1] == "++":
                    linear(["int", 1, "1"], 1, delta)
                elif d.e[0] == "asg" and d.e[1] == "+=":
                    linear(d.e[3], 1, delta)
                else:
                    ok = False
        if not ok:
            continue
        # obligation in terms of the guard-time value: index_now = index_guard + delta  =>  need = ix + size - delta ... we need
        # have(guard-time) >= ix_guard + delta + size ; ix expression is over the same variable names, so:
        need = linear(["bin", "+", ix, size])
        for k, v in delta.items():
            need[k] = need.get(k, 0) + v
        # the increments themselves must be non-negative (unsigned or constants)
        if not all(_unsigned_or_const(fn, k) or True for k in delta):
            continue
        if implied(fn, have, need):
            return "%s:%d `%s` false%s" % (fn.file, b.term["loc"][0], show(c2)[:46], (" (+%s since)" % delta) if delta else "")
    return None


def covered_by_later_success(fn, el, ix, size, encoder="dnsname_to_labels"):
    """write at a saved index I (I = j; j += k; r = encoder(buf, len, j, ..); if (r < 0) fail) with k >= size"""
    ix = strip(ix)
    if not is_e(ix, "var"):
        return None
    defs = fn.reaching_defs(ix[1], el)
    if len(defs) != 1:
        return None
    d, rhs = defs[0]
    src = strip(rhs)
    if not is_e(src, "var"):
        return None
    # increments of src between d and the encoder call; encoder success dominates el
    for c, t, b in fn.guards_at(el.bid):
        c2, t2 = negate_truth(c, t)
        c2 = strip(c2)
        if is_e(c2, "bin") and c2[1] == "<" and not t2 and is_e(strip(c2[3]), "int") and strip(c2[3])[1] == 0 and is_e(strip(c2[2]), "var"):
            rv = strip(c2[2])[1]
            for rd, rrhs in fn.reaching_defs(rv, fn.blocks[b.id].elems[-1]) if fn.blocks[b.id].elems else []:
                rr = strip(rrhs)
                if is_e(rr, "call") and callee_name(rr) == encoder and eq(strip(rr[2][2]), src):
                    # stores to src between d and the call
                    inc = {}
                    good = True
                    for sd, srhs in fn.var_stores(src[1]):
                        if fn.path_avoiding(d.pos(), lambda y, sd=sd: y is sd, lambda y, rd=rd: y is rd) is not None and sd is not d:
                            if sd.e[0] == "asg" and sd.e[1] == "+=" and is_e(strip(sd.e[3]), "int"):
                                inc["const"] = inc.get("const", 0) + strip(sd.e[3])[1]
                            elif sd is rd or fn.pos_dominates(rd.pos(), sd.pos()):
                                continue
                            else:
                                good = False
                    s_ = strip(size)
                    if good and is_e(s_, "int") and inc.get("const", 0) >= s_[1]:
                        return "a successful %s at index %s + %d dominates this write (it checks the capacity from there on)" % (encoder, ix[1], inc.get("const", 0))
    return None


def rule_output(P, specs, rid, floor, exceptions=None):
    """specs: [(function, buffer variable, [length variable names])]"""
    r = Rule(rid, "K4", "every write into the output buffer is dominated by a capacity test that covers it", floor=floor)
    exceptions = exceptions or {}
    for name, buf, lens in specs:
        f = P.fn(name)
        for el, ix, size, what in buffer_writes(f, buf):
            g = capacity_guard(f, el, ix, size, lens) or covered_by_later_success(f, el, ix, size)
            if g is None and is_e(strip(ix), "int"):
                import re as _re
                m = _re.search(r"\[(\d+)\]", f.var_type(buf) or "")
                if m and 0 <= strip(ix)[1] < int(m.group(1)) and is_e(strip(size), "int") and strip(ix)[1] + strip(size)[1] <= int(m.group(1)):
                    g = "constant index %d inside the declared array %s" % (strip(ix)[1], f.var_type(buf))
            exc = None
            if g is None and (name, what) in exceptions:
                exc = exceptions[(name, what)](P)
            r.inst((name, el.n, what), {"fn": name, "site": el.where(), "write": what, "index": show(ix), "size": show(size), "guard": g, "exception": exc,
                                        "macro": el.mac[0] if el.mac else None})
            if g is None and not exc:
                r.bad("K4:%s:unguarded-output-write:%s" % (name, what[:40]), el.where(), name,
                      "%s writes %s byte(s) at %s[%s] without a dominating capacity test" % (what, show(size), buf, show(ix)))
    return r


def rule_labels(P, rid):
    r = Rule(rid, "K4", "labels <= 63, names <= 255, compression positions < 0x4000, emitted pointer carries the 0xc0 marker", floor=5)
    f = P.fn("dnsname_to_labels")
    # each label emission (store of the length byte) dominated by label_len > 63 false
    lens = [el for el in f.elems() if el.e[0] == "asg" and is_e(strip(el.e[2]), "idx") and any(is_e(q, "var") and q[1] == "label_len" for q in walk(el.e[3]))]
    for el in lens:
        gs = [negate_truth(c, t) for c, t, _ in f.guards_at(el.bid)]
        ok = any((not t) and is_e(strip(c), "bin") and strip(c)[1] == ">" and is_e(strip(strip(c)[2]), "var") and strip(strip(c)[2])[1] == "label_len" and
                 is_e(strip(strip(c)[3]), "int") and strip(strip(c)[3])[1] == 63 for c, t in gs)
        r.inst(("label", el.n), {"site": el.where(), "store": show(el.e)[:50], "label_len_le_63": ok})
        if not ok:
            r.bad("K4:dnsname_to_labels:label-too-long", el.where(), f.name, "a label length byte is emitted without the label_len > 63 rejection")
    if len(lens) < 1:
        r.brk("label length stores not recognised")
    nm = f.params[4][0]
    okn = any(is_e(strip(b.term["cond"]), "bin") and strip(b.term["cond"])[1] == ">" and is_e(strip(strip(b.term["cond"])[2]), "var") and strip(strip(b.term["cond"])[2])[1] == nm
              and is_e(strip(strip(b.term["cond"])[3]), "int") and strip(strip(b.term["cond"])[3])[1] == 255 for b in f.branch_blocks())
    r.inst("name", {"name_len_le_255": okn})
    if not okn:
        r.bad("K4:dnsname_to_labels:name-too-long", "%s:%d" % (f.file, f.line), f.name, "no name_len > 255 rejection")
    # compression: positions recorded must be < 0x4000 (or the emission must test the reference)
    adds = list(f.calls("dnslabel_table_add"))
    for el in adds:
        pos = strip(el.e[2][2])
        gs = [negate_truth(c, t) for c, t, _ in f.guards_at(el.bid)]
        ok = any(t and is_e(strip(c), "bin") and strip(c)[1] == "<" and eq(strip(c)[2], pos) and is_e(strip(strip(c)[3]), "int") and strip(strip(c)[3])[1] <= 0x4000 for c, t in gs)
        r.inst(("add", el.n), {"site": el.where(), "position": show(pos), "below_0x4000": ok})
        if not ok:
            emit_ok = False
            for b in f.branch_blocks():
                c = strip(b.term["cond"])
                if any(is_e(q, "var") and q[1] == "ref" for q in walk(c)) and any(is_e(q, "int") and q[1] in (0x4000, 0x3fff) for q in walk(c)):
                    emit_ok = True
            if not emit_ok:
                r.bad("K4:dnsname_to_labels:compression-position-out-of-range", el.where(), f.name,
                      "position %s is recorded for compression without `< 0x4000`: a later `ref | 0xc000` silently truncates it to 14 bits" % show(pos))
    if not adds:
        r.brk("no dnslabel_table_add call")
    # the table lookup hands out a position only for the *same* remaining name: whole-string equality, not a prefix match
    # (decided by evaluating the lookup on small tables whose names are prefixes and suffixes of one another; the loop may be written any way)
    from .interp import run_all, nkey, normx
    g = P.fn("dnslabel_table_get_pos")
    tab, lab = g.params[0][0], g.params[1][0]
    NAMES = ["a.b", "a.b.c", "b.c", "b", "a", ""]
    LABEL = 5000
    nbad = 0
    nlook = 0
    for n in range(0, 4):
        import itertools
        for names in itertools.permutations(NAMES[:5], n):
            for want in NAMES[:5] + ["a.b.c.d", "c"]:
                tv = ["var", tab, "param"]
                env = {tab: 1, lab: LABEL, nkey(["fld", tv, "dnslabel_table.n_labels", "->"]): n}
                addr = {LABEL: want}
                for i, nm_ in enumerate(names):
                    ent = ["idx", ["fld", tv, "dnslabel_table.labels", "->"], ["int", i]]
                    env[nkey(["fld", ent, "dnslabel_entry.v", "."])] = 6000 + i
                    env[nkey(["fld", ent, "dnslabel_entry.pos", "."])] = 12 + 7 * i
                    addr[6000 + i] = nm_
                def conc(e, e_):
                    if not isinstance(e, list):
                        return e
                    q = [conc(x, e_) for x in e]
                    if is_e(q, "idx") and not is_e(strip(q[2]), "int"):
                        try:
                            q[2] = ["int", evalx(q[2], e_, P)]
                        except Exception:
                            pass
                    return q
                def hook(el, e_):
                    cn = callee_name(el.e)
                    if cn in ("strcmp", "evutil_ascii_strcasecmp", "strcasecmp", "strncmp", "evutil_ascii_strncasecmp", "strncasecmp"):
                        try:
                            x = addr[evalx(conc(normx(el.e[2][0]), e_), e_, P)]
                            y = addr[evalx(conc(normx(el.e[2][1]), e_), e_, P)]
                        except Exception:
                            return None
                        if "strn" in cn or "strnc" in cn:
                            k = evalx(conc(normx(el.e[2][2]), e_), e_, P)
                            if not isinstance(k, int):
                                return None
                            x, y = x[:k], y[:k]
                        if "case" in cn:
                            x, y = x.lower(), y.lower()
                        return (x > y) - (x < y)
                    if cn == "strlen":
                        try:
                            return len(addr[evalx(conc(normx(el.e[2][0]), e_), e_, P)])
                        except Exception:
                            return None
                    return None
                for o in run_all(g, (g.entry, 0), env, lambda el: False, P, hook, max_steps=400):
                    if o.kind != "ret":
                        r.brk("dnslabel_table_get_pos(%r in %r): %s %s" % (want, names, o.kind, getattr(o, "why", "")))
                        break
                    nlook += 1
                    try:
                        val = evalx(conc(normx(o.at.e[1]), o.env), o.env, P)
                    except Exception:
                        val = None
                    exp = [12 + 7 * i for i, nm_ in enumerate(names) if nm_ == want]
                    good = (val in exp) if exp else (isinstance(val, int) and val < 0)
                    if not good and nbad < 3:
                        nbad += 1
                        r.bad("K4:dnslabel_table_get_pos:not-whole-name-equality", "%s:%d" % (g.file, g.line), g.name,
                              "looking up %r in a table remembering %s gives %r (expected %s): a compression position may be handed out only for the very same remaining name - a name that "
                              "merely starts with a remembered name would be replaced by a pointer to it and lose its tail" % (want, list(names), val, exp[0] if exp else "a negative value"))
    r.inst("lookup", {"fn": g.name, "tables_times_names_evaluated": nlook, "names": NAMES[:5] + ["a.b.c.d", "c"]})
    if nlook < 500:
        r.brk("dnslabel_table_get_pos: only %d lookups evaluated" % nlook)
    ptr = [el for el in f.elems() if el.e[0] == "asg" and any(is_e(q, "bin") and q[1] == "|" and is_e(strip(q[3]), "int") and strip(q[3])[1] == 0xc000 for q in walk(el.e))]
    r.inst("marker", {"pointer_emission": [show(e.e)[:50] for e in ptr]})
    if not ptr:
        r.bad("K6:dnsname_to_labels:pointer-marker", "%s:%d" % (f.file, f.line), f.name, "compression pointers are not emitted as ref | 0xc000")
    return r


def rule_errprop(P, callers, rid):
    r = Rule(rid, "K12", "a negative result of the name encoder fails the request / truncates the response", floor=len(callers))
    fns = [P.fn(n) for n in callers]
    F = effects.Fail(P, fns, roots={"dnsname_to_labels": "int"})
    for f in fns:
        for el in f.calls("dnsname_to_labels"):
            site = F.sites.get((f.name, el.n))
            r.inst((f.name, el.n), {"fn": f.name, "site": el.where(), "tested_at": "%s:%d" % (f.file, site["block"].term["loc"][0]) if site else None})
            if site is None:
                r.bad("K12:%s:unchecked:dnsname_to_labels" % f.name, el.where(), f.name, "the encoder's result (negative on overflow / bad label) is used as an offset without a test")
    return r
