"""Shared model of buffer.c for C12-C16: subjects, content-visible commits, helper inference."""
import collections
from .prog import *
from . import effects

TOTAL = "evbuffer.total_len"
NADD = "evbuffer.n_add_for_cb"
NDEL = "evbuffer.n_del_for_cb"
OFF = "evbuffer_chain.off"
COMMIT_FIELDS = (TOTAL, NADD, NDEL, OFF)

# callees whose effect is not content-visible although they store to commit fields (confirmed by reading)
BENIGN_CALLEES = {
    "evbuffer_chain_insert_new": "inserts a new EMPTY chain (total_len += 0); the byte string and the counters are unchanged",
    "evbuffer_chain_align": "moves the chain's bytes to the start of its own memory; content and lengths unchanged",
    "evbuffer_free_trailing_empty_chains": "frees chains with off == 0 only",
    "evbuffer_invoke_callbacks_": "reports and resets the callback counters; not a content change",
    "evbuffer_run_callbacks": "reports and resets the callback counters; not a content change",
    "evbuffer_chain_free": "releases a chain object; callers that drop content also store total_len/off, which is what is tracked",
    "evbuffer_free_all_chains": "as evbuffer_chain_free",
    "evbuffer_decref_and_unlock_": "reference drop",
    "evbuffer_incref_and_lock_": "lock only",
}


class BufModel(object):
    def __init__(self, P, files=("buffer.c",)):
        self.P = P
        self.fns = [f for f in P.all_fns if f.file in files]
        self.byname = {f.name: f for f in self.fns}
        self.F = effects.Fail(P, self.fns)
        self._fresh = {}
        self.committing = self._infer_committing()

    def fresh_vars(self, fn):
        """locals that hold an object allocated in this function (result of an allocator / fallible pointer function)."""
        if fn.name in self._fresh:
            return self._fresh[fn.name]
        fresh = set()
        for el, lhs, op, rhs in fn.stores():
            l, r = strip(lhs), strip(rhs)
            if is_e(l, "var") and l[2] == "local" and op == "=":
                if is_e(r, "asg"):
                    r = strip(r[3])
                if is_e(r, "call") and self.F.fallible.get(callee_name(r)) == "ptr" and callee_name(r) not in ("evbuffer_expand_singlechain", "evbuffer_chain_insert_new"):
                    fresh.add(l[1])
        # a variable also assigned from something else is not reliably fresh
        for el, lhs, op, rhs in fn.stores():
            l, r = strip(lhs), strip(rhs)
            if is_e(l, "var") and l[1] in fresh and op == "=":
                if is_e(r, "asg"):
                    r = strip(r[3])
                if not (is_e(r, "call") and self.F.fallible.get(callee_name(r)) == "ptr") and not (is_e(r, "int") and r[1] == 0):
                    fresh.discard(l[1])
        self._fresh[fn.name] = fresh
        return fresh

    def commit_store(self, fn, el):
        """(field, root) if el is a store to a commit field of a non-fresh object."""
        e = el.e
        if e[0] == "asg":
            lhs = strip(e[2])
        elif e[0] == "incdec":
            lhs = strip(e[3])
        else:
            return None
        if is_e(lhs, "fld") and lhs[2] in COMMIT_FIELDS:
            rv = root_var(lhs)
            if rv is not None and rv[1] in self.fresh_vars(fn) and rv[2] == "local":
                return None
            # `chain->off = 0`-style initialisation of a fresh object is excluded above; a store of the same value is still a store
            return lhs[2], rv
        return None

    def _infer_committing(self):
        com = {}
        for f in self.fns:
            for el in f.elems():
                if self.commit_store(f, el):
                    com[f.name] = "stores %s" % self.commit_store(f, el)[0]
                    break
        changed = True
        while changed:
            changed = False
            for f in self.fns:
                if f.name in com:
                    continue
                for el in f.calls():
                    n = callee_name(el.e)
                    if n in com and n not in BENIGN_CALLEES:
                        com[f.name] = "calls " + n
                        changed = True
                        break
        return com

    def known_empty(self, fn, el, X):
        """el is dominated by `v == 0` where v's only definition is X->total_len: resetting an empty buffer changes nothing."""
        for c, t, b in fn.guards_at(el.bid):
            c, t = negate_truth(c, t)
            c = strip(c)
            if t or not (is_e(c, "var") and c[2] == "local"):
                continue
            defs = [rhs for e2, lhs, op, rhs in fn.stores() if is_e(strip(lhs), "var") and strip(lhs)[1] == c[1]]
            if len(defs) == 1 and is_e(strip(defs[0]), "fld") and strip(defs[0])[2] == TOTAL and self.subject(defs[0]) == X:
                return True
        return False

    def commits_in(self, fn):
        """elements of fn that are content-visible commits: direct stores, or calls to committing non-benign callees."""
        out = []
        for el in fn.elems():
            cs = self.commit_store(fn, el)
            if cs:
                out.append((el, "store %s" % cs[0]))
            elif el.e[0] == "call":
                n = callee_name(el.e)
                if n in self.committing and n not in BENIGN_CALLEES:
                    if n == "ZERO_CHAIN" and el.e[2] and self.known_empty(fn, el, self.subject(el.e[2][0])):
                        continue    # zeroing a buffer that is known to be empty
                    out.append((el, "call %s" % n))
        return out

    # ---- list repair after releasing chains
    RELEASERS = ("evbuffer_chain_free", "evbuffer_free_all_chains")

    def is_link_repair(self, el):
        e = el.e
        if e[0] == "asg":
            l = strip(e[2])
            if is_e(l, "fld") and l[2] in ("evbuffer_chain.next", "evbuffer.first"):
                return True
            if is_e(l, "deref"):
                return True          # *chp = ... through a pointer to a link
            # chained a = b = c
            for q in walk(e[3]):
                if is_e(q, "asg") and is_e(strip(q[2]), "fld") and strip(q[2])[2] in ("evbuffer_chain.next", "evbuffer.first"):
                    return True
        if e[0] == "call":
            n = callee_name(e)
            if n in ("ZERO_CHAIN", "COPY_CHAIN", "RESTORE_PINNED", "event_mm_free_", "free"):
                return True
        return False

    def subject(self, expr):
        """root variable name of an evbuffer expression (X in X->total_len)."""
        rv = root_var(expr)
        return rv[1] if rv is not None else None
