"""Fact loading: compilation database -> lvx -> Program (functions with CFGs, records, globals).

Nothing here executes libevent code; the sources under /repo are parsed by clang (lvx) on
every run, from the current working tree.
"""
import json, os, subprocess, shlex, hashlib, sys, time
from concurrent.futures import ThreadPoolExecutor

VERIF = os.path.dirname(os.path.dirname(os.path.abspath(__file__)))
REPO = os.environ.get("VERIF_REPO", "/repo")
BUILD = os.path.join(VERIF, "build")
LVX = os.path.join(BUILD, "lvx")

# the 31 library units the platform build compiles
UNITS = """buffer bufferevent bufferevent_filter bufferevent_pair bufferevent_ratelim bufferevent_sock
bufferevent_ssl bufferevent_openssl bufferevent_mbedtls event evmap evthread evthread_pthread evutil
evutil_rand evutil_time watch listener log signal signalfd strlcpy select poll epoll event_tagging
http evdns ws sha1 evrpc""".split()

CONFIGS = {
    "build": [],
    "assert": ["-UNDEBUG"],
    "reinsert": ["-DUSE_REINSERT_TIMEOUT"],
    "nodebug": ["-DEVENT__DISABLE_DEBUG_MODE"],
    "nomm": ["-DEVENT__DISABLE_MM_REPLACEMENT"],
}
for _a in ("reinsert", "nodebug", "nomm"):
    CONFIGS["assert+" + _a] = CONFIGS["assert"] + CONFIGS[_a]


class AnalysisBroken(Exception):
    pass


def ensure_setup():
    if not os.path.exists(LVX):
        subprocess.check_call([os.path.join(VERIF, "tools", "build.sh")], stdout=subprocess.DEVNULL)


def compdb(repo=REPO):
    """Regenerate config headers + compilation database from the current tree."""
    ensure_setup()
    cfg = os.path.join(BUILD, "cfg")
    if repo != "/repo":
        cfg = os.path.join(BUILD, "cfg-" + hashlib.sha1(repo.encode()).hexdigest()[:8])
    # checks may run concurrently: configuring one build directory from two processes at once corrupts it, so the step is serialised
    import fcntl
    os.makedirs(BUILD, exist_ok=True)
    with open(cfg + ".lock", "w") as lk:
        fcntl.flock(lk, fcntl.LOCK_EX)
        r = subprocess.run(["cmake", "-S", repo, "-B", cfg, "-G", "Ninja"], stdout=subprocess.PIPE,
                           stderr=subprocess.STDOUT)
        if r.returncode != 0:
            # a directory left half-configured by an interrupted run: start it afresh once
            import shutil
            shutil.rmtree(cfg, ignore_errors=True)
            r = subprocess.run(["cmake", "-S", repo, "-B", cfg, "-G", "Ninja"], stdout=subprocess.PIPE, stderr=subprocess.STDOUT)
        if r.returncode != 0:
            raise AnalysisBroken("cmake configure failed:\n" + r.stdout.decode()[-2000:])
        out = subprocess.run(["ninja", "-C", cfg, "-t", "compdb"], stdout=subprocess.PIPE, check=True).stdout
    db = json.loads(out)
    res = {}
    for e in db:
        f = e.get("file", "")
        if not f.startswith(repo + "/"):
            continue
        relf = f[len(repo) + 1:]
        if "/" in relf or not relf.endswith(".c"):
            continue
        u = relf[:-2]
        if u in res:
            continue
        toks = shlex.split(e["command"])
        flags = []
        i = 1
        while i < len(toks):
            t = toks[i]
            if t in ("-I", "-D", "-U", "-include", "-isystem"):
                flags += [t, toks[i + 1]]
                i += 2
                continue
            if t.startswith(("-I", "-D", "-U", "-std")):
                flags.append(t)
            i += 1
        res[u] = flags
    return res


def run_lvx(unit, flags, outdir, repo=REPO):
    """runs the extractor into a file private to this process/thread (checks may run concurrently and all write <outdir>/<unit>.json), then publishes it
    atomically; returns the path of the complete file"""
    import threading
    out = os.path.join(outdir, unit + ".json")
    tmp = "%s.%d.%d.tmp" % (out, os.getpid(), threading.get_ident())
    src = os.path.join(repo, unit + ".c")
    r = subprocess.run([LVX, tmp, repo, src, "--"] + flags, stdout=subprocess.PIPE, stderr=subprocess.PIPE)
    if r.returncode != 0 or not os.path.exists(tmp):
        raise AnalysisBroken("lvx failed on %s: %s" % (unit, r.stderr.decode()[-1500:]))
    return tmp


def extract(units=None, config="build", repo=REPO, db=None):
    """Returns {unit: facts-json}. Re-parses every requested unit from the current tree."""
    if db is None:
        db = compdb(repo)
    units = list(units or UNITS)
    for u in units:
        if u not in db:
            raise AnalysisBroken("unit %s.c is not in the compilation database" % u)
    outdir = os.path.join(BUILD, "facts", config + ("" if repo == "/repo" else "-" + hashlib.sha1(repo.encode()).hexdigest()[:8]))
    os.makedirs(outdir, exist_ok=True)
    extra = CONFIGS[config]
    with ThreadPoolExecutor(max_workers=16) as ex:
        futs = {u: ex.submit(run_lvx, u, db[u] + extra, outdir, repo) for u in units}
        paths = {u: f.result() for u, f in futs.items()}
    facts = {}
    for u, p in paths.items():
        with open(p) as fh:
            facts[u] = json.load(fh)
        os.replace(p, os.path.join(outdir, u + ".json"))     # kept for inspection (tools/dumpfn.py); never read back by a check
    return facts


def extract_snippet(path, db=None, like_unit="event", config="build"):
    """Parse a self-test C snippet (under /verif/selftest) with the flags of a library unit."""
    if db is None:
        db = compdb()
    outdir = os.path.join(BUILD, "facts", "selftest")
    os.makedirs(outdir, exist_ok=True)
    out = os.path.join(outdir, os.path.basename(path) + ".json")
    root = os.path.dirname(path)
    r = subprocess.run([LVX, out, root, path, "--"] + db[like_unit] + CONFIGS[config],
                       stdout=subprocess.PIPE, stderr=subprocess.PIPE)
    if r.returncode != 0 or not os.path.exists(out):
        raise AnalysisBroken("lvx failed on snippet %s: %s" % (path, r.stderr.decode()[-1500:]))
    with open(out) as fh:
        return {os.path.basename(path): json.load(fh)}
