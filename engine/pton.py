"""evutil_inet_pton evaluated on abstract strings against a strict reference parser (C40)."""
from .prog import *
from .prog import PStr
from .interp import normx, nkey, run_all
from .chunked import strtoll_model

HEX = b"0123456789abcdefABCDEF"
DIG = b"0123456789"


def ref_v4(t):
    """dotted quad: four decimal numbers 0..255 (leading zeros tolerated, read as decimal), single dots, nothing else -> bytes or None"""
    parts = t.split(b".")
    if len(parts) != 4:
        return None
    out = []
    for p in parts:
        if not p or any(c not in DIG for c in p):
            return None
        v = int(p, 10)
        if v > 255:
            return None
        out.append(v)
    return bytes(out)


def ref_v6(t):
    """RFC 4291 text form as the platform's strict inet_pton accepts it -> 16 bytes or None"""
    if not t:
        return None
    tail = None
    if b"." in t:
        i = t.rfind(b":")
        if i < 0:
            return None
        tail = ref_v4(t[i + 1:])
        if tail is None:
            return None
        t = t[:i + 1]          # keeps the colon before the dotted quad
        if t.endswith(b"::"):
            pass
        elif t.endswith(b":"):
            t = t[:-1]
            if not t:
                return None
    if t.count(b"::") > 1 or b":::" in t:
        return None
    def groups(s):
        if s == b"":
            return []
        gs = s.split(b":")
        for g in gs:
            if not (1 <= len(g) <= 4) or any(c not in HEX for c in g):
                return None
        return [int(g, 16) for g in gs]
    need = 8 - (2 if tail is not None else 0)
    if b"::" in t:
        a, b = t.split(b"::")
        ga, gb = groups(a), groups(b)
        if ga is None or gb is None:
            return None
        if len(ga) + len(gb) > need - 1:
            return None
        ws = ga + [0] * (need - len(ga) - len(gb)) + gb
    else:
        ws = groups(t)
        if ws is None or len(ws) != need:
            return None
    out = b"".join(w.to_bytes(2, "big") for w in ws)
    return out + (tail or b"")


def scan_u_dot(text, nconv=4):
    """sscanf(text, "%u.%u.%u.%u%c"): -> (number of items assigned, values, char)"""
    i = 0
    vals = []
    for k in range(nconv):
        while i < len(text) and text[i] in b" \t\n\v\f\r":
            i += 1
        if i >= len(text):
            return (len(vals) if vals else -1), vals, None
        neg = False
        if text[i] in b"+-":
            neg = text[i:i + 1] == b"-"
            i += 1
        j = i
        while j < len(text) and text[j] in DIG:
            j += 1
        if j == i:
            return len(vals), vals, None
        v = int(text[i:j])
        v = min(v, (1 << 64) - 1)
        if neg:
            v = -v
        vals.append(v & 0xffffffff)
        i = j
        if k < nconv - 1:
            if i < len(text) and text[i:i + 1] == b".":
                i += 1
            else:
                return len(vals), vals, None
    if i < len(text):
        return len(vals) + 1, vals, text[i]
    return len(vals), vals, None


AF_INET, AF_INET6 = 2, 10


def evaluate(P, af, s):
    """-> (ret, address bytes or None) or ('unknown', why)"""
    f = P.fn("evutil_inet_pton")
    env = {"#typed": 1, f.params[0][0]: af, f.params[1][0]: PStr(s), f.params[2][0]: 7, "addr": 7, "out": 7}
    # lvalue spelling of out->s6_addr[k] and addr->s_addr
    v6key = None
    v4key = None
    for el, lhs, op, rhs in f.stores():
        l = strip(lhs)
        if is_e(l, "idx") and any(is_e(q, "fld") and "in6" in q[2] for q in walk(l[1])) and v6key is None:
            v6key = l[1]
        if is_e(l, "fld") and l[2].endswith("in_addr.s_addr"):
            v4key = l

    def hook(el, e_):
        n = callee_name(el.e)
        a = el.e[2]
        try:
            if n in ("sscanf", "__isoc99_sscanf"):
                p = evalx(normx(a[0]), e_, P)
                if not isinstance(p, PStr):
                    return "impure"
                cnt, vals, ch = scan_u_dot(p.text())
                outs = [strip(x) for x in a[2:]]
                for x, v in zip(outs, vals):
                    if is_e(x, "addr") and is_e(strip(x[1]), "var"):
                        e_[strip(x[1])[1]] = v
                if ch is not None and len(outs) > 4 and is_e(outs[4], "addr"):
                    e_[strip(outs[4][1])[1]] = ch
                return cnt
            if n in ("strtol", "strtoul"):
                p = evalx(normx(a[0]), e_, P)
                base = evalx(normx(a[2]), e_, P)
                if not isinstance(p, PStr):
                    return "impure"
                v, used = strtoll_model(p.text(), base)
                endp = strip(a[1])
                if is_e(endp, "addr") and is_e(strip(endp[1]), "var"):
                    e_[strip(endp[1])[1]] = p + used
                return v
            if n and n.startswith("evutil_parse_") and n in P.fns:
                return "call"
            if n == "evutil_hex_char_to_int_":
                return "inline"
            if n in ("htonl", "__bswap_32"):
                v = evalx(normx(a[0]), e_, P) & 0xffffffff
                return int.from_bytes(v.to_bytes(4, "big"), "little")
            if n in ("memmove", "memset", "__builtin___memmove_chk", "__builtin___memset_chk"):
                def widx(x):
                    x = strip(x)
                    if is_e(x, "addr") and is_e(strip(x[1]), "idx") and is_e(strip(strip(x[1])[1]), "var") and strip(strip(x[1])[1])[1] == "words":
                        return evalx(normx(strip(x[1])[2]), e_, P)
                    raise EvalError("pointer %s" % show(x))
                W = lambda k: nkey(["idx", ["var", "words", "local"], ["int", k]])
                if n.startswith("memmove") or "memmove" in n:
                    d, s_, cnt = widx(a[0]), widx(a[1]), evalx(normx(a[2]), e_, P) // 2
                    if cnt < 0 or d < 0 or s_ < 0 or d + cnt > 8 or s_ + cnt > 8:
                        e_["#viol"] = "memmove of %d words from words[%d] to words[%d] leaves words[8]" % (cnt, s_, d)
                        return 0
                    vals = [e_.get(W(s_ + k)) for k in range(cnt)]
                    for k in range(cnt):
                        if vals[k] is None:
                            e_.pop(W(d + k), None)
                        else:
                            e_[W(d + k)] = vals[k]
                else:
                    d, cnt = widx(a[0]), evalx(normx(a[2]), e_, P) // 2
                    if cnt < 0 or d < 0 or d + cnt > 8:
                        e_["#viol"] = "memset of %d words at words[%d] leaves words[8]" % (cnt, d)
                        return 0
                    for k in range(cnt):
                        e_[W(d + k)] = 0
                return 0
        except EvalError as ex:
            e_["#err"] = str(ex)
            return "impure"
        return None
    res = set()
    for o in run_all(f, (f.entry, 0), env, lambda el: False, P, hook, max_steps=1500):
        if o.kind == "exit" and o.why == "noreturn":
            continue
        if o.kind != "ret":
            return ("unknown", "%s %s %s" % (o.kind, o.why, o.env.get("#err", "")))
        try:
            rv = tevalx(normx(o.at.e[1]), o.env, P, f)
        except EvalError as ex:
            return ("unknown", "return value: %s" % ex)
        addr = None
        if rv == 1:
            try:
                if af == AF_INET:
                    v = o.env.get(nkey(v4key)) if v4key is not None else None
                    addr = None if v is None else (v & 0xffffffff).to_bytes(4, "little")
                else:
                    bs = [o.env.get(nkey(["idx", v6key, ["int", k]])) for k in range(16)]
                    addr = None if any(b is None for b in bs) else bytes(b & 0xff for b in bs)
            except Exception:
                addr = None
        res.add((rv, addr, o.env.get("#viol")))
    if len(res) != 1:
        return ("unknown", "%d outcomes" % len(res))
    return list(res)[0]


V4 = [b"1.2.3.4", b"255.255.255.255", b"0.0.0.0", b"01.2.3.4", b"001.002.003.004", b"", b"1.2.3", b"1.2.3.4.5", b"256.1.1.1", b"1.2.3.4 ", b" 1.2.3.4", b"+1.2.3.4", b"1.+2.3.4", b"1.-2.3.4", b"-1.2.3.4",
      b"1. 2.3.4", b"1..2.3", b"a.b.c.d", b"1.2.3.4x", b"1.2.3.", b".1.2.3", b"1.2.3.4.", b"0x1.2.3.4", b"1.2.3.999", b"4294967297.2.3.4", b"::1"]
V6 = [b"::", b"::1", b"1::", b"1:2:3:4:5:6:7:8", b"1::8", b"::ffff:1.2.3.4", b"1:2:3:4:5:6:1.2.3.4", b"::1.2.3.4", b"fe80::1", b"ABCD:abcd::", b"1:2:3:4:5:6:7::", b"::2:3:4:5:6:7:8", b"0:0:0:0:0:0:0:0",
      b"ffff:ffff:ffff:ffff:ffff:ffff:ffff:ffff", b"1:2::1.2.3.4", b"::ffff:01.2.3.4",
      b"", b":", b":::", b"1:::2", b"1::2::3", b"1:2:3:4:5:6:7:8:9", b"1:2:3:4:5:6:7", b"1:2:3:4:5:6:7:8:", b":1:2:3:4:5:6:7:8", b"::1:", b"1:", b":1", b"12345::", b"::g", b"::0x1", b"0x1::", b"::x1",
      b"1:2:3:4:5:6:7:1.2.3.4", b"::1.2.3", b"::1.2.3.256", b"::1.+2.3.4", b"::1. 2.3.4", b"1.2.3.4::", b"::ffff:1.2.3.4:5", b"1:2:3:4:5:6:7::8", b"1.2.3.4", b":: 1", b"::+1", b"::-1", b" ::1", b"::1 ", b"1:2:3:4:5:6::7:8",
      b"::1.2.3.4.5", b"1::2:3:4:5:6:7:8", b"::.1.2.3", b"::1.2.3.4x",
      # a hexadecimal group glued to the dotted quad (decimal digits are hexadecimal digits too: the group scan runs into the quad), quads with too many digits, quad not last
      b"::a1.2.3.4", b"::ffff:d10.0.0.1", b"1::f1.2.3.4", b"::1a.2.3.4", b"::abc1.2.3.4", b"::11.2.3.4", b"::0001.2.3.4", b"::1.2.3.4:1", b"1:2:3:4:5:6:a1.2.3.4", b"::ffff:1.2.3.4a", b"::ffff:1.2.3.a4",
      b"::1111.2.3.4", b"a::1.2.3.4", b"::a:1.2.3.4"]


def rule_pton(P, rid):
    from .core import Rule
    r = Rule(rid, "K6", "evutil_inet_pton accepts exactly the strings of the strict reference parser and yields the same address (IPv4 and IPv6 form families)", floor=70)
    f = P.fn("evutil_inet_pton")
    if not any(callee_name(el.e) in ("sscanf", "strtol", "strchr", "__isoc99_sscanf") or True for el in f.calls()):
        r.brk("evutil_inet_pton has no body here (platform inet_pton in use)")
        return r
    nb = 0
    for af, forms, ref in ((AF_INET, V4, ref_v4), (AF_INET6, V6, ref_v6)):
        for s in forms:
            got = evaluate(P, af, s)
            if got[0] == "unknown":
                r.brk("evutil_inet_pton(%s, %r): %s" % ("AF_INET" if af == AF_INET else "AF_INET6", s, got[1]))
                return r
            want = ref(s)
            rv, addr, viol = got
            ok = (want is None and rv == 0) or (want is not None and rv == 1 and addr == want)
            if viol:
                ok = False
            r.inst((af, s), {"family": "AF_INET" if af == AF_INET else "AF_INET6", "text": s.decode("latin-1"), "libevent": [rv, addr.hex() if addr else None], "reference": want.hex() if want else None})
            if not ok and nb < 12:
                nb += 1
                kind = "out-of-bounds" if viol else ("accepts-invalid" if want is None else ("rejects-valid" if rv != 1 else "wrong-address"))
                why = {"accepts-invalid": "accepted (address %s) although it is not a valid address text" % (addr.hex() if addr else None),
                       "rejects-valid": "rejected (returns %r) although it is valid (%s)" % (rv, want.hex() if want else None),
                       "wrong-address": "parsed as %s, reference %s" % (addr.hex() if addr else None, want.hex() if want else None), "out-of-bounds": str(viol)}[kind]
                sub = "v4" if af == AF_INET else "v6"
                cls = "sign-or-space" if (b"+" in s or b"-" in s or b" " in s) else ("hex-prefix" if b"x" in s.lower() else ("trailing-colon" if s.endswith(b":") and not s.endswith(b"::") else ("overflow" if len(s) > 12 and af == AF_INET else "other")))
                r.bad("K6:evutil_inet_pton:%s:%s:%s" % (sub, kind, cls), "%s:%d" % (f.file, f.line), f.name, "%s text %r is %s" % ("IPv4" if af == AF_INET else "IPv6", s, why))
    seen, uniq = set(), []
    for f_ in r.findings:
        if f_.key not in seen:
            seen.add(f_.key)
            uniq.append(f_)
    r.findings = uniq
    return r
