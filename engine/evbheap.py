"""Abstract heap images of evbuffers for the evaluator (engine/interp.py with PPtr/PRef values).

An evbuffer is object "buf"; its chains are objects "c0", "c1", ...; every field the buffer code reads is a cell ("@", object, "record.field") of the
environment.  Chain storage is identified by integer addresses (chain k owns [BASE*(k+1), BASE*(k+1)+buffer_len)), so pointer arithmetic on
chain->buffer is ordinary integer arithmetic and copies can be checked against the storage they must stay in."""
from .prog import PPtr, PRef

BASE = 100000


def cell(obj, rec, fld):
    return ("@", obj, "%s.%s" % (rec, fld))


def build(chains, last_with_data, extra_buf=None, name="buf"):
    """chains: list of dicts {buffer_len, misalign, off, flags}; last_with_data: index of the chain *last_with_datap designates.
    -> env fragment"""
    env = {}
    n = len(chains)
    for k, c in enumerate(chains):
        o = "%s.c%d" % (name, k) if name != "buf" else "c%d" % k
        env[cell(o, "evbuffer_chain", "next")] = PPtr(("%s.c%d" % (name, k + 1)) if name != "buf" else "c%d" % (k + 1)) if k + 1 < n else 0
        env[cell(o, "evbuffer_chain", "buffer_len")] = c["buffer_len"]
        env[cell(o, "evbuffer_chain", "misalign")] = c.get("misalign", 0)
        env[cell(o, "evbuffer_chain", "off")] = c.get("off", 0)
        env[cell(o, "evbuffer_chain", "flags")] = c.get("flags", 0)
        env[cell(o, "evbuffer_chain", "buffer")] = c.get("buffer", BASE * (k + 1))
        env[cell(o, "evbuffer_chain", "refcnt")] = 1
    cn = (lambda k: ("%s.c%d" % (name, k)) if name != "buf" else "c%d" % k)
    env[cell(name, "evbuffer", "first")] = PPtr(cn(0)) if n else 0
    env[cell(name, "evbuffer", "last")] = PPtr(cn(n - 1)) if n else 0
    env[cell(name, "evbuffer", "last_with_datap")] = PRef(name, "evbuffer.first") if last_with_data == 0 or not n else PRef(cn(last_with_data - 1), "evbuffer_chain.next")
    env[cell(name, "evbuffer", "total_len")] = sum(c.get("off", 0) for c in chains)
    env[cell(name, "evbuffer", "n_add_for_cb")] = 0
    env[cell(name, "evbuffer", "n_del_for_cb")] = 0
    env[cell(name, "evbuffer", "lock")] = 0
    env[cell(name, "evbuffer", "freeze_start")] = 0
    env[cell(name, "evbuffer", "freeze_end")] = 0
    env[cell(name, "evbuffer", "max_read")] = 4096
    env[cell(name, "evbuffer", "own_lock")] = 0
    env[cell(name, "evbuffer", "deferred_cbs")] = 0
    env[cell(name, "evbuffer", "parent")] = 0
    env[cell(name, "evbuffer", "refcnt")] = 1
    if extra_buf:
        for k, v in extra_buf.items():
            env[cell(name, "evbuffer", k)] = v
    return env


def chain_list(env, name="buf", limit=32):
    """walk first->next...; -> list of (object id, {field: value}) or raises ValueError on a cycle / dangling pointer"""
    out = []
    p = env.get(cell(name, "evbuffer", "first"))
    seen = set()
    while isinstance(p, PPtr):
        if p.id in seen or len(out) > limit:
            raise ValueError("cycle in chain list at %s" % p.id)
        seen.add(p.id)
        f = {}
        for fld in ("next", "buffer_len", "misalign", "off", "flags", "buffer"):
            f[fld] = env.get(cell(p.id, "evbuffer_chain", fld))
        out.append((p.id, f))
        p = f["next"]
    if p not in (0, None):
        raise ValueError("chain list ends in %r" % (p,))
    return out


def invariant(env, name="buf"):
    """the structural invariants of struct evbuffer (evbuffer-internal.h); -> list of violated clauses"""
    bad = []
    try:
        cl = chain_list(env, name)
    except ValueError as ex:
        return [str(ex)]
    ids = [i for i, f in cl]
    last = env.get(cell(name, "evbuffer", "last"))
    if cl:
        if not (isinstance(last, PPtr) and last.id == ids[-1]):
            bad.append("last does not point at the final chain (%r, list ends with %s)" % (last, ids[-1]))
    elif last not in (0, None):
        bad.append("last is set on an empty list")
    tot = 0
    for i, f in cl:
        if not all(isinstance(f[k], int) for k in ("buffer_len", "misalign", "off")):
            bad.append("chain %s has a non-integer size field" % i)
            return bad
        if f["misalign"] < 0 or f["off"] < 0 or f["misalign"] + f["off"] > f["buffer_len"]:
            bad.append("chain %s: misalign %d + off %d exceeds buffer_len %d" % (i, f["misalign"], f["off"], f["buffer_len"]))
        tot += f["off"]
    tl = env.get(cell(name, "evbuffer", "total_len"))
    if tl != tot:
        bad.append("total_len %s but the chains hold %d bytes" % (tl, tot))
    lw = env.get(cell(name, "evbuffer", "last_with_datap"))
    if not isinstance(lw, PRef):
        bad.append("last_with_datap is %r" % (lw,))
        return bad
    # which chain does *last_with_datap designate?
    if lw.obj == name and lw.field == "evbuffer.first":
        idx = 0
    elif lw.field == "evbuffer_chain.next" and lw.obj in ids:
        idx = ids.index(lw.obj) + 1
    else:
        bad.append("last_with_datap points at %r, which is neither &first nor a &chain->next of the list" % (lw,))
        return bad
    withdata = [k for k, (i, f) in enumerate(cl) if f["off"] > 0]
    if withdata:
        if idx != withdata[-1]:
            bad.append("*last_with_datap designates chain #%d but the last chain holding data is #%d (bytes after it would be skipped or overwritten by the next append)" % (idx, withdata[-1]))
    else:
        if idx != 0:
            bad.append("buffer is empty but last_with_datap does not point at &first")
    return bad


# ---------------------------------------------------------------------------------------------------------------------------------
# evaluation support: allocation, release, memory copies, and the default "evaluate callees of buffer.c on the shared heap" policy
from .prog import FREED, HEAP_BASE, EvalError, evalx, callee_name, strip, is_e, key, PPtr
from .interp import normx

USER_IN = 5000000     # address of the caller's input bytes (evbuffer_add data)
USER_OUT = 6000000    # address of the caller's output area (evbuffer_remove / copyout)


def areas(env):
    """writable storage areas of live chains: [(lo, hi, owner)]"""
    out = []
    for k, v in env.items():
        if isinstance(k, tuple) and len(k) == 3 and k[0] == "@" and k[2] == "evbuffer_chain.buffer" and isinstance(v, int):
            ln = env.get(("@", k[1], "evbuffer_chain.buffer_len"))
            if isinstance(ln, int):
                out.append((v, v + ln, k[1]))
    return out


def seed_memory(env, name="buf", tag="d"):
    """give every data byte currently in the buffer a symbolic value (tag, position in the byte string)"""
    pos = 0
    for i, f in chain_list(env, name):
        for j in range(f["off"]):
            env[("m", f["buffer"] + f["misalign"] + j)] = (tag, pos)
            pos += 1
    return pos


def content(env, name="buf"):
    """the byte string the buffer holds (list of symbolic bytes; None for a byte that was never written)"""
    out = []
    for i, f in chain_list(env, name):
        for j in range(f["off"]):
            out.append(env.get(("m", f["buffer"] + f["misalign"] + j)))
    return out


def make_hook(P, fail_alloc=None, extra=None, stub=()):
    """call hook for run_all: functions of buffer.c are evaluated on the shared heap; allocation, release and memory copies act on the abstract memory.
    fail_alloc: index (0-based) of the mm_malloc call that returns NULL, or None."""
    chain_fields = [n for n, t in P.records["evbuffer_chain"]["fields"]] if "evbuffer_chain" in P.records else []

    def viol(e_, msg):
        e_["#viol"] = e_.get("#viol", ()) + (msg,)

    def hook(el, e_):
        n = callee_name(el.e)
        a = el.e[2]
        if extra is not None:
            v = extra(el, e_)
            if v is not None:
                return v
        try:
            if n in ("event_mm_malloc_", "event_mm_calloc_", "malloc"):
                k = e_.get("#nalloc", 0)
                e_["#nalloc"] = k + 1
                if fail_alloc is not None and k == fail_alloc:
                    return 0
                return PPtr(("n", k))
            if n in ("event_mm_free_", "free"):
                p = evalx(normx(a[0]), e_, P)
                if isinstance(p, PPtr):
                    if e_.get(("@", p.id, "#freed")):
                        viol(e_, "double free of %s" % (p.id,))
                    for k in list(e_.keys()):
                        if isinstance(k, tuple) and len(k) == 3 and k[0] == "@" and k[1] == p.id:
                            e_[k] = FREED
                    e_[("@", p.id, "#freed")] = 1
                    e_["#freed"] = e_.get("#freed", ()) + (p.id,)
                return 0
            if n in ("memset", "__builtin___memset_chk", "__builtin_memset"):
                p = evalx(normx(a[0]), e_, P)
                if isinstance(p, PPtr):
                    for fl in chain_fields:
                        e_[("@", p.id, "evbuffer_chain.%s" % fl)] = 0
                    return 0
                return 0
            if n in ("memcpy", "memmove", "__builtin_memcpy", "__builtin___memcpy_chk", "__builtin___memmove_chk", "__builtin_memmove"):
                da, sa_ = strip(normx(a[0])), strip(normx(a[1]))
                if is_e(da, "addr") and is_e(strip(da[1]), "var") or (is_e(da, "var") and isinstance(e_.get(da[1]), PPtr) and isinstance(e_.get(da[1]).id, tuple) and e_.get(da[1]).id[:1] == ("loc",)):
                    # whole-struct copy (memcpy(&it2, &it, sizeof(it)), memcpy(&it, start, sizeof(it))): copy the fields
                    from .interp import struct_to_heap, heap_to_struct, nkey as _nk
                    tmp = {}
                    if is_e(sa_, "addr") and is_e(strip(sa_[1]), "var"):
                        struct_to_heap(e_, key(strip(sa_[1])), ("tmpcopy",), tmp)
                    else:
                        sp = evalx(sa_, e_, P)
                        if not isinstance(sp, PPtr):
                            e_["#err"] = "struct copy from %r" % (sp,)
                            return "impure"
                        def rebase(o):
                            if o == sp.id:
                                return ("tmpcopy",)
                            if isinstance(o, tuple) and len(o) == 3 and o[0] == "sub":
                                return ("sub", rebase(o[1]), o[2])
                            return None
                        for k_, v_ in list(e_.items()):
                            if isinstance(k_, tuple) and len(k_) == 3 and k_[0] == "@":
                                nb_ = rebase(k_[1])
                                if nb_ is not None:
                                    tmp[("@", nb_, k_[2])] = PPtr(rebase(v_.id)) if isinstance(v_, PPtr) and rebase(v_.id) is not None else v_
                    if is_e(da, "addr"):
                        out = {}
                        heap_to_struct(tmp, ("tmpcopy",), strip(da[1]), out)
                        e_.update(out)
                    else:
                        dp = e_.get(da[1])
                        def rebase2(o):
                            if o == ("tmpcopy",):
                                return dp.id
                            if isinstance(o, tuple) and len(o) == 3 and o[0] == "sub":
                                return ("sub", rebase2(o[1]), o[2])
                            return o
                        for k_, v_ in tmp.items():
                            e_[("@", rebase2(k_[1]), k_[2])] = PPtr(rebase2(v_.id)) if isinstance(v_, PPtr) else v_
                    return 0
                d, s_, cnt = evalx(normx(a[0]), e_, P), evalx(normx(a[1]), e_, P), evalx(normx(a[2]), e_, P)
                if not (isinstance(d, int) and isinstance(s_, int) and isinstance(cnt, int)):
                    e_["#err"] = "memcpy with non-address operand (%r, %r, %r)" % (d, s_, cnt)
                    return "impure"
                if cnt < 0 or cnt > 100000:
                    viol(e_, "copy of %d bytes" % cnt)
                    return 0
                if cnt:
                    ars = areas(e_)
                    inside = any(lo <= d and d + cnt <= hi for lo, hi, o in ars) or (USER_OUT <= d and d + cnt <= USER_OUT + 100000)
                    if not inside:
                        viol(e_, "copy of %d bytes to %d leaves the storage of every live chain" % (cnt, d))
                    vals = []
                    for j in range(cnt):
                        if ("m", s_ + j) not in e_:
                            viol(e_, "copy reads byte %d that was never written" % (s_ + j))
                            vals.append(None)
                        else:
                            vals.append(e_[("m", s_ + j)])
                    for j in range(cnt):
                        e_[("m", d + j)] = vals[j]
                return d
            if n in ("evbuffer_invoke_callbacks_", "evthread_is_debug_lock_held_", "event_warn", "event_warnx", "event_debug_", "event_errx"):
                return 0
            if n in stub:
                return 0
            if n in P.fns and P.fns[n].file == "buffer.c":
                return "call"
        except EvalError as ex:
            e_["#err"] = str(ex)
            return "impure"
        return None
    return hook
