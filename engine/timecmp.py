"""Deciding what a timeval comparison means, by order-type enumeration.

evutil_timercmp(a, b, OP) expands to a ternary over tv_sec/tv_usec; libevent also writes such tests by hand
(common_timeout_callback).  Instead of matching the spelling, the comparison is *evaluated* on one representative
of each of the nine order types (sec <,=,> x usec <,=,>) of its two operands and summarised as the set of
lexicographic outcomes {-1,0,+1} on which it is true: {-1}: a<b, {-1,0}: a<=b, {1}: a>b, {0,1}: a>=b, ...
A result that is not a function of the lexicographic order ('mixed') is itself a defect for a deadline test.
"""
from .prog import is_e, strip, key, walk, show, evalx, EvalError
from .interp import normx, nkey, run as irun

SEC, USEC = "timeval.tv_sec", "timeval.tv_usec"
REL = {frozenset([-1]): "<", frozenset([-1, 0]): "<=", frozenset([1]): ">", frozenset([0, 1]): ">=",
       frozenset([0]): "==", frozenset([-1, 1]): "!=", frozenset(): "never", frozenset([-1, 0, 1]): "always"}


def tv_leaves(e):
    """[(base_key, base_expr, 'sec'|'usec')] of every timeval field read in e (normalised)."""
    out = []
    for s in walk(normx(e)):
        if is_e(s, "fld") and s[2] in (SEC, USEC):
            out.append((key(s[1]), s[1], "sec" if s[2] == SEC else "usec"))
    return out


def bases(e):
    seen, out = set(), []
    for k, b, w in tv_leaves(e):
        if k not in seen:
            seen.add(k)
            out.append(b)
    return out


ORDER_TYPES = [(ds, du) for ds in (1, 2, 3) for du in (1, 2, 3)]   # operand A against B = (2, 2)


def lex(ds, du, bs=2, bu=2):
    a, b = (ds, du), (bs, bu)
    return (a > b) - (a < b)


def env_for(A, B, ds, du, hi_a=0, hi_b=0):
    """environment giving A = (ds, du|hi_a) and B = (2, 2|hi_b)"""
    return {key(["fld", A, SEC, "."]): ds, key(["fld", A, USEC, "."]): du | hi_a,
            key(["fld", B, SEC, "."]): 2, key(["fld", B, USEC, "."]): 2 | hi_b}


def rel_of_expr(e, A, B, P=None, extra=None, hi_a=0, hi_b=0):
    """relation symbol of boolean expression e as a function of lex(A, B); 'mixed' if it is not one; None if not evaluable"""
    e = normx(e)
    true_on = set()
    by_lex = {}
    for ds, du in ORDER_TYPES:
        env = env_for(A, B, ds, du, hi_a, hi_b)
        if extra:
            env.update(extra)
        try:
            v = bool(evalx(e, env, P))
        except EvalError:
            return None
        l = lex(ds, du)
        if by_lex.setdefault(l, v) != v:
            return "mixed"
        if v:
            true_on.add(l)
    return REL[frozenset(true_on)]


def timercmps(e, P=None):
    """every timercmp-shaped ternary inside e: [(A, B, rel, node)]"""
    out = []
    for s in walk(normx(e)):
        if is_e(s, "cond"):
            t = strip(s[1])
            if is_e(t, "bin") and t[1] == "==":
                l, r = strip(t[2]), strip(t[3])
                if is_e(l, "fld") and is_e(r, "fld") and l[2] == SEC and r[2] == SEC:
                    A, B = l[1], r[1]
                    out.append((A, B, rel_of_expr(s, A, B, P), s))
    return out


def rel_of_region(fn, start, reach_pred, A, B, P=None, extra_envs=None, call_value=None, hi_a=0, hi_b=0, exit_blocks=()):
    """Evaluate the CFG region from `start` on every order type of (A, B) (x every extra environment) and summarise on
    which lexicographic outcomes an element satisfying reach_pred is reached.  Returns (rel, detail) where rel is a
    relation symbol, 'mixed', or None (not evaluable; detail says why)."""
    true_on = set()
    by_lex = {}
    detail = []
    for ds, du in ORDER_TYPES:
        for extra in (extra_envs or [{}]):
            env = env_for(A, B, ds, du, hi_a, hi_b)
            env.update(extra)
            o = irun(fn, start, env, reach_pred, P, call_value, exit_blocks=exit_blocks)
            if o.kind == "unknown":
                return None, "order type (%d,%d): %s" % (ds, du, o.why)
            v = o.kind == "stop"
            l = lex(ds, du)
            detail.append(((ds, du), o.kind))
            if by_lex.setdefault(l, v) != v:
                return "mixed", "order types with the same lexicographic order disagree (%s)" % detail
            if v:
                true_on.add(l)
    return REL[frozenset(true_on)], detail
