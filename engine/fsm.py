"""Finite-state evaluation of the event flag machine (K5/K6 over the 6-bit EVLIST_* domain).

The list-membership flags of an event are six bits; the functions that move an event between lists touch them, two
counters and the result word only through bit tests, |=, &=~ and +-1.  Each such function's extracted CFG is
evaluated (engine/interp.py — no libevent code runs) on *every* flag value and on every choice of the few external
results it consults (evmap add/del result, heap reservation), with calls to the other functions of the machine
resolved by evaluating those in turn.  The outcome relation (flags', counters', result word', return value, notable
calls) is what the property modules compare with the documented state machine.
"""
from .prog import is_e, strip, key, walk, show, callee_name, evalx, EvalError
from .interp import normx, nkey, run_all, Outcome
from .facts import AnalysisBroken

EVLIST = {"TIMEOUT": 0x01, "INSERTED": 0x02, "SIGNAL": 0x04, "ACTIVE": 0x08, "INTERNAL": 0x10, "ACTIVE_LATER": 0x20, "FINALIZING": 0x40, "INIT": 0x80}
EV = {"TIMEOUT": 0x01, "READ": 0x02, "WRITE": 0x04, "SIGNAL": 0x08, "PERSIST": 0x10, "ET": 0x20, "FINALIZE": 0x40, "CLOSED": 0x80}

STATE = ("flags", "res", "events", "count", "active", "pri")
FIELD = {"flags": "event_callback.evcb_flags", "res": "event.ev_res", "events": "event.ev_events", "pri": "event_callback.evcb_pri"}
BASEF = {"count": "event_base.event_count", "active": "event_base.event_count_active", "count_max": "event_base.event_count_max",
         "active_max": "event_base.event_count_active_max", "running_pri": "event_base.event_running_priority", "continue": "event_base.event_continue",
         "virtual": "event_base.virtual_event_count", "running_loop": "event_base.running_loop", "owner": "event_base.th_owner_id",
         "lock": "event_base.th_base_lock", "current": "event_base.current_event", "waiters": "event_base.current_event_waiters",
         "notify_pending": "event_base.is_notify_pending", "cond": "event_base.current_event_cond"}


class Binding(object):
    """how the canonical event/base state appears in one function (by parameter types)"""

    def __init__(self, fn):
        self.fn = fn
        self.ev = self.evcb = self.base = None
        for n, t in fn.params:
            tt = t.replace("const ", "")
            if tt == "struct event *" and self.ev is None:
                self.ev = ["var", n, "param"]
            elif tt == "struct event_callback *" and self.evcb is None:
                self.evcb = ["var", n, "param"]
            elif tt == "struct event_base *" and self.base is None:
                self.base = ["var", n, "param"]

    def keys(self, name):
        """all keys under which canonical state component `name` may be read in this function"""
        out = []
        if name in ("flags", "pri"):
            if self.ev is not None:
                out.append(key(["fld", ["fld", self.ev, "event.ev_evcallback", "->"], FIELD[name], "."]))
            if self.evcb is not None:
                out.append(key(["fld", self.evcb, FIELD[name], "->"]))
        elif name in ("res", "events"):
            if self.ev is not None:
                out.append(key(["fld", self.ev, FIELD[name], "->"]))
        elif name in BASEF:
            if self.base is not None:
                out.append(key(["fld", self.base, BASEF[name], "->"]))
            if self.ev is not None:
                out.append(key(["fld", ["fld", self.ev, "event.ev_base", "->"], BASEF[name], "->"]))
            for loc in ("base",):
                if loc in self.fn.locals:
                    out.append(key(["fld", ["var", loc, "local"], BASEF[name], "->"]))
        return out

    def env(self, st):
        e = {}
        for name, v in st.items():
            if v is None:
                continue
            for k in self.keys(name):
                e[k] = v
        if self.ev is not None:
            e[self.ev[1]] = 1
            e[key(["fld", self.ev, "event.ev_base", "->"])] = 1
        if self.evcb is not None:
            e[self.evcb[1]] = 1
        if self.base is not None:
            e[self.base[1]] = 1
        return e

    def read(self, env, names, before=None):
        """canonical state after evaluation; a component stored through any of its aliases wins over the untouched ones"""
        st = {}
        for name in names:
            vals = [env.get(k) for k in self.keys(name) if k in env]
            if before is not None and name in before:
                ch = [v for v in vals if v != before[name]]
                st[name] = ch[0] if ch else (vals[0] if vals else before[name])
            else:
                st[name] = vals[0] if vals else None
        return st


class Machine(object):
    EXTERNAL = {  # callee -> list of possible results (None = value not needed / unknown)
        "evmap_io_add_": [0, 1, -1], "evmap_signal_add_": [0, 1, -1], "evmap_io_del_": [0, 1, -1], "evmap_signal_del_": [0, 1, -1],
        "min_heap_reserve_": [0, -1], "gettime": [0], "is_same_common_timeout": [1],
    }
    MODELLED = ("event_queue_insert_inserted", "event_queue_remove_inserted", "event_queue_insert_active", "event_queue_remove_active",
                "event_queue_insert_active_later", "event_queue_remove_active_later", "event_queue_insert_timeout", "event_queue_remove_timeout",
                "event_queue_reinsert_timeout",
                "event_callback_activate_nolock_", "event_callback_activate_later_nolock_", "event_callback_cancel_nolock_",
                "event_active_nolock_", "event_active_later_nolock_", "event_del_nolock_", "event_add_nolock_", "event_remove_timer_nolock_")
    NOTABLE = ("evthread_notify_base", "evmap_io_add_", "evmap_signal_add_", "evmap_io_del_", "evmap_signal_del_", "min_heap_push_", "min_heap_erase_",
               "insert_common_timeout_inorder", "common_timeout_schedule", "min_heap_adjust_")

    NOTABLE_SLOTS = {"evthread_condition_callbacks.wait_condition": "COND_WAIT", "evthread_condition_callbacks.signal_condition": "COND_SIGNAL"}

    def __init__(self, P, thread_id=None, globals_=None):
        self.P = P
        self.globals = dict(globals_ or {})
        self.memo = {}
        self.bind = {}
        self.thread_id = thread_id      # value returned by (*evthread_id_fn_)() when the rule wants to fix "which thread calls"

    def binding(self, name):
        if name not in self.bind:
            self.bind[name] = Binding(self.P.fn(name))
        return self.bind[name]

    def evaluate(self, name, st, args=None, depth=0, extra=None, region=None, ev_var=None):
        """All outcomes of function `name` from canonical state st (dict over STATE + optional BASEF names) with integer
        parameter values `args` {param: int}.  Returns list of dict(ret=, st=, calls=(...), choices=(...), unknown=why|None)."""
        args = args or {}
        mk = (name, tuple(sorted((k, v) for k, v in st.items())), tuple(sorted(args.items())), tuple(sorted((str(k), v) for k, v in (extra or {}).items())),
              (region[0], id(region[1])) if region else None)
        if mk in self.memo:
            return self.memo[mk]
        if depth > 6:
            raise AnalysisBroken("flag machine recursion too deep at %s" % name)
        P = self.P
        f = P.fn(name)
        b = self.binding(name)
        if ev_var is not None:
            # the event is held in a local (e.g. a queue head), not a parameter
            b = Binding(f)
            b.ev = ev_var
        env = b.env(st)
        env.update(args)
        if extra:
            env.update(extra)
        env["event_debug_logging_mask_"] = 0
        env["event_debug_mode_on_"] = 0
        env.update(self.globals)
        M = self

        def hook(el, env_):
            n = callee_name(el.e)
            if n is None:
                if el.e[1][0] == "ptr" and M.thread_id is not None and any(is_e(q, "var") and q[1] == "evthread_id_fn_" for q in walk(el.e[1])):
                    return M.thread_id
                return None
            if n in M.MODELLED and P.has(n):
                cur = b.read(env_, list(st.keys()), st)
                for k_ in st:
                    if cur.get(k_) is None:
                        cur[k_] = st[k_]
                cb = M.binding(n)
                g = P.fn(n)
                cargs = {}
                for (pn, pt), a in zip(g.params, el.e[2]):
                    if pt in ("int", "short", "unsigned int", "unsigned"):
                        try:
                            cargs[pn] = evalx(normx(a), env_, P)
                        except EvalError:
                            pass
                outs = M.evaluate(n, cur, cargs, depth + 1)
                alts = []
                for o in outs:
                    if o["unknown"]:
                        return "impure"
                    upd = {}
                    for nm, v in o["st"].items():
                        if v is None:
                            continue
                        for k_ in b.keys(nm):
                            upd[k_] = v
                    upd[("#calls", el.n, len(alts))] = (n,) + tuple(o["calls"])
                    upd[("#choices", el.n, len(alts))] = tuple(o["choices"])
                    alts.append((o["ret"], upd))
                return alts
            if n in M.EXTERNAL:
                vals = M.EXTERNAL[n]
                if len(vals) == 1:
                    return vals[0]
                return [(v, {("#choices", el.n, i): ((n, v),)}) for i, v in enumerate(vals)]
            if n in ("event_to_event_callback", "event_callback_to_event"):
                return 1
            return None

        def notable(el):
            if el.e[0] == "call":
                n = callee_name(el.e)
                if n in M.NOTABLE or n in M.MODELLED:
                    return n
                sl = el.e[1][1] if el.e[1][0] == "slot" else None
                if sl in M.NOTABLE_SLOTS:
                    return M.NOTABLE_SLOTS[sl]
            elif el.mac and el.mac[-1].startswith(("TAILQ_INSERT", "TAILQ_REMOVE")):
                return el.mac[-1]
            return None

        if region:
            outs = run_all(f, region[0], env, region[1], P, hook, max_steps=1500, notable=notable, exit_blocks=region[2] if len(region) > 2 else ())
        else:
            outs = run_all(f, (f.entry, 0), env, lambda el: False, P, hook, max_steps=1500, notable=notable)
        res = []
        for o in outs:
            if o.kind == "exit" and o.why == "noreturn":
                continue
            if o.kind == "unknown":
                res.append({"ret": None, "st": None, "calls": (), "choices": (), "unknown": "%s: %s" % (name, o.why)})
                continue
            rv = None
            if o.kind == "ret" and len(o.at.e) > 1 and o.at.e[1] is not None and not is_e(o.at.e[1], "null"):
                try:
                    rv = evalx(normx(o.at.e[1]), o.env, P)
                except EvalError:
                    rv = None
            calls = []
            sub = {}
            for k_, v in o.env.items():
                if isinstance(k_, tuple) and len(k_) == 3 and k_[0] == "#calls":
                    sub.setdefault(v[0], []).append(v[1:])
            for nm in o.env.get("#trace", ()):
                calls.append(nm)
                if nm in sub and sub[nm]:
                    calls.extend(sub[nm].pop(0))
            choices = []
            for k_, v in sorted((k_ for k_ in o.env.items() if isinstance(k_[0], tuple) and len(k_[0]) == 3 and k_[0][0] == "#choices"), key=lambda kv: str(kv[0])):
                choices.extend(v)
            res.append({"ret": rv, "st": b.read(o.env, list(st.keys()), st), "calls": tuple(calls), "choices": tuple(choices), "unknown": None, "kind": o.kind,
                        "env": {k_: o.env.get(k_) for k_ in (extra or {})}})
        # de-duplicate
        seen, out = set(), []
        for r_ in res:
            k_ = (r_["ret"], tuple(sorted(r_["st"].items())) if r_["st"] else None, r_["calls"], r_["choices"], r_["unknown"], r_.get("kind"), tuple(sorted((str(a), b_) for a, b_ in r_.get("env", {}).items())))
            if k_ not in seen:
                seen.add(k_)
                out.append(r_)
        self.memo[mk] = out
        return out
