"""C29 — URI escaping / HTML escaping: table parts decided completely (K6), loop guards (K4); round trips declined."""
from ..core import Rule
from ..interp import normx, nkey
from ..prog import *
from ..facts import AnalysisBroken

UNITS = ["http", "evutil"]
LEVEL = "other"
EXHAUSTIVE = False
EXPLANATION = ("K6: uri_chars[256] is compared entry by entry with RFC 3986 'unreserved' (ALPHA / DIGIT / - . _ ~); html_replace's switch is "
               "extracted from the CFG and must map exactly < > \" ' & to entities that contain no raw markup character, with the returned length equal to the "
               "entity's strlen and 1 for everything else. K4/K7: in evhttp_uriencode a raw byte is copied only under the unreserved test indexed by an "
               "unsigned char, '+' is produced only under space_as_plus for ' ', everything else goes through \"%%%02X\" of the unsigned byte; "
               "evhttp_htmlescape's sizing pass and copy pass call html_replace on the same byte and the allocation is the summed size + 1; in "
               "evhttp_decode_uri_internal every read of uri[i+k] is dominated by i+k' < length (k' >= k), there is exactly one output store per iteration "
               "and i advances on every path between two stores (so j <= i <= length: the decoder never writes more than its input length + NUL). "
               "Decides those clauses; does not decide the encode/decode round trip or query splitting (runtime strings).")
ASSUMPTIONS = ["ASCII execution character set"]
CONFIGS = ["build", "assert"]

UNRESERVED = set(range(48, 58)) | set(range(65, 91)) | set(range(97, 123)) | set(map(ord, "-._~"))
ENT = {ord("<"): "&lt;", ord(">"): "&gt;", ord('"'): "&quot;", ord("'"): "&#039;", ord("&"): "&amp;"}
U8 = ("unsigned char", "ev_uint8_t", "uint8_t")


def ref_query(q, flags):
    """the documented splitter: pairs separated by '&', key and value by the first '='; value form-decoded ('+' is a space, %XX a byte).  Conformant mode refuses a pair without '=' or
    with an empty key; NONCONFORMANT (0x01) reads a bare key as key with an empty value and skips pairs with an empty key; LAST_VAL (0x02) keeps only the last value of a key (keys compare
    without case).  -> list of (key, value) or None (refused)"""
    def dec(v):
        out = bytearray()
        i = 0
        while i < len(v):
            c = v[i:i + 1]
            if c == b"+":
                out.append(32)
            elif c == b"%" and i + 2 < len(v) + 0 and all(x in b"0123456789abcdefABCDEF" for x in v[i + 1:i + 3]) and len(v[i + 1:i + 3]) == 2:
                out.append(int(v[i + 1:i + 3], 16))
                i += 2
            else:
                out += c
            i += 1
        return bytes(out)
    out = []
    if not q:
        return out
    pieces = q.split(b"&")
    if pieces and pieces[-1] == b"":
        pieces = pieces[:-1]          # a trailing '&' ends the list
    for pc in pieces:
        if b"=" in pc:
            k, v = pc.split(b"=", 1)
        else:
            k, v = pc, None
        if flags & 1:
            if v is None:
                v = b""
            if k == b"":
                continue
        else:
            if v is None or k == b"":
                return None
        if flags & 2:
            out = [(a, b) for a, b in out if a.lower() != k.lower()]
        out.append((k, dec(v)))
    return out


def rule_query(P):
    from ..cmem import MEM0, mem_put, mem_str, mem_hook
    from ..interp import run_all
    from ..prog import PPtr, PStr
    r = Rule("C29-query", "K6", "evhttp_parse_query_str_flags yields exactly the pairs of the documented splitter, for every flag combination", floor=60)
    f = P.fn("evhttp_parse_query_impl")
    queries = [b"a=1", b"a=1&b=2", b"a=1&a=2", b"a=1&a=", b"a=&a=1", b"a", b"a&b=1", b"=1", b"a=1&&b=2", b"a=b=c", b"a=%41+b", b"A=1&a=2", b"", b"a=1&", b"&a=1", b"a=1&b", b"q=old&r=2&Q=", b"a=1&a",
               b"a=%4", b"a=%zz&b=+", b"k=v&K=w&k=x"]
    nb = 0
    for q in queries:
        for flags in (0, 1, 2, 3):
            env = {"#typed": 1, "#bytemem": 1, "event_debug_logging_mask_": 0, f.params[0][0]: MEM0, f.params[1][0]: PPtr("hdrs"), ("@", "hdrs", "#zero"): 1, f.params[2][0]: 0, f.params[3][0]: flags, "#list": (), "#cleared": 0}
            mem_put(env, MEM0, q)

            def extra(el, e_):
                n = callee_name(el.e)
                a = el.e[2]
                if n == "strsep":
                    sp = strip(a[0])
                    if not (is_e(sp, "addr") and is_e(strip(sp[1]), "var")):
                        return "impure"
                    v = strip(sp[1])[1]
                    cur = e_.get(v)
                    if not cur:
                        return 0
                    dl = evalx(normx(a[1]), e_, P).text()
                    t = mem_str(e_, cur)
                    if t is None:
                        return "impure"
                    for i, ch in enumerate(t):
                        if ch in dl:
                            e_[("m", cur + i)] = 0
                            e_[v] = cur + i + 1
                            return cur
                    e_[v] = 0
                    return cur
                if n == "evhttp_decode_uri_internal":
                    src, ln, dst, plus = [evalx(normx(x), e_, P) for x in a[:4]]
                    raw = bytes(e_.get(("m", src + k), 0x3f) for k in range(ln))
                    dec = ref_query(b"k=" + raw, 0)
                    val = dec[0][1] if dec else raw
                    if not plus:
                        return "impure"
                    mem_put(e_, dst, val)
                    return len(val)
                if n == "evhttp_remove_header":
                    k = mem_str(e_, evalx(normx(a[1]), e_, P))
                    e_["#list"] = tuple((x, y) for x, y in e_["#list"] if x.lower() != k.lower())
                    return 0
                if n == "evhttp_add_header_internal":
                    k = mem_str(e_, evalx(normx(a[1]), e_, P))
                    v = evalx(normx(a[2]), e_, P)
                    v = v.text() if isinstance(v, PStr) else mem_str(e_, v)
                    if k is None or v is None:
                        e_["#oob"] = "a key or value handed to the header list is not a terminated string inside its buffer"
                        return 0
                    e_["#list"] = e_["#list"] + ((k, v),)
                    return 0
                if n == "evhttp_clear_headers":
                    e_["#list"] = ()
                    e_["#cleared"] = 1
                    return 0
                return None
            outs = [o for o in run_all(f, (f.entry, 0), env, lambda el: False, P, mem_hook(P, extra), max_steps=8000) if not (o.kind == "exit" and o.why == "noreturn")]
            want = ref_query(q, flags)
            for o in outs:
                if o.kind != "ret":
                    r.brk("evhttp_parse_query_impl(%r, %d): %s %s %s" % (q, flags, o.kind, o.why, o.env.get("#err", "")))
                    return r
                try:
                    rv = evalx(normx(o.at.e[1]), o.env, P)
                except EvalError as ex:
                    r.brk("evhttp_parse_query_impl(%r): return value: %s" % (q, ex))
                    return r
                got = list(o.env["#list"])
                r.inst((q, flags), {"query": q.decode(), "flags": flags, "returns": rv, "pairs": [[k.decode("latin-1"), v.decode("latin-1")] for k, v in got]})
                bad = None
                if o.env.get("#oob"):
                    bad = o.env["#oob"]
                elif (rv == 0) != (want is not None):
                    bad = "returns %d; the documented splitter %s" % (rv, "accepts it" if want is not None else "refuses it")
                elif rv == 0 and got != want:
                    bad = "yields %s; the documented splitter yields %s" % (got, want)
                elif rv != 0 and got:
                    bad = "refuses the query but leaves %s in the list" % got
                if bad and nb < 8:
                    nb += 1
                    r.bad("K6:evhttp_parse_query_impl:%s" % ("last-val" if flags & 2 and rv == 0 else "pairs"), "%s:%d" % (f.file, f.line), f.name, "query %r, flags %#x: %s" % (q, flags, bad))
    seen, uniq = set(), []
    for f_ in r.findings:
        if f_.key not in seen:
            seen.add(f_.key)
            uniq.append(f_)
    r.findings = uniq
    return r


def ref_decode(t, ctl):
    """evhttp_decode_uri_internal as documented: %XY with two hexadecimal digits is the byte; '+' is a space when plus-decoding is on (always for ctl 1, behind the first '?' for ctl -1)"""
    plus = ctl == 1
    out = bytearray()
    i = 0
    HEXD = b"0123456789abcdefABCDEF"
    while i < len(t):
        c = t[i]
        if c == 0x3f:
            if ctl < 0:
                plus = True
        elif c == 0x2b and plus:
            c = 0x20
        elif i + 2 < len(t) and c == 0x25 and t[i + 1] in HEXD and t[i + 2] in HEXD:
            c = int(t[i + 1:i + 3], 16)
            i += 2
        out.append(c)
        i += 1
    return bytes(out)


def rule_decode_eval(P):
    """the decoder evaluated on every string over {a % 4 z + ?} up to length 3 and on longer escapes, in byte memory that holds exactly `length` input bytes (a look-ahead behind the end
    reads a byte that holds no data) and an output block of length+1: the output is the documented decoding, terminated, its length is returned, nothing is written outside the block"""
    from ..cmem import MEM0, mem_put
    from ..interp import run_all
    import itertools
    r = Rule("C29-decode-eval", "K6", "evhttp_decode_uri_internal: output = documented decoding, at most length bytes + terminator written inside the output block, no read behind the input", floor=500)
    f = P.fn("evhttp_decode_uri_internal")
    OUT = MEM0 + 5000
    alpha = b"a%4z+?"
    inputs = [bytes(x) for n in range(0, 4) for x in itertools.product(alpha, repeat=n)] + [b"%41%", b"a%4", b"%4%41", b"+%2b?+", b"%41%42", b"?+%20+", b"%e9%C9", b"%%41", b"%4z%41", b"a?b+c", b"%41a",
              b"%3F+", b"%3f+a+", b"a%3F+?+", b"%3F%2B+", b"+%3F+"]      # an ESCAPED question mark is data: it does not start the query part
    HEXD = b"0123456789abcdefABCDEF"
    pairs = [b"%" + bytes([x, y]) + b"." for x in HEXD for y in HEXD]          # every pair of hexadecimal digits, in either case
    nb = 0
    for t, ctls in [(t, (-1, 0, 1)) for t in inputs] + [(t, (0,)) for t in pairs]:
        for ctl in ctls:
            env = {"#typed": 1, "#bytemem": 1, f.params[0][0]: MEM0, f.params[1][0]: len(t), f.params[2][0]: OUT, f.params[3][0]: ctl}
            mem_put(env, MEM0, t, terminate=False)

            def hook(el, e_):
                n = callee_name(el.e)
                if n == "strtol":
                    a0 = strip(el.e[2][0])
                    try:
                        d0 = e_.get(nkey(["idx", a0, ["int", 0]]))
                        d1 = e_.get(nkey(["idx", a0, ["int", 1]]))
                        if d0 is None or d1 is None:
                            e_["#oob"] = "converts hexadecimal digits that were read behind the input"
                            return 0
                        return int(bytes([d0 & 0xff, d1 & 0xff]), 16)
                    except Exception:
                        return "impure"
                return None
            outs = [o for o in run_all(f, (f.entry, 0), env, lambda el: False, P, hook, max_steps=600) if not (o.kind == "exit" and o.why == "noreturn")]
            want = ref_decode(t, ctl)
            for o in outs:
                bad = None
                if o.env.get("#oob"):
                    bad = ("read-behind-input", o.env["#oob"])
                elif o.kind == "unknown" and "holds no data" in (o.why or ""):
                    bad = ("read-behind-input", "reads a byte behind the %d input bytes (%s)" % (len(t), o.why[:80]))
                elif o.kind != "ret":
                    r.brk("evhttp_decode_uri_internal(%r, %d): %s %s" % (t, ctl, o.kind, o.why))
                    return r
                else:
                    try:
                        rv = tevalx(normx(o.at.e[1]), o.env, P, f)
                    except EvalError as ex:
                        r.brk("evhttp_decode_uri_internal: return value: %s" % ex)
                        return r
                    written = sorted(k[1] - OUT for k in o.env if isinstance(k, tuple) and k[0] == "m" and (k[1] >= OUT - 64) and k[1] < OUT + 4096)
                    got = bytes((o.env.get(("m", OUT + i), 0x3f) & 0xff) for i in range(len(want)))
                    if written and (written[0] < 0 or written[-1] > len(t)):
                        bad = ("write-outside", "writes at offsets %s of an output block of %d bytes" % ([w for w in written if w < 0 or w > len(t)], len(t) + 1))
                    elif rv != len(want) or got != want or o.env.get(("m", OUT + len(want))) != 0:
                        bad = ("output", "yields %r (returns %r, terminator %r); documented %r" % (got, rv, o.env.get(("m", OUT + len(want))), want))
                r.inst((t, ctl), {"input": t.decode("latin-1"), "decode_plus_ctl": ctl, "output": want.decode("latin-1")} if nb < 3 and t == b"%41" else None)
                if bad and nb < 6:
                    nb += 1
                    r.bad("K6:evhttp_decode_uri_internal:%s" % bad[0], "%s:%d" % (f.file, f.line), f.name, "input %r, decode_plus_ctl %d: %s" % (t, ctl, bad[1]))
    seen, uniq = set(), []
    for f_ in r.findings:
        if f_.key not in seen:
            seen.add(f_.key)
            uniq.append(f_)
    r.findings = uniq
    return r


def run(ctx, config):
    P = ctx.prog(UNITS, config)
    rules = []
    # ---- uri_chars
    r = Rule("C29-uri_chars", "K6", "uri_chars[256] == RFC 3986 unreserved", floor=256)
    vals = table_values(P.global_("uri_chars"))
    g = P.global_("uri_chars")
    if len(vals) != 256:
        r.brk("uri_chars has %d entries" % len(vals))
    else:
        bad = []
        for c in range(256):
            r.inst(c, {"byte": c, "table": vals[c], "unreserved": c in UNRESERVED} if c in (45, 47) else None)
            if bool(vals[c]) != (c in UNRESERVED):
                bad.append(c)
        if bad:
            r.bad("K6:uri_chars:mismatch", "%s:%d" % (g["file"], g["line"]), "uri_chars",
                  "differs from RFC 3986 unreserved for bytes %s" % bad[:16])
    rules.append(r)

    # ---- evhttp_uriencode
    r2 = Rule("C29-uriencode", "K4", "evhttp_uriencode: raw copy only under the unreserved test (unsigned index), '+' only for ' ' under space_as_plus, else %%%02X of the unsigned byte", floor=4)
    f = P.fn("evhttp_uriencode")
    sap = f.params[2][0]
    def is_unres_test(c):
        c = strip(c)
        return is_e(c, "idx") and eq(c[1], ["var", "uri_chars", "global"])
    tests = [b for b in f.branch_blocks() if is_unres_test(negate_truth(b.term["cond"], True)[0])]
    if len(tests) != 1:
        r2.brk("expected one uri_chars test in evhttp_uriencode, found %d" % len(tests))
    else:
        ix = strip(negate_truth(tests[0].term["cond"], True)[0])[2]
        r2.inst("index", {"site": "%s:%d" % (f.file, tests[0].term["loc"][0]), "index": show(ix)})
        if not (is_e(ix, "cast") and ix[1] in U8 and is_e(strip(ix[2]), "deref")):
            r2.bad("K4:evhttp_uriencode:index-not-unsigned-byte", "%s:%d" % (f.file, tests[0].term["loc"][0]), f.name,
                   "uri_chars is indexed by %s, not by an unsigned-char conversion of the byte (bytes >= 0x80 would index out of the table)" % show(ix))
    for el in f.calls():
        n = callee_name(el.e)
        if n not in ("evbuffer_add", "evbuffer_add_printf"):
            continue
        gs = [(negate_truth(c, t)) for c, t, b in f.guards_at(el.bid)]
        in_loop = any(is_e(strip(c), "bin") and strip(c)[1] == "<" for c, t in gs if t)
        if not in_loop:
            continue   # the NUL terminator after the loop
        unres = [t for c, t in gs if is_unres_test(c)]
        if n == "evbuffer_add":
            a1 = strip(el.e[2][1])
            if is_e(a1, "str"):
                ok = a1[1] == "+" and unres == [False] and any(t and eq(c, ["var", sap, "param"]) for c, t in gs) and \
                    any(t and is_e(strip(c), "bin") and strip(c)[1] == "==" and is_e(strip(strip(c)[3]), "int") and strip(strip(c)[3])[1] == 32 for c, t in gs)
                r2.inst(("plus", el.n), {"site": el.where(), "call": show(el.e), "under_space_as_plus_and_space": ok})
                if not ok:
                    r2.bad("K4:evhttp_uriencode:literal-output", el.where(), f.name,
                           "literal %s is emitted outside (byte == ' ' && space_as_plus && !unreserved)" % show(a1))
            else:
                ok = unres == [True]
                r2.inst(("raw", el.n), {"site": el.where(), "call": show(el.e), "under_unreserved_test": ok})
                if not ok:
                    r2.bad("K4:evhttp_uriencode:raw-copy-unguarded", el.where(), f.name, "a raw input byte is copied without the unreserved test being true")
        else:
            fmt = strip(el.e[2][1])
            arg = el.e[2][2] if len(el.e[2]) > 2 else None
            ok = is_e(fmt, "str") and fmt[1] in ("%%%02X", "%%%02x") and arg is not None and is_e(arg, "cast") and arg[1] in U8 and unres == [False]
            r2.inst(("pct", el.n), {"site": el.where(), "call": show(el.e), "ok": ok})
            if not ok:
                r2.bad("K4:evhttp_uriencode:escape-format", el.where(), f.name,
                       "escape must be \"%%%%%%02X\" of the unsigned byte on the not-unreserved edge; found %s" % show(el.e))
    rules.append(r2)

    # ---- html_replace
    r3 = Rule("C29-html", "K6/K7", "html_replace covers exactly < > \" ' & with correct entity lengths; evhttp_htmlescape's two passes agree", floor=8)
    f = P.fn("html_replace")
    sw = [b for b in f.blocks.values() if b.term and b.term["k"] == "switch"]
    found = {}
    if len(sw) != 1:
        r3.brk("html_replace: expected one switch")
    else:
        for s, _ in sw[0].succ:
            cb = f.blocks[s]
            if not cb.label or cb.label[0] != "case":
                continue
            ent = None
            ret = None
            for b in [x for x in f.blocks if f.dominates(s, x)]:
                for el in f.blocks[b].elems:
                    if el.e[0] == "asg" and is_e(strip(el.e[3]), "str"):
                        ent = strip(el.e[3])[1]
                    if el.e[0] == "ret" and is_e(strip(el.e[1]), "int"):
                        ret = strip(el.e[1])[1]
            found[cb.label[1]] = (ent, ret, cb)
        for ch, want in ENT.items():
            got = found.get(ch)
            r3.inst(("case", ch), {"char": chr(ch), "entity": got[0] if got else None, "returned_len": got[1] if got else None})
            if not got:
                r3.bad("K6:html_replace:missing-%d" % ch, "%s:%d" % (f.file, f.line), f.name, "markup character %r is not replaced" % chr(ch))
                continue
            ent, ret, cb = got
            if ent is None or ret != len(ent):
                r3.bad("K6:html_replace:length-%d" % ch, "%s:%d" % (f.file, f.line), f.name,
                       "entity %r for %r has strlen %s but html_replace returns %s" % (ent, chr(ch), len(ent) if ent else None, ret))
            elif not (ent.startswith("&") and ent.endswith(";") and not any(x in ent[1:] for x in "<>\"'&")):
                r3.bad("K6:html_replace:entity-%d" % ch, "%s:%d" % (f.file, f.line), f.name, "replacement %r for %r contains raw markup" % (ent, chr(ch)))
            elif ent != want:
                r3.bad("K6:html_replace:entity-%d" % ch, "%s:%d" % (f.file, f.line), f.name, "replacement for %r is %r, which does not unescape to it (expected %r)" % (chr(ch), ent, want))
        for ch in sorted(set(found) - set(ENT)):
            r3.bad("K6:html_replace:extra-%d" % ch, "%s:%d" % (f.file, f.line), f.name, "unexpected replacement for byte %d" % ch)
        # default: returns 1 and does not touch *escaped
        dflt = [r_ for r_ in f.returns() if not any(f.dominates(s, r_.bid) for s, _ in sw[0].succ if f.blocks[s].label and f.blocks[s].label[0] == "case")]
        r3.inst("default", {"default_returns": [show(x.e) for x in dflt]})
        if not dflt or any(not (is_e(strip(x.e[1]), "int") and strip(x.e[1])[1] == 1) for x in dflt):
            r3.bad("K6:html_replace:default", "%s:%d" % (f.file, f.line), f.name, "unlisted bytes must have length 1")
    f = P.fn("evhttp_htmlescape")
    calls = list(f.calls("html_replace"))
    r3.inst("passes", {"fn": f.name, "html_replace_calls": [show(c.e) for c in calls]})
    if len(calls) != 2 or not eq(calls[0].e[2][0], calls[1].e[2][0]):
        r3.bad("K7:evhttp_htmlescape:passes-disagree", "%s:%d" % (f.file, f.line), f.name,
               "the sizing pass and the copy pass must both call html_replace on html[i]")
    allocs = list(f.calls("event_mm_malloc_"))
    if len(allocs) != 1 or not (is_e(strip(allocs[0].e[2][0]), "bin") and strip(allocs[0].e[2][0])[1] == "+" and
                                is_e(strip(strip(allocs[0].e[2][0])[3]), "int") and strip(strip(allocs[0].e[2][0])[3])[1] >= 1):
        r3.bad("K4:evhttp_htmlescape:alloc-size", "%s:%d" % (f.file, f.line), f.name, "allocation must be the summed size + 1 (NUL)")
    else:
        r3.inst("alloc", {"site": allocs[0].where(), "size": show(allocs[0].e[2][0])})
    # memcpy length is the value returned by the second html_replace call
    mc = list(f.calls("memcpy"))
    lens = [el for el in f.elems() if el.e[0] == "decl" and is_e(strip(el.e[3]), "call") and callee_name(strip(el.e[3])) == "html_replace"]
    ok = len(mc) == 1 and any(eq(mc[0].e[2][2], ["var", d.e[1], "local"]) and f.pos_dominates(d.pos(), mc[0].pos()) for d in lens)
    r3.inst("memcpy", {"site": mc[0].where() if mc else None, "len_is_html_replace_result": ok})
    if not ok:
        r3.bad("K8:evhttp_htmlescape:copy-length", "%s:%d" % (f.file, f.line), f.name, "memcpy length is not html_replace's result for the same byte")
    rules.append(r3)

    # ---- decoder
    # (since C29-decode-eval decides the decoder by evaluation - output, bounds, escapes - the syntactic clauses below are kept as notes: a decoder spelled differently is not a violation)
    def r4_note(key_, where_, fn_, msg_):
        r4.notes.append("%s: %s" % (key_, msg_))
    def r5_note(key_, where_, fn_, msg_):
        r5.notes.append("%s: %s" % (key_, msg_))
    def r4_brk(msg_):
        r4.notes.append("shape not recognised: %s" % msg_)
    def r5_brk(msg_):
        r5.notes.append("shape not recognised: %s" % msg_)
    r4 = Rule("C29-decode", "K4", "evhttp_decode_uri_internal: look-ahead reads guarded by i+k < length; one output store per iteration; i advances between stores (informational)", floor=0)
    f = P.fn("evhttp_decode_uri_internal")
    uri, length, ret = f.params[0][0], f.params[1][0], f.params[2][0]
    def lookahead(e):
        """(var, k) for uri[i + k] reads"""
        out = []
        for s in walk(e):
            if is_e(s, "idx") and eq(s[1], ["var", uri, "param"]):
                i = strip(s[2])
                if is_e(i, "bin") and i[1] == "+" and is_e(strip(i[3]), "int"):
                    out.append((strip(i[2]), strip(i[3])[1], s))
                else:
                    out.append((i, 0, s))
        return out
    seen = set()
    for b in f.blocks.values():
        items = [(el.e, el.where(), el.bid) for el in b.elems]
        if b.term and "cond" in b.term:
            items.append((b.term["cond"], "%s:%d" % (f.file, b.term["loc"][0]), b.id))
        for e, where, bid in items:
            for base, k, node in lookahead(e):
                kk = (key(node), bid)
                if kk in seen:
                    continue
                seen.add(kk)
                gs = [negate_truth(c, t) for c, t, _ in f.guards_at(bid)]
                bound = None
                for c, t in gs:
                    c = strip(c)
                    if t and is_e(c, "bin") and c[1] == "<" and eq(c[3], ["var", length, "param"]):
                        l = strip(c[2])
                        if eq(l, base):
                            bound = max(bound or 0, 0)
                        elif is_e(l, "bin") and l[1] == "+" and eq(l[2], base) and is_e(strip(l[3]), "int"):
                            bound = max(bound or 0, strip(l[3])[1])
                r4.inst(("read", key(node), bid), {"site": where, "read": show(node), "offset": k, "guard_offset": bound})
                if bound is None or bound < k:
                    r4_note("K4:evhttp_decode_uri_internal:read-%s-unguarded" % show(node), where, f.name,
                           "%s is read without a dominating test %s + %d < %s" % (show(node), show(base), k, length))
    outs = [el for el, lhs, op, rhs in f.stores() if is_e(strip(lhs), "idx") and eq(strip(lhs)[1], ["var", ret, "param"])]
    inloop = [el for el in outs if any(is_e(s, "incdec") for s in walk(el.e[2]))]
    r4.inst("stores", {"output_stores": [show(e.e) for e in outs]})
    if len(inloop) != 1 or len(outs) != 2:
        r4_note("K4:evhttp_decode_uri_internal:output-stores", "%s:%d" % (f.file, f.line), f.name,
               "expected exactly one ret[j++] store in the loop and the terminating NUL, found %s" % [show(e.e) for e in outs])
    else:
        st = inloop[0]
        ivar = None
        for b in f.branch_blocks():
            c = strip(b.term["cond"])
            if b.term["k"] == "for" and is_e(c, "bin") and c[1] == "<" and eq(c[3], ["var", length, "param"]):
                ivar = strip(c[2])
        if ivar is None:
            r4_brk("loop bound i < length not found")
        else:
            def adv(el):
                e = el.e
                if e[0] == "incdec" and e[1] == "++" and eq(e[3], ivar):
                    return True
                if e[0] == "asg" and e[1] == "+=" and eq(e[2], ivar) and is_e(strip(e[3]), "int") and strip(e[3])[1] > 0:
                    return True
                return False
            w = f.path_avoiding(st.pos(), lambda el: el is st, adv)
            r4.inst("advance", {"store": show(st.e), "index": show(ivar), "path_without_advance": bool(w)})
            if w is not None:
                r4_note("K4:evhttp_decode_uri_internal:store-without-advance", st.where(), f.name,
                       "two output stores can happen without the input index advancing: output can outgrow the input")
            # i never decreases
            for el, lhs, op, rhs in f.stores():
                if eq(lhs, ivar) and not adv(el):
                    rr = strip(rhs)
                    if op == "=" and (is_e(rr, "int") and rr[1] == 0 or (is_e(rr, "asg") and is_e(strip(rr[3]), "int"))):
                        continue
                    r4_note("K4:evhttp_decode_uri_internal:index-modified", el.where(), f.name, "input index modified by %s" % show(el.e))
    # the value of a %XX escape: either the recognised strtol idiom over exactly the two digits, or a pure expression that is
    # evaluated for every pair of hexadecimal digits (22 x 22) against 16*hi + lo
    r5 = Rule("C29-hexvalue", "K6", "the byte produced for %XY is 16*X + Y for every pair of hexadecimal digits, in either case (informational; decided by C29-decode-eval)", floor=0)
    HEX = "0123456789abcdefABCDEF"
    csts = [(el, rhs) for el, lhs, op, rhs in f.stores() if is_e(strip(lhs), "var") and strip(lhs)[1] == "c" and
            any(is_e(q, "idx") and eq(q[1], ["var", uri, "param"]) and is_e(strip(q[2]), "bin") for q in walk(rhs)) or
            (is_e(strip(lhs), "var") and strip(lhs)[1] == "c" and is_e(strip(rhs), "call") and callee_name(strip(rhs)) == "strtol")]
    if len(csts) != 1:
        r5_brk("the store of the decoded escape value was not recognised (%d candidates)" % len(csts))
    else:
        el, rhs = csts[0]
        rr = strip(rhs)
        if is_e(rr, "call") and callee_name(rr) == "strtol":
            base16 = is_e(strip(rr[2][2]), "int") and strip(rr[2][2])[1] == 16
            tmpv = strip(rr[2][0])
            srcs = {}
            for e2, l2, op2, r2_ in f.stores():
                l2 = strip(l2)
                if is_e(l2, "idx") and eq(l2[1], tmpv) and is_e(strip(l2[2]), "int"):
                    srcs[strip(l2[2])[1]] = "NUL" if (is_e(strip(r2_), "int") and strip(r2_)[1] == 0) else show(r2_)
            want = {0: "%s[(i + 1)]" % uri, 1: "%s[(i + 2)]" % uri, 2: "NUL"}
            okd = base16 and all(srcs.get(k) == v for k, v in want.items())
            r5.inst("strtol", {"site": el.where(), "idiom": "strtol(tmp, NULL, 16) with tmp = {uri[i+1], uri[i+2], NUL}", "digits": srcs, "ok": okd})
            if not okd:
                r5_note("K6:evhttp_decode_uri_internal:escape-value", el.where(), f.name, "the escape is not converted from exactly its two digits in base 16: %s" % srcs)
        else:
            leaves = [q for q in walk(rr) if is_e(q, "idx") and eq(q[1], ["var", uri, "param"])]
            k1 = key(["idx", ["var", uri, "param"], ["bin", "+", ["var", "i", "local"], ["int", 1, "1"]]])
            k2 = key(["idx", ["var", uri, "param"], ["bin", "+", ["var", "i", "local"], ["int", 2, "2"]]])
            wrong = []
            try:
                for a in HEX:
                    for b_ in HEX:
                        v = evalx(rhs, {k1: ord(a), k2: ord(b_)}, P) & 0xff
                        if v != int(a + b_, 16):
                            wrong.append("%%%s%s->%#x" % (a, b_, v))
                r5.inst("expr", {"site": el.where(), "expression": show(rr)[:90], "pairs_checked": len(HEX) ** 2, "wrong": wrong[:6]})
                if wrong:
                    r5_note("K6:evhttp_decode_uri_internal:escape-value", el.where(), f.name,
                           "%d of %d hexadecimal digit pairs decode to the wrong byte (e.g. %s)" % (len(wrong), len(HEX) ** 2, ", ".join(wrong[:4])))
            except EvalError as ex:
                r5_brk("escape value expression cannot be evaluated: %s" % ex)
    rules.append(r5)
    rules.append(r4)
    try:
        rules.append(rule_decode_eval(P))
    except AnalysisBroken as ex:
        rq = Rule("C29-decode-eval", "K6", "decoder evaluation", floor=1)
        rq.brk(str(ex))
        rules.append(rq)
    try:
        rules.append(rule_query(P))
    except AnalysisBroken as ex:
        rq = Rule("C29-query", "K6", "query splitter", floor=1)
        rq.brk(str(ex))
        rules.append(rq)
    return rules
