"""C26 — no header/message injection through the API: field-based taint from API parameters to the %s sinks of the serializer (K8)."""
from ..core import Rule
from ..prog import *
from ..facts import AnalysisBroken

UNITS = ["http", "ws"]
LEVEL = "other"
EXPLANATION = ("K8 FLOW. Sinks are discovered, not listed: every %s argument of the evbuffer_add_printf calls in the serializer (the functions "
               "reachable from evhttp_make_header) that is a struct field becomes a sink field (today evhttp_request.uri, .response_code_line, evkeyval.key, "
               ".value). For every store into a sink field in http.c/ws.c the stored string must be NULL, a constant, library-generated, parsed from the wire, "
               "or a parameter whose store is dominated by the pass edge of a CR/LF-rejecting validator of that same parameter (evhttp_header_is_valid_value, "
               "strchr(x,'\\r')/strchr(x,'\\n') both NULL, strpbrk(x,\"\\r\\n\") NULL) with no reassignment in between. A function that stores an unvalidated "
               "parameter becomes a forwarder and the obligation moves to each call site (fixpoint); it ends in a finding when it reaches a parameter of a "
               "public API function. The validator's own shape is re-checked. Decides that no API string reaches the wire unvalidated; does not decide that the "
               "serialization parses back to exactly one message, nor the body/chunk framing.")
ASSUMPTIONS = ["strings parsed from incoming messages are never re-serialized by the library itself (request targets are printed only for outgoing requests, "
               "reason phrases only for outgoing responses)",
               "extension method names come from application code (evhttp_set_ext_method_cmp), not from message data"]
CONFIGS = ["build", "assert"]

# call sites that store API strings into a evkeyvalq that is not a message header list
NOT_A_MESSAGE_HEADER = {
    ("evhttp_parse_query_impl", "evhttp_add_header_internal"): "fills the caller's query-parameter list (evhttp_parse_query*), which the serializer never walks",
}
WIRE_PARSERS = ("evhttp_parse_request_line", "evhttp_parse_response_line", "evhttp_parse_headers_", "evhttp_append_to_last_header")


def validators_passed(fn, bid, var):
    """names of validators whose pass edge (for variable `var`) dominates block bid."""
    out = set()
    gs = [(negate_truth(c, t), b) for c, t, b in fn.guards_at(bid)]
    saw = {}
    for (c, t), b in gs:
        c = strip(c)
        if is_e(c, "call"):
            n = callee_name(c)
            a0 = strip(c[2][0]) if c[2] else None
            if n == "evhttp_header_is_valid_value" and t and a0 is not None and eq(a0, var):
                out.add("evhttp_header_is_valid_value")
            if n == "strchr" and not t and a0 is not None and eq(a0, var) and is_e(strip(c[2][1]), "int"):
                saw[strip(c[2][1])[1]] = True
            if n == "strpbrk" and not t and a0 is not None and eq(a0, var) and is_e(strip(c[2][1]), "str") and "\r" in strip(c[2][1])[1] and "\n" in strip(c[2][1])[1]:
                out.add("strpbrk-crlf")
    if saw.get(13) and saw.get(10):
        out.add("strchr-cr-and-lf")
    return out


def pass_edges(fn, var):
    """edges (block, succ) on which a CR/LF validator of `var` has passed"""
    out = set()
    for b in fn.branch_blocks():
        if len(b.succ) != 2:
            continue
        for s, lab in b.succ:
            c, t = negate_truth(b.term["cond"], lab == "T")
            c = strip(c)
            if is_e(c, "call") and c[2] and eq(strip(c[2][0]), var):
                n = callee_name(c)
                if n == "evhttp_header_is_valid_value" and t:
                    out.add((b.id, s))
                if n == "strpbrk" and not t and is_e(strip(c[2][1]), "str") and "\r" in strip(c[2][1])[1] and "\n" in strip(c[2][1])[1]:
                    out.add((b.id, s))
    return out


def entry_value_validated(fn, el, var, defs):
    """every path entry -> el that avoids all (re)definitions of var uses a validator pass edge of var"""
    pe = pass_edges(fn, var)
    if not pe:
        return False
    defset = set(id(d) for d in defs)
    seen = set()
    work = [(fn.entry, 0)]
    while work:
        b, i = work.pop()
        blk = fn.blocks[b]
        blocked = False
        for x in blk.elems[i:]:
            if x is el:
                return False      # reached the store with the raw incoming value and no validator edge
            if id(x) in defset:
                blocked = True
                break
        if blocked:
            continue
        for s, lab in blk.succ:
            if (b, s) in pe:
                continue
            if s not in seen:
                seen.add(s)
                work.append((s, 0))
    return True


def run(ctx, config):
    P = ctx.prog(UNITS, config)
    fns = [f for f in P.all_fns if f.file in ("http.c", "ws.c")]
    byname = {f.name: f for f in fns}
    rules = []
    # ---- sinks
    r0 = Rule("C26-sinks", "K8", "the %s sinks of the serializer and the fields they print", floor=4)
    ser = set()
    work = ["evhttp_make_header"]
    while work:
        n = work.pop()
        if n in ser or n not in byname:
            continue
        ser.add(n)
        for el in byname[n].calls():
            cn = callee_name(el.e)
            if cn in ("evhttp_make_header_request", "evhttp_make_header_response"):
                work.append(cn)
    sink_fields = {}
    sink_locals = []
    for n in sorted(ser):
        f = byname[n]
        for el in f.calls("evbuffer_add_printf"):
            fmt = strip(el.e[2][1])
            if not is_e(fmt, "str"):
                r0.bad("K8:%s:non-constant-format" % n, el.where(), n, "format string of the serializer is not a constant")
                continue
            # map conversions to arguments
            convs = []
            i = 0
            s = fmt[1]
            while i < len(s):
                if s[i] == "%":
                    j = i + 1
                    while j < len(s) and s[j] in "0123456789.-+ #lhzjt":
                        j += 1
                    if j < len(s):
                        if s[j] != "%":
                            convs.append(s[j])
                        i = j
                i += 1
            args = el.e[2][2:]
            for cv, a in zip(convs, args):
                if cv == "s":
                    a = strip(a)
                    if is_e(a, "fld"):
                        sink_fields[a[2]] = el
                        r0.inst((n, a[2]), {"fn": n, "site": el.where(), "format": fmt[1], "prints_field": a[2]})
                    else:
                        sink_locals.append((f, el, a))
                        r0.inst((n, show(a)), {"fn": n, "site": el.where(), "format": fmt[1], "prints": show(a)})
    if not {"evhttp_request.uri", "evhttp_request.response_code_line", "evkeyval.key", "evkeyval.value"} <= set(sink_fields):
        r0.brk("expected sink fields not all found: %s" % sorted(sink_fields))
    # `method`: from evhttp_method_ only
    for f, el, a in sink_locals:
        ok = is_e(a, "var") and all((is_e(strip(rhs), "str")) or (is_e(strip(rhs), "asg") and is_e(strip(strip(rhs)[3]), "call") and callee_name(strip(strip(rhs)[3])) == "evhttp_method_")
                                    or (is_e(strip(rhs), "call") and callee_name(strip(rhs)) == "evhttp_method_") for d, rhs in f.var_stores(a[1]))
        if not ok:
            r0.bad("K8:%s:sink-local-%s" % (f.name, show(a)), el.where(), f.name, "%%s argument %s is not the library's method name" % show(a))
    rules.append(r0)

    # ---- stores into sink fields
    r1 = Rule("C26-taint", "K8", "every string stored into a printed field is constant, library-generated, wire-parsed or validated against CR/LF", floor=8)
    forwarders = {}    # fname -> set(param index) : stores param unvalidated into a sink field

    def classify(fn, el, v, depth=0):
        """provenance of string expression v at element el: ('ok', why) | ('param', index) | ('bad', why)"""
        v = strip(v)
        if is_e(v, "int") and v[1] == 0:
            return ("ok", "NULL")
        if is_e(v, "str"):
            if "\r" in v[1] or "\n" in v[1]:
                return ("bad", "constant containing CR/LF")
            return ("ok", "constant")
        if is_e(v, "call"):
            n = callee_name(v)
            if n in ("event_mm_strdup_", "strdup"):
                return classify(fn, el, v[2][0], depth)
            if n == "evhttp_response_phrase_internal":
                return ("ok", "library phrase table")
            if n in ("evhttp_uridecode", "evhttp_decode_uri", "evhttp_decode_uri_internal"):
                return ("bad", "percent-decoded data can contain CR/LF")
            return ("bad", "result of %s" % n)
        if is_e(v, "asg"):
            return classify(fn, el, v[3], depth)
        if is_e(v, "cond"):
            a, b = classify(fn, el, v[2], depth), classify(fn, el, v[3], depth)
            for x in (a, b):
                if x[0] != "ok":
                    return x
            return a
        if is_e(v, "var"):
            if fn.name in WIRE_PARSERS:
                return ("ok", "parsed from the wire in %s" % fn.name)
            vp = validators_passed(fn, el.bid, v)
            if vp:
                return ("ok", "validated by %s" % sorted(vp))
            if v[2] == "param":
                idx = [i for i, (n, t) in enumerate(fn.params) if n == v[1]][0]
                # reassigned from something safe on every path?
                defs = fn.reaching_defs(v[1], el)
                if defs and depth < 3:
                    res = [classify(fn, d, rhs, depth + 1) for d, rhs in defs]
                    # the parameter's own incoming value also reaches unless every path redefines it
                    entry_reaches = fn.path_avoiding((fn.entry, -1), lambda x: x is el, lambda x: any(x is d for d, _ in defs)) is not None
                    if not entry_reaches:
                        for x in res:
                            if x[0] != "ok":
                                return x
                        return ("ok", "reassigned: " + "; ".join(x[1] for x in res))
                    if all(x[0] == "ok" for x in res):
                        # e.g. `if (reason == NULL || bad(reason)) reason = phrase(code);` — the incoming value reaches the
                        # store only on paths that avoid the reassignment; every such path must take a validator's pass edge
                        if entry_value_validated(fn, el, v, [d for d, _ in defs]):
                            return ("ok", "incoming value reaches only past a CR/LF validator, otherwise replaced by: " + "; ".join(sorted(set(x[1] for x in res))))
                return ("param", idx)
            if v[2] == "local" and depth < 3:
                defs = fn.reaching_defs(v[1], el)
                if not defs:
                    return ("bad", "uninitialised local")
                res = [classify(fn, d, rhs, depth + 1) for d, rhs in defs]
                for x in res:
                    if x[0] != "ok":
                        return x
                return ("ok", "; ".join(sorted(set(x[1] for x in res))))
        if is_e(v, "fld") and v[2] in sink_fields:
            return ("ok", "copy of an already checked field")
        return ("bad", "unrecognised source %s" % show(v)[:40])

    def note_store(fn, el, fld, rhs):
        c = classify(fn, el, rhs)
        r1.inst((fn.name, el.n), {"fn": fn.name, "site": el.where(), "field": fld, "value": show(rhs)[:60], "provenance": list(c)})
        if c[0] == "param":
            forwarders.setdefault(fn.name, {}).setdefault(c[1], []).append((el, fld))
        elif c[0] == "bad":
            r1.bad("K8:%s:%s:%s" % (fn.name, fld.split(".")[-1], c[1].split(" ")[0]), el.where(), fn.name,
                   "%s receives %s (%s): it is printed with %%s by the serializer" % (fld, show(rhs)[:50], c[1]))

    for fn in fns:
        for el, lhs, op, rhs in fn.stores():
            l = strip(lhs)
            if is_e(l, "fld") and l[2] in sink_fields and op == "=":
                note_store(fn, el, l[2], rhs)
            # `if ((req->uri = mm_strdup(uri)) == NULL)`: the store is nested in a condition -> it is its own element already
    # ---- forwarders: obligations at call sites
    done = set()
    changed = True
    while changed:
        changed = False
        for fname in list(forwarders):
            for idx in list(forwarders[fname]):
                if (fname, idx) in done:
                    continue
                done.add((fname, idx))
                g = byname[fname]
                sites = [(cf, cel) for cf in fns for cel in cf.calls(fname)]
                if g.public:
                    el, fld = forwarders[fname][idx][0]
                    r1.bad("K8:%s:%s-unvalidated" % (fname, g.params[idx][0]), el.where(), fname,
                           "API parameter `%s` of %s reaches %s without any CR/LF validation: a caller-supplied string can add header fields or a whole message on the wire"
                           % (g.params[idx][0], fname, fld))
                for cf, cel in sites:
                    if (cf.name, fname) in NOT_A_MESSAGE_HEADER:
                        r1.inst((cf.name, cel.n, "exc"), {"fn": cf.name, "site": cel.where(), "exception": NOT_A_MESSAGE_HEADER[(cf.name, fname)]})
                        continue
                    if idx >= len(cel.e[2]):
                        continue
                    c = classify(cf, cel, cel.e[2][idx])
                    r1.inst((cf.name, cel.n, idx), {"fn": cf.name, "site": cel.where(), "call": show(cel.e)[:70], "argument": idx, "provenance": list(c)})
                    if c[0] == "param":
                        if c[1] not in forwarders.setdefault(cf.name, {}):
                            forwarders[cf.name][c[1]] = [(cel, "%s(arg %d)" % (fname, idx))]
                            changed = True
                    elif c[0] == "bad":
                        r1.bad("K8:%s:call-%s:%s" % (cf.name, fname, c[1].split(" ")[0]), cel.where(), cf.name,
                               "passes %s (%s) to %s, which stores it into a printed field" % (show(cel.e[2][idx])[:40], c[1], fname))
    r1.notes.append("forwarders (store an unvalidated parameter into a printed field; obligation moved to callers): %s" %
                    {k: sorted(v) for k, v in sorted(forwarders.items())})
    rules.append(r1)

    # ---- the validator itself
    r2 = Rule("C26-validator", "K4", "evhttp_header_is_valid_value rejects CR/LF unless followed by SP/HT (obs-fold)", floor=2)
    f = P.fn("evhttp_header_is_valid_value")
    pb = [el for el in f.calls("strpbrk") if is_e(strip(el.e[2][1]), "str") and set(strip(el.e[2][1])[1]) == {"\r", "\n"}]
    zero = [rt for rt in f.returns() if is_e(strip(rt.e[1]), "int") and strip(rt.e[1])[1] == 0]
    okz = False
    for z in zero:
        gs = [negate_truth(c, t) for c, t, _ in f.guards_at(z.bid)]
        vals = set()
        for c, t in gs:
            c = strip(c)
            if is_e(c, "bin") and c[1] == "!=" and t and is_e(strip(c[3]), "int"):
                vals.add(strip(c[3])[1])
        if vals == {32, 9}:
            okz = True
    # the scan may step over exactly one line break before demanding SP/HT: a run-skipping advance (strspn over CR/LF, or a
    # non-constant step) would let an embedded blank line through
    run_skip = [el for el in f.calls("strspn") if any(is_e(q, "str") and ("\r" in q[1] or "\n" in q[1]) for q in walk(el.e))]
    steps = []
    for el, lhs, op, rhs in f.stores():
        if is_e(strip(lhs), "var") and strip(lhs)[1] == "p" and op in ("+=", "++"):
            rr = strip(rhs)
            steps.append(rr[1] if is_e(rr, "int") else None)
    bounded = bool(steps) and all(s_ is not None and 1 <= s_ <= 2 for s_ in steps) and not run_skip
    r2.inst("advance", {"steps_after_a_line_break": steps, "strspn_over_crlf": len(run_skip), "at_most_one_line_break_skipped": bounded})
    if not bounded:
        r2.bad("K4:evhttp_header_is_valid_value:unbounded-line-break-run", "%s:%d" % (f.file, f.line), f.name,
               "after a CR/LF the validator skips a whole run of line breaks before demanding SP/HT: a value with an embedded blank line "
               "(\\r\\n\\r\\n + space) is accepted and ends the header block on the wire")
    r2.inst("shape", {"strpbrk_crlf": len(pb), "rejects_unless_sp_or_ht": okz})
    if not pb or not okz:
        r2.bad("K4:evhttp_header_is_valid_value:shape", "%s:%d" % (f.file, f.line), f.name, "the validator no longer rejects a CR/LF that is not followed by SP or HT")
    rules.append(r2)
    rules.append(rule_format(P, fns))
    rules.append(rule_reply_start(P))
    return rules


def rule_reply_start(P):
    """req->chunked is shared with the input side (a chunked REQUEST body leaves it at 1): evhttp_send_reply_start has to decide it afresh, and the decision must agree with the header"""
    from ..interp import normx, nkey, run_all
    r = Rule("C26-reply-start", "K6", "evhttp_send_reply_start: the reply body is chunk-framed exactly when Transfer-Encoding: chunked was added to the reply, whatever req->chunked held before", floor=24)
    f = P.fn("evhttp_send_reply_start")
    req = ["var", f.params[0][0], "param"]
    K = lambda fld: nkey(["fld", req, "evhttp_request." + fld, "->"])
    nb = 0
    for has_cl in (0, 1):
        for major, minor in ((1, 0), (1, 1), (2, 0)):
            for needs in (0, 1):
                for before in (0, 1):
                    env = {req[1]: 1, f.params[1][0]: 200, f.params[2][0]: 0, K("evcon"): 5, K("output_headers"): 6, K("major"): major, K("minor"): minor, K("chunked"): before, "#te": 0, "#hdr": 0}

                    def hook(el, e_):
                        n = callee_name(el.e)
                        if n == "evhttp_find_header":
                            a = strip(el.e[2][1])
                            txt = a[1] if is_e(a, "str") else None
                            if isinstance(txt, bytes):
                                txt = txt.decode("latin-1")
                            if txt is not None and txt.lower() == "content-length":
                                return 1 if has_cl else 0
                            return 0
                        if n == "evhttp_response_needs_body":
                            return needs
                        if n == "evhttp_add_header":
                            a = strip(el.e[2][1])
                            txt = a[1] if is_e(a, "str") else b""
                            if isinstance(txt, bytes):
                                txt = txt.decode("latin-1")
                            if str(txt).lower() == "transfer-encoding":
                                e_["#te"] = e_["#te"] + 1
                            return 0
                        if n == "evhttp_make_header":
                            e_["#hdr"] = e_["#hdr"] + 1
                            e_["#chunked_at_header"] = e_.get(K("chunked"))
                            return 0
                        if n in ("evhttp_response_code_", "evhttp_write_buffer"):
                            return 0
                        return None
                    outs = [o for o in run_all(f, (f.entry, 0), env, lambda el: False, P, hook, max_steps=300) if not (o.kind == "exit" and o.why == "noreturn")]
                    for o in outs:
                        if o.kind not in ("ret", "exit"):
                            r.brk("evhttp_send_reply_start: %s %s" % (o.kind, o.why))
                            return r
                        te = o.env["#te"]
                        want_te = 1 if (not has_cl and (major, minor) >= (1, 1) and needs) else 0
                        after = o.env.get(K("chunked"))
                        r.inst((has_cl, major, minor, needs, before), {"content_length_set_by_caller": bool(has_cl), "version": "%d.%d" % (major, minor), "response_has_body": bool(needs),
                                                                      "req_chunked_before": before, "transfer_encoding_added": te, "req_chunked_after": after})
                        bad = None
                        if te != want_te:
                            bad = "Transfer-Encoding: chunked added %d time(s), expected %d" % (te, want_te)
                        elif after != te:
                            bad = ("req->chunked is %r after the call although Transfer-Encoding: chunked was %sadded: evhttp_send_reply_chunk frames the body in chunks exactly when req->chunked is set, so the "
                                   "reply would carry chunk framing nobody announced (a stale 1 is what a chunked request body leaves behind)" % (after, "" if te else "not "))
                        if bad and nb < 4:
                            nb += 1
                            r.bad("K6:evhttp_send_reply_start:chunked-state", "%s:%d" % (f.file, f.line), f.name,
                                  "Content-Length %s, HTTP/%d.%d, response %s a body, req->chunked=%d before the call: %s" % ("set" if has_cl else "not set", major, minor, "has" if needs else "has not", before, bad))
    return r


def fmt_worst(fmt):
    """worst-case number of bytes a printf format produces (without the NUL), or None when it has an unbounded conversion (%s, %*)"""
    import re
    n = 0
    i = 0
    while i < len(fmt):
        c = fmt[i]
        if c != "%":
            n += 1
            i += 1
            continue
        m = re.match(r"%([-+ #0]*)(\d*|\*)(?:\.(\d+|\*))?(hh|h|ll|l|z|j|t|L)?([diouxXcsp%])", fmt[i:])
        if not m:
            return None
        flags, width, prec, lm, conv = m.groups()
        if conv == "%":
            w = 1
        elif conv == "c":
            w = 1
        elif conv == "s" or width == "*" or prec == "*":
            return None
        else:
            bits = 64 if lm in ("l", "ll", "z", "j", "t") else 32
            if conv in ("d", "i"):
                w = 20 if bits == 64 else 11
            elif conv == "u":
                w = 20 if bits == 64 else 10
            elif conv in ("x", "X"):
                w = (16 if bits == 64 else 8) + (2 if "#" in flags else 0)
            elif conv == "o":
                w = (22 if bits == 64 else 11) + (1 if "#" in flags else 0)
            else:
                w = 18
        if width and width.isdigit():
            w = max(w, int(width))
        n += w
        i += m.end()
    return n


def rule_format(P, fns):
    """text the library formats into a fixed buffer and then puts on the wire (chunk sizes, Content-Length, ports) must fit in the worst case: a silently
    truncated chunk-size line or length field changes the framing of the message the caller asked for"""
    r = Rule("C26-format", "K4", "numbers formatted into fixed buffers with evutil_snprintf/snprintf fit in the worst case (or the result is checked)", floor=3)
    for f in fns:
        for el in f.calls():
            n = callee_name(el.e)
            if n not in ("evutil_snprintf", "snprintf", "__builtin___snprintf_chk"):
                continue
            a = el.e[2]
            fi = 2 if n != "__builtin___snprintf_chk" else 4
            if len(a) <= fi or not is_e(strip(a[fi]), "str"):
                continue
            fmt = strip(a[fi])[1]
            dst = strip(a[0])
            cap = strip(a[1])
            capv = cap[1] if is_e(cap, "int") else None
            worst = fmt_worst(fmt)
            # is the result used (compared)?  look for a guard on the call's value / the variable it is assigned to
            checked = False
            blk = f.blocks[el.bid]
            for nx in blk.elems[el.idx + 1:el.idx + 2]:
                if nx.e[0] == "asg" and eq(strip(nx.e[3]), el.e):
                    rv = strip(nx.e[2])
                    checked = any(any(eq(strip(q), rv) for q in walk(b.term["cond"])) for b in f.branch_blocks())
            if blk.term and "cond" in blk.term and any(eq(strip(q), el.e) for q in walk(blk.term["cond"])):
                checked = True
            r.inst((f.name, el.n), {"fn": f.name, "site": el.where(), "format": fmt, "capacity": capv, "worst_case_with_nul": (worst + 1) if worst is not None else None, "result_checked": checked},
                   nontrivial=worst is not None)
            if worst is None or capv is None or checked:
                continue
            if worst + 1 > capv:
                r.bad("K4:%s:format-may-truncate:%s" % (f.name, show(dst)), el.where(), f.name,
                      "format %r needs up to %d bytes with the terminator but %s has %d and the result is not checked: the text is silently cut (a chunk-size line without its CRLF, a shortened length)" % (
                          fmt, worst + 1, show(dst), capv))
    return r
