"""C11 — reinit after fork: ordering and completeness of event_reinit and of the map re-registration (K6 evaluation, K3, K10)."""
from ..core import Rule
from ..prog import *
from ..facts import AnalysisBroken
from ..interp import normx, nkey, run_all

UNITS = None
LEVEL = "other"
CONFIGS = ["build", "assert"]
EXPLANATION = (
    "N1: event_reinit is evaluated from its extracted CFG on every combination of (backend needs reinit, signal event added, notify fds open, was notifiable, "
    "backend init fails, evmap_reinit_ fails, evsig_init_ fails): while the internal events are deleted the backend is stubbed out exactly when it needs reinit "
    "(so the parent's kernel object is not touched) and the real backend is restored before dealloc/init; the four descriptors are closed before anything is "
    "re-created; with need_reinit the sequence is dealloc, init, free the change list, evmap_reinit_; without it evsig_init_ and re-adding the signal event iff it "
    "was added; the base becomes notifiable again exactly when it was and nothing failed; failures propagate as -1. "
    "N2: every eventop in eventops[] whose init function reaches a kernel-object constructor (epoll_create*, kqueue, port_create, open of /dev/poll) has "
    "need_reinit set. N3: evmap_io_reinit_iter_fn, on every counter/ET/fdinfo_len combination, wipes the per-fd backend data whenever the backend has any "
    "(also for fds with no events left — stale change-list indices otherwise survive the fork) and re-adds exactly the conditions with non-zero counters, old = 0, "
    "ET from the first event, reporting failure; evmap_signal_reinit_iter_fn re-adds exactly the signals with events (old = 1 for the signalfd path); "
    "evmap_reinit_ runs both sweeps and propagates failure. Declined: behaviour of parent and child after fork (needs two processes and a kernel).")
ASSUMPTIONS = ["kernel-object constructors are recognised by the frozen name table in this module"]

KERNEL_CTORS = {"epoll_create", "epoll_create1", "kqueue", "port_create", "wepoll_create"}


def rule_reinit(P):
    r = Rule("C11-reinit", "K6/K3", "event_reinit: stub/restore of the backend, close-before-recreate, per-branch sequence, notifiable iff it was, failure propagation", floor=40)
    f = P.fn("event_reinit")
    base = ["var", f.params[0][0], "param"]
    B = lambda x: nkey(["fld", base, "event_base." + x, "->"])
    ksel = B("evsel")
    kneed = nkey(["fld", ["var", "evsel", "local"], "eventop.need_reinit", "->"])
    kdealloc = nkey(["fld", ["fld", base, "event_base.evsel", "->"], "eventop.dealloc", "->"])
    ksigadd = nkey(["fld", ["fld", base, "event_base.sig", "->"], "evsig_info.ev_signal_added", "."])
    def pair(i):
        return nkey(["idx", ["fld", ["fld", base, "event_base.sig", "->"], "evsig_info.ev_signal_pair", "."], ["int", i]])
    def nfd(i):
        return nkey(["idx", ["fld", base, "event_base.th_notify_fd", "->"], ["int", i]])
    knfn = B("th_notify_fn")
    nbad = 0
    nbad2 = [0]
    REAL = 111
    # the flag may also be reset where the new descriptor is made
    pending_reset_in_callee = False
    if P.has("evthread_make_base_notifiable_nolock_"):
        g = P.fn("evthread_make_base_notifiable_nolock_")
        st = [el for el, lhs, op, rhs in g.stores() if fields_of(lhs)[-1:] == ["event_base.is_notify_pending"] and op == "=" and is_e(strip(rhs), "int") and strip(rhs)[1] == 0]
        if st:
            start = (g.entry, -1)
            for b in g.branch_blocks():
                if any(is_e(q, "fld") and q[2] == "event_base.th_notify_fn" for q in walk(b.term["cond"])):
                    c, t = negate_truth(b.term["cond"], True)
                    lab = "F" if t else "T"          # the edge on which th_notify_fn is NULL (event_reinit has just cleared it)
                    nxt = [x for x, l in b.succ if l == lab]
                    if nxt:
                        start = (nxt[0], -1)
                    break
            def good_ret(x):
                return x.e[0] == "ret" and not (len(x.e) > 1 and x.e[1] is not None and is_e(strip(x.e[1]), "int") and strip(x.e[1])[1] == -1)
            pending_reset_in_callee = g.path_avoiding(start, good_ret, lambda x: x in st) is None
    for need in (0, 1):
        for sigadd in (0, 1):
            for nopen in (0, 1):
                for notifiable in (0, 1):
                    for fail in ("none", "init", "evmap", "evsig", "sigadd"):
                        if need and fail in ("evsig", "sigadd"):
                            continue
                        if not need and fail in ("init", "evmap"):
                            continue
                        env = {base[1]: 1, ksel: REAL, kneed: need, kdealloc: 1, ksigadd: sigadd, pair(0): 7, pair(1): 8, nfd(0): 9 if nopen else -1, nfd(1): 10 if nopen else -1,
                               knfn: notifiable, B("th_base_lock"): 0, "event_debug_logging_mask_": 0, B("is_notify_pending"): notifiable}
                        def hook(el, e_):
                            n = callee_name(el.e)
                            sl = callee_slot(el.e)
                            cur = e_.get(ksel)
                            tag = None
                            if n == "event_del_nolock_":
                                tag = "del:%s" % ("real" if cur == REAL else "stub")
                            elif n in ("close", "evutil_closesocket"):
                                tag = "close"
                            elif sl == "eventop.dealloc":
                                tag = "dealloc:%s" % ("real" if cur == REAL else "stub")
                            elif sl == "eventop.init":
                                tag = "init:%s" % ("real" if cur == REAL else "stub")
                            elif n in ("event_changelist_freemem_", "evmap_reinit_", "evsig_init_", "event_add_nolock_", "evthread_make_base_notifiable_nolock_"):
                                tag = n
                            if tag:
                                e_["#seq"] = e_.get("#seq", ()) + (tag,)
                            if sl == "eventop.init":
                                return 0 if fail == "init" else 1
                            if n == "evmap_reinit_":
                                return -1 if fail == "evmap" else 0
                            if n == "evsig_init_":
                                return -1 if fail == "evsig" else 0
                            if n == "event_add_nolock_":
                                return -1 if fail == "sigadd" else 0
                            if n == "evthread_make_base_notifiable_nolock_":
                                return 0
                            return None
                        for o in run_all(f, (f.entry, 0), env, lambda el: False, P, hook, max_steps=1500):
                            if o.kind == "exit" and o.why == "noreturn":
                                if fail == "init":
                                    r.inst(("reinit", need, sigadd, nopen, notifiable, fail, "abort"), {"need_reinit": need, "fail": fail, "outcome": "event_errx (fatal)"})
                                continue
                            if o.kind != "ret":
                                r.brk("event_reinit: %s %s" % (o.kind, o.why))
                                return r
                            seq = list(o.env.get("#seq", ()))
                            try:
                                ret = evalx(normx(o.at.e[1]), o.env, P)
                            except EvalError:
                                ret = None
                            want = []
                            stub = "stub" if need else "real"
                            if sigadd:
                                want.append("del:" + stub)
                            want += ["close", "close"]
                            if nopen:
                                want += ["del:" + stub, "close", "close"]
                            failed = False
                            if need:
                                want += ["dealloc:real", "init:real"]
                                if fail == "init":
                                    failed = True
                                else:
                                    want += ["event_changelist_freemem_", "evmap_reinit_"]
                                    failed = fail == "evmap"
                            else:
                                want.append("evsig_init_")
                                if fail == "evsig":
                                    failed = True
                                elif sigadd:
                                    want.append("event_add_nolock_")
                                    failed = fail == "sigadd"
                                elif fail == "sigadd":
                                    continue
                            if notifiable and not failed:
                                want.append("evthread_make_base_notifiable_nolock_")
                            wret = -1 if failed else 0
                            restored = o.env.get(ksel) == REAL
                            r.inst(("reinit", need, sigadd, nopen, notifiable, fail), {"need_reinit": need, "signal_added": sigadd, "notify_open": nopen, "was_notifiable": notifiable, "fail": fail,
                                                                                      "sequence": seq, "ret": ret})
                            # a wake-up that was pending at fork time sits in the parent's descriptor; the child's new descriptor is empty, so the "a wake-up is already on its way"
                            # flag must not survive (evthread_notify_base would swallow every later wake-up of the child's loop)
                            if notifiable and not failed and o.env.get(B("is_notify_pending")) != 0 and not pending_reset_in_callee and nbad2[0] < 2:
                                nbad2[0] += 1
                                r.bad("K6:event_reinit:stale-notify-pending", "%s:%d" % (f.file, f.line), f.name,
                                      "need_reinit=%d signal_added=%d notify_open=%d: the base was notifiable with a wake-up pending at fork time (is_notify_pending=1); event_reinit gives the child a new, "
                                      "empty wake-up descriptor but returns with is_notify_pending=%r: every later evthread_notify_base() in the child returns early and the child's loop is never "
                                      "woken by another thread" % (need, sigadd, nopen, o.env.get(B("is_notify_pending"))))
                            if (seq != want or ret != wret or not restored) and nbad < 3:
                                nbad += 1
                                r.bad("K6:event_reinit:sequence", "%s:%d" % (f.file, f.line), f.name,
                                      "need_reinit=%d signal_added=%d notify_open=%d was_notifiable=%d failure=%s: sequence %s returns %s (backend pointer restored: %s); documented %s returns %d" % (
                                          need, sigadd, nopen, notifiable, fail, seq, ret, restored, want, wret))
    return r


def rule_need(P):
    r = Rule("C11-need", "K10", "every eventop whose init creates a kernel object has need_reinit set", floor=3)
    names = []
    for gname, gl_ in P.globals.items():
        g0 = gl_[0]
        if "init" in g0 and g0.get("type", "").replace("const ", "").strip() == "struct eventop":
            names.append(gname)
    if len(names) < 4:
        r.brk("eventop globals not recognised: %s" % names)
    for n in sorted(set(names)):
        gl = P.globals.get(n)
        if not gl or "init" not in gl[0]:
            r.brk("eventop %s has no initialiser" % n)
            continue
        have = {}
        for s in walk(gl[0]["init"]):
            if is_e(s, "sinit"):
                for fname, v in s[2]:
                    have[fname] = strip(v)
        init = have.get("eventop.init")
        need = have.get("eventop.need_reinit")
        needv = need[1] if need is not None and is_e(need, "int") else None
        reach = set()
        if init is not None and is_e(init, "fn"):
            st = [init[1]]
            while st:
                x = st.pop()
                if x in reach or not P.has(x):
                    continue
                reach.add(x)
                for el in P.fn(x).calls():
                    c = callee_name(el.e)
                    if c:
                        if c in KERNEL_CTORS:
                            reach.add("!" + c)
                        elif c not in reach and len(reach) < 60:
                            st.append(c)
        ctors = sorted(x[1:] for x in reach if x.startswith("!"))
        if init is None or not is_e(init, "fn"):
            continue
        r.inst(("op", n), {"eventop": n, "init": init[1] if init else None, "kernel_constructors_reached": ctors, "need_reinit": needv})
        if ctors and not needv:
            r.bad("K10:%s:need_reinit-missing" % n, gl[0]["file"] + ":%d" % gl[0]["line"], n, "%s creates a kernel object (%s) in init but need_reinit is %s: after fork parent and child would share it" % (n, ", ".join(ctors), needv))
    return r


R_, W_, C_, ET_, S_ = 0x02, 0x04, 0x80, 0x20, 0x08


def rule_maps(P):
    r = Rule("C11-maps", "K6", "evmap reinit sweeps: wipe per-fd backend data whenever there is any; re-add exactly the pending conditions/signals; propagate failure", floor=90)
    f = P.fn("evmap_io_reinit_iter_fn")
    base = ["var", f.params[0][0], "param"]
    ctx = ["var", f.params[2][0], "param"]
    argp = f.params[3][0]
    ck = {c: nkey(["fld", ctx, "evmap_io." + c, "->"]) for c in ("nread", "nwrite", "nclose")}
    kflen = nkey(["fld", ["var", "evsel", "local"], "eventop.fdinfo_len", "->"])
    kfirst = nkey(["fld", ["fld", ctx, "evmap_io.events", "->"], "event_dlist.lh_first", "."])
    kevev = nkey(["fld", ["var", "ev", "local"], "event.ev_events", "->"])
    kres = nkey(["deref", ["var", "result", "local"]])
    nbad = 0
    for nr in (0, 1, 2):
        for nw in (0, 2):
            for nc in (0, 1):
                for et in (0, ET_):
                    for flen in (0, 8):
                        for befail in (0, 1):
                            any_ev = bool(nr or nw or nc)
                            env = {base[1]: 1, ctx[1]: 1, f.params[1][0]: 12, argp: 1, "result": 1, ck["nread"]: nr, ck["nwrite"]: nw, ck["nclose"]: nc, kflen: flen,
                                   kfirst: 1 if any_ev else 0, kevev: R_ | et, kres: 0}
                            def hook(el, e_):
                                n = callee_name(el.e)
                                if n in ("memset", "__builtin_memset", "__memset_chk", "__builtin___memset_chk"):
                                    e_["#wiped"] = 1
                                    return None
                                if callee_slot(el.e) == "eventop.add":
                                    a = el.e[2]
                                    try:
                                        e_["#add"] = (evalx(normx(a[1]), e_, P), evalx(normx(a[2]), e_, P), evalx(normx(a[3]), e_, P))
                                    except EvalError:
                                        e_["#add"] = "?"
                                    return -1 if befail else 0
                                return None
                            for o in run_all(f, (f.entry, 0), env, lambda el: False, P, hook, max_steps=600):
                                if o.kind == "exit" and o.why == "noreturn":
                                    continue
                                if o.kind != "ret":
                                    r.brk("evmap_io_reinit_iter_fn: %s %s" % (o.kind, o.why))
                                    return r
                                wiped = o.env.get("#wiped", 0)
                                add = o.env.get("#add")
                                want_ev = (R_ if nr else 0) | (W_ if nw else 0) | (C_ if nc else 0)
                                if want_ev and et:
                                    want_ev |= ET_
                                resv = o.env.get(kres)
                                r.inst((nr, nw, nc, et, flen, befail), {"counters": [nr, nw, nc], "first_event_ET": bool(et), "fdinfo_len": flen, "wiped": bool(wiped), "add": add, "result": resv})
                                msg = None
                                if bool(wiped) != bool(flen):
                                    msg = "per-fd backend data %s although fdinfo_len=%d" % ("wiped" if wiped else "not wiped", flen)
                                elif want_ev and add != (12, 0, want_ev):
                                    msg = "backend add called with %s, expected (fd 12, old 0, events %#x)" % (add, want_ev)
                                elif not want_ev and add not in (None, (12, 0, 0)):
                                    msg = "backend add called with %s for an fd without events" % (add,)
                                elif add is not None and befail and resv != -1:
                                    msg = "a failing backend add is not reported"
                                if msg and nbad < 3:
                                    nbad += 1
                                    r.bad("K6:evmap_io_reinit_iter_fn:%s" % msg.split()[0], "%s:%d" % (f.file, f.line), f.name, "counters (%d,%d,%d) ET=%s fdinfo_len=%d: %s" % (nr, nw, nc, bool(et), flen, msg))
    g = P.fn("evmap_signal_reinit_iter_fn")
    cx = ["var", g.params[2][0], "param"]
    kf = nkey(["fld", ["fld", cx, "evmap_signal.events", "->"], "event_dlist.lh_first", "."])
    kr = nkey(["deref", ["var", "result", "local"]])
    for first in (0, 1):
        for befail in (0, 1):
            env = {g.params[0][0]: 1, cx[1]: 1, g.params[1][0]: 10, g.params[3][0]: 1, "result": 1, kf: first, kr: 0}
            def hook(el, e_):
                if callee_slot(el.e) == "eventop.add":
                    a = el.e[2]
                    try:
                        e_["#add"] = (evalx(normx(a[1]), e_, P), evalx(normx(a[2]), e_, P), evalx(normx(a[3]), e_, P), evalx(normx(a[4]), e_, P))
                    except EvalError:
                        e_["#add"] = "?"
                    return -1 if befail else 0
                return None
            for o in run_all(g, (g.entry, 0), env, lambda el: False, P, hook):
                if o.kind != "ret":
                    r.brk("evmap_signal_reinit_iter_fn: %s %s" % (o.kind, o.why))
                    continue
                add = o.env.get("#add")
                r.inst(("sig", first, befail), {"has_events": first, "add": add, "result": o.env.get(kr)})
                if first and add != (10, 1, S_, 1):
                    r.bad("K6:evmap_signal_reinit_iter_fn:add", "%s:%d" % (g.file, g.line), g.name, "signal with events is re-added with %s, expected (signum, old 1, EV_SIGNAL, first event)" % (add,))
                if not first and add is not None:
                    r.bad("K6:evmap_signal_reinit_iter_fn:add-empty", "%s:%d" % (g.file, g.line), g.name, "a signal without events is re-added")
                if first and befail and o.env.get(kr) != -1:
                    r.bad("K6:evmap_signal_reinit_iter_fn:failure", "%s:%d" % (g.file, g.line), g.name, "a failing backend add is not reported")
    h = P.fn("evmap_reinit_")
    nb = 0
    for iofail in (0, 1):
        for sigfail in (0, 1):
            def hook(el, e_):
                n = callee_name(el.e)
                if n in ("evmap_io_foreach_fd", "evmap_signal_foreach_signal"):
                    which = "io" if n == "evmap_io_foreach_fd" else "sig"
                    fn_ok = any(is_e(q, "fn") and q[1] == ("evmap_io_reinit_iter_fn" if which == "io" else "evmap_signal_reinit_iter_fn") for q in walk(el.e))
                    e_["#sweeps"] = e_.get("#sweeps", ()) + ((which, fn_ok),)
                    if (which == "io" and iofail) or (which == "sig" and sigfail):
                        e_["result"] = -1
                    return 0
                return None
            for o in run_all(h, (h.entry, 0), {h.params[0][0]: 1}, lambda el: False, P, hook):
                if o.kind != "ret":
                    r.brk("evmap_reinit_: %s %s" % (o.kind, o.why))
                    continue
                try:
                    ret = evalx(normx(o.at.e[1]), o.env, P)
                except EvalError:
                    ret = None
                sw_ = list(o.env.get("#sweeps", ()))
                want_sw = [("io", True)] + ([] if iofail else [("sig", True)])
                want_ret = -1 if (iofail or sigfail) else 0
                r.inst(("sweeps", iofail, sigfail), {"io_sweep_fails": iofail, "signal_sweep_fails": sigfail, "sweeps": sw_, "ret": ret})
                if (sw_ != want_sw or ret != want_ret) and nb < 2:
                    nb += 1
                    r.bad("K6:evmap_reinit_:sweeps", "%s:%d" % (h.file, h.line), h.name, "io sweep fails=%d, signal sweep fails=%d: runs %s returns %s; documented %s returns %d" % (iofail, sigfail, sw_, ret, want_sw, want_ret))
    return r


def run(ctx, config):
    P = ctx.prog(UNITS, config)
    return [rule_reinit(P), rule_need(P), rule_maps(P)]
