"""C28 — URIs: component validators equal the RFC 3986 character classes (exhaustive), ports are 0..65535, and evhttp_uri_join is the inverse of the RFC 3986 split on a domain of component shapes (K6)."""
import re
from ..core import Rule
from ..prog import *
from ..prog import PStr, PPtr, PRef, HEAP_BASE
from ..facts import AnalysisBroken
from ..interp import normx, nkey, run_all
from ..cmem import MEM0, mem_put, mem_str, mem_hook

UNITS = ["http", "evutil"]
LEVEL = "other"
CONFIGS = ["build", "assert"]
EXPLANATION = (
    "Three clauses of the round-trip property whose truth is in the code's own tables and decisions. "
    "V (validators): scheme_ok, userinfo_ok, regname_ok and end_of_path (path / query / fragment, conformant mode) are evaluated from their extracted CFGs on every "
    "single byte value (as the only character, and after a legal first character) and on every shape of a percent escape (%XY with X, Y from hex digits, non-hex, end of "
    "string): they accept exactly unreserved / sub-delims / the component's extra characters / pct-encoded of RFC 3986 (an escape completed by bytes behind the end of the span is not tested: every caller passes a span that is followed by a delimiter or the terminator, so that shape has no input). "
    "P (ports): parse_port accepts exactly strings of digits with value 0..65535 (typed evaluation: 10-digit and longer inputs must not wrap), and evhttp_uri_set_port accepts "
    "exactly -1..65535 (what the parser can produce). "
    "J (join): evhttp_uri_join is evaluated on a domain of component shapes (scheme present or not; host absent, reg-name, bracketed with the strip flag; userinfo; port -1 / 0 / 80 / "
    "65535; path absent, empty, absolute, relative, starting with '//', first segment containing ':'; query; fragment): it either refuses, or produces a string that the RFC 3986 "
    "Appendix B split takes apart into exactly the components that were set. "
    "S (siblings): every setter validates with the same predicate the parser uses for that component. "
    "A (authority): parse_authority is evaluated on authority strings laid out in mutable byte memory (it cuts the string in place), each followed by a path or by the terminator, with and "
    "without STRIP_BRACKETS, against an RFC 3986 3.2 reference: same accept/refuse, same userinfo / host / port, host denotation (stored text + had-brackets bit) equal to the host as "
    "written, public flags untouched, every copy inside the authority and inside its allocation. H (host setter): evhttp_uri_set_host over host forms x public flags x prior host state; "
    "evhttp_uri_set_flags keeps the internal bit; who may write uri->flags. "
    "U (whole parser): evhttp_uri_parse_with_flags is evaluated on a family of URI-reference forms (absolute, network-path, absolute-path, rootless, empty; every component present / "
    "absent / empty; colons, double slashes and escapes in the places where RFC 3986 treats them specially; invalid forms) with and without STRIP_BRACKETS, and on the unix-socket forms "
    "of EVHTTP_URI_UNIX_SOCKET, against an RFC 3986 reference: same accept / refuse, same seven components (plus the socket path). J also covers unix-socket component sets. "
    "Declined: equality with RFC 3986 on ALL strings (the families are finite), the NONCONFORMANT mode.")
ASSUMPTIONS = ["EVUTIL_IS*_ agree with ASCII (C41)", "evutil_inet_pton accepts exactly valid IPv6 texts (C40)"]

UNRESERVED = set(b"ABCDEFGHIJKLMNOPQRSTUVWXYZabcdefghijklmnopqrstuvwxyz0123456789-._~")
SUBDELIMS = set(b"!$&'()*+,;=")
HEXD = b"0123456789abcdefABCDEF"


def call_pure(P, fname, args, extra_env=None, max_steps=4000):
    """evaluate a pure string predicate; -> value or raises AnalysisBroken"""
    f = P.fn(fname)
    env = {"#typed": 1}
    for (pn, pt), v in zip(f.params, args):
        env[pn] = v
    if extra_env:
        env.update(extra_env)
    def hook(el, e_):
        n = callee_name(el.e)
        if n == "evutil_inet_pton":
            return 1
        return None
    vals = set()
    for o in run_all(f, (f.entry, 0), env, lambda el: False, P, hook, max_steps=max_steps):
        if o.kind == "exit" and o.why == "noreturn":
            continue
        if o.kind != "ret":
            raise AnalysisBroken("%s%r: %s %s" % (fname, tuple(a.text() if isinstance(a, PStr) else a for a in args)[:2], o.kind, o.why))
        try:
            vals.add(tevalx(normx(o.at.e[1]), o.env, P, f))
        except EvalError as ex:
            raise AnalysisBroken("%s: return value: %s" % (fname, ex))
    if len(vals) != 1:
        raise AnalysisBroken("%s: %d outcomes" % (fname, len(vals)))
    return vals.pop()


def span(s):
    p = PStr(s)
    return p, p + len(s)


def rule_validators(P):
    r = Rule("C28-validators", "K6", "component validators accept exactly the RFC 3986 characters (every byte value; every percent-escape shape)", floor=1500)
    E = {}
    for e in P.enums.values():
        for n, v in e["items"]:
            E[n] = v
    nb = 0

    def bad(fn, what, s, got, want):
        nonlocal nb
        if nb < 8:
            nb += 1
            f = P.fn(fn)
            r.bad("K6:%s:%s" % (fn, what), "%s:%d" % (f.file, f.line), fn, "%s on %r gives %r, RFC 3986 gives %r" % (fn, s, got, want))
    escapes = [b"%41", b"%4a", b"%zz", b"%4", b"%", b"%4g", b"%g4", b"a%41b", b"%41%42", b"%4\x00"]
    comps = [
        ("userinfo_ok", lambda c: c in UNRESERVED or c in SUBDELIMS or c == ord(":")),
        ("regname_ok", lambda c: c in UNRESERVED or c in SUBDELIMS),
    ]
    for fn, cls in comps:
        for c in range(1, 256):
            for prefix in (b"", b"a"):
                s = prefix + bytes([c])
                a, b = span(s)
                got = call_pure(P, fn, [a, b])
                want = 1 if cls(c) else 0
                r.inst((fn, s), None, nontrivial=False)
                if bool(got) != bool(want):
                    bad(fn, "character-class", s, got, want)
        for s in escapes:
            if b"\x00" in s:
                continue
            a, b = span(s)
            got = call_pure(P, fn, [a, b])
            want = 1 if re.fullmatch(rb"(?:[A-Za-z0-9\-._~!$&'()*+,;=:]|%[0-9A-Fa-f]{2})*" if fn == "userinfo_ok" else rb"(?:[A-Za-z0-9\-._~!$&'()*+,;=]|%[0-9A-Fa-f]{2})*", s) else 0
            r.inst((fn, s), {"fn": fn, "text": s.decode("latin-1"), "accepts": got, "rfc": want})
            if bool(got) != bool(want):
                bad(fn, "percent-escape", s, got, want)
    # scheme
    for c in range(1, 256):
        for s, want in ((bytes([c]), 1 if chr(c).isalpha() and c < 128 else 0), (b"a" + bytes([c]), 1 if (c < 128 and (chr(c).isalnum() or chr(c) in "+-.")) else 0)):
            a, b = span(s)
            got = call_pure(P, "scheme_ok", [a, b])
            r.inst(("scheme_ok", s), None, nontrivial=False)
            if bool(got) != bool(want):
                bad("scheme_ok", "character-class", s, got, want)
    a, b = span(b"")
    if call_pure(P, "scheme_ok", [a, b]):
        bad("scheme_ok", "empty", b"", 1, 0)
    # path / query / fragment: end_of_path returns a pointer; accepted iff it reaches the end
    parts = {"PART_PATH": lambda c: c in UNRESERVED or c in SUBDELIMS or c in b":@/", "PART_QUERY": lambda c: c in UNRESERVED or c in SUBDELIMS or c in b":@/?",
             "PART_FRAGMENT": lambda c: c in UNRESERVED or c in SUBDELIMS or c in b":@/?"}
    for part, cls in parts.items():
        if part not in E:
            r.brk("enum uri_part not found")
            return r
        for c in range(1, 256):
            s = b"a" + bytes([c])
            p = PStr(s)
            got = call_pure(P, "end_of_path", [p, E[part], 0])
            acc = isinstance(got, PStr) and (got - p) == len(s)
            want = cls(c)
            r.inst(("end_of_path", part, s), None, nontrivial=False)
            if acc != want:
                bad("end_of_path", "character-class:%s" % part, s, "stops at %s" % ((got - p) if isinstance(got, PStr) else got), "accept" if want else "stop at 1")
        for s in escapes:
            if b"\x00" in s:
                continue
            p = PStr(s)
            got = call_pure(P, "end_of_path", [p, E[part], 0])
            acc = isinstance(got, PStr) and (got - p) == len(s)
            want = bool(re.fullmatch(rb"(?:[A-Za-z0-9\-._~!$&'()*+,;=:@/?]|%[0-9A-Fa-f]{2})*", s))
            r.inst(("end_of_path", part, s), {"fn": "end_of_path", "part": part, "text": s.decode("latin-1"), "accepted_whole": acc, "rfc": want})
            if acc != want:
                bad("end_of_path", "percent-escape:%s" % part, s, acc, want)
    return r


def rule_ports(P):
    r = Rule("C28-ports", "K6", "parse_port accepts exactly digit strings with value 0..65535; evhttp_uri_set_port accepts exactly -1..65535", floor=20)
    cases = [(b"0", 0), (b"80", 80), (b"65535", 65535), (b"65536", -1), (b"99999", -1), (b"4294967376", -1), (b"99999999999999999999", -1), (b"", 0), (b"8a", -1), (b"-1", -1), (b"+80", -1), (b" 80", -1),
             (b"0080", 80), (b"00000000000000000080", 80), (b"2147483648", -1), (b"18446744073709551696", -1)]
    f = P.fn("parse_port")
    for s, want in cases:
        a, b = span(s)
        got = call_pure(P, "parse_port", [a, b])
        r.inst(("parse", s), {"text": s.decode(), "port": got, "expected": want})
        if got != want:
            r.bad("K6:parse_port:range", "%s:%d" % (f.file, f.line), f.name, "parse_port(%r) = %r, expected %r (a port is 0..65535 written in digits; longer inputs must not wrap)" % (s, got, want))
    g = P.fn("evhttp_uri_set_port")
    u = ["var", g.params[0][0], "param"]
    for port in (-2, -1, 0, 80, 65535, 65536, 70000, 2147483647):
        outs = [o for o in run_all(g, (g.entry, 0), {"#typed": 1, g.params[0][0]: PPtr("u"), g.params[1][0]: port, ("@", "u", "#zero"): 1}, lambda el: False, P, lambda el, e_: None, max_steps=100)
                if not (o.kind == "exit" and o.why == "noreturn")]
        for o in outs:
            if o.kind != "ret":
                r.brk("evhttp_uri_set_port(%d): %s" % (port, o.why))
                return r
            rv = tevalx(normx(o.at.e[1]), o.env, P, g)
            want = 0 if -1 <= port <= 65535 else -1
            r.inst(("set", port), {"port": port, "returns": rv, "expected": want})
            if rv != want:
                r.bad("K6:evhttp_uri_set_port:range", "%s:%d" % (g.file, g.line), g.name,
                      "evhttp_uri_set_port(%d) returns %r, expected %r: the parser only produces -1..65535, a larger port is written out by evhttp_uri_join and the result no longer parses" % (port, rv, want))
    return r


def rfc3986_split(s):
    """RFC 3986 Appendix B + authority split -> dict(scheme, userinfo, host, port, path, query, fragment) with None for absent"""
    m = re.match(rb"^(([^:/?#]+):)?(//([^/?#]*))?([^?#]*)(\?([^#]*))?(#(.*))?$", s, re.S)
    d = {"scheme": m.group(2), "userinfo": None, "host": None, "port": -1, "path": m.group(5), "query": m.group(7), "fragment": m.group(9)}
    auth = m.group(4)
    if auth is not None:
        if b"@" in auth:
            d["userinfo"], auth = auth.rsplit(b"@", 1)
        mm = re.match(rb"^(\[[^\]]*\]|[^:]*)(:(\d*))?$", auth)
        if mm is None:
            d["host"] = auth
        else:
            d["host"] = mm.group(1)
            if mm.group(3):
                d["port"] = int(mm.group(3))
    return d


def rule_join(P):
    r = Rule("C28-join", "K6", "evhttp_uri_join refuses, or produces a string whose RFC 3986 split gives back exactly the components that were set", floor=400)
    f = P.fn("evhttp_uri_join")
    BR = None
    for g in P.fns_in("http.c"):
        for x in [el.e for el in g.elems()] + [b.term["cond"] for b in g.branch_blocks()]:
            for q in walk(x):
                if is_e(q, "int") and len(q) > 2 and q[2] == "_EVHTTP_URI_HOST_HAS_BRACKETS":
                    BR = q[1]
    if BR is None:
        r.brk("_EVHTTP_URI_HOST_HAS_BRACKETS not found")
        return r
    U = lambda fl: ("@", "u", "evhttp_uri.%s" % fl)
    nb = 0
    import itertools
    schemes = [None, b"http"]
    hosts = [(None, 0), (b"example.com", 0), (b"::1", BR), (b"[::1]", 0), (b"v1.x", BR), (b"", 0)]
    users = [None, b"me:pw"]
    ports = [-1, 0, 80, 65535]
    paths = [None, b"", b"/p/q", b"p", b"//x/y", b"a:b/c", b"/"]
    qf = [(None, None), (b"k=v", None), (None, b"top"), (b"", b"")]
    combos = [c + (None,) for c in itertools.product(schemes, hosts, users, ports, paths, qf)]
    # unix-socket URIs (EVHTTP_URI_UNIX_SOCKET): the socket path takes the host's place; socket paths as the parser can produce them (no colon)
    combos += [(sc, (None, 0), us, -1, pa, q_f, sock) for sc in schemes for us in users for pa in paths for q_f in qf for sock in (b"/run/control.sock", b"sock", b"a:b", b"/x@y")]
    for scheme, (host, hflags), user, port, path, (query, frag), sock in combos:
        if host is None and sock is None and (user is not None or port != -1):
            continue          # userinfo/port without a host are not components of any URI: outside the domain (join drops them)
        env = {"#typed": 1, f.params[0][0]: PPtr("u"), f.params[1][0]: 7777, f.params[2][0]: 4096, "event_debug_logging_mask_": 0, ("@", "u", "#zero"): 1,
               U("scheme"): PStr(scheme) if scheme is not None else 0, U("host"): PStr(host) if host is not None else 0, U("userinfo"): PStr(user) if user is not None else 0,
               U("port"): port, U("path"): PStr(path) if path is not None else 0, U("query"): PStr(query) if query is not None else 0, U("fragment"): PStr(frag) if frag is not None else 0,
               U("unixsocket"): PStr(sock) if sock is not None else 0, U("flags"): hflags, "#out": b""}

        def hook(el, e_):
            n = callee_name(el.e)
            a = el.e[2]
            try:
                if n in P.fns and P.fns[n].file == "http.c" and n not in ("evhttp_uri_join",) and not n.startswith("evbuffer"):
                    return "inline"         # pure string helpers of the URI code (path_matches_noscheme ...)
                if n == "evbuffer_new":
                    return 55
                if n == "evbuffer_free":
                    return 0
                if n == "evbuffer_add":
                    p, cnt = evalx(normx(a[1]), e_, P), evalx(normx(a[2]), e_, P)
                    if not isinstance(p, PStr):
                        return "impure"
                    e_["#out"] = e_["#out"] + bytes(p.at(k) for k in range(cnt))
                    return 0
                if n == "evbuffer_add_printf":
                    fmt = evalx(normx(a[1]), e_, P).text()
                    args = list(a[2:])
                    out = b""
                    i = 0
                    while i < len(fmt):
                        if fmt[i:i + 2] == b"%s":
                            out += evalx(normx(args.pop(0)), e_, P).text()
                            i += 2
                        elif fmt[i:i + 2] == b"%d":
                            out += str(evalx(normx(args.pop(0)), e_, P)).encode()
                            i += 2
                        elif fmt[i:i + 1] == b"%":
                            return "impure"
                        else:
                            out += fmt[i:i + 1]
                            i += 1
                    e_["#out"] = e_["#out"] + out
                    return len(out)
                if n == "evbuffer_get_length":
                    return len(e_["#out"])
                if n == "evbuffer_remove":
                    e_["#result"] = e_["#out"]
                    return len(e_["#out"])
            except EvalError as ex:
                e_["#err"] = str(ex)
                return "impure"
            return None
        outs = [o for o in run_all(f, (f.entry, 0), env, lambda el: False, P, hook, max_steps=600) if not (o.kind == "exit" and o.why == "noreturn")]
        for o in outs:
            if o.kind != "ret":
                r.brk("evhttp_uri_join: %s %s %s" % (o.kind, o.why, o.env.get("#err", "")))
                return r
            rv = evalx(normx(o.at.e[1]), o.env, P)
            joined = o.env.get("#result") if rv == 7777 else None
            comps = {"scheme": scheme, "userinfo": user, "host": (b"[" + host + b"]") if (host is not None and hflags & BR) else host, "port": port, "path": path if path is not None else b"",
                     "query": query, "fragment": frag}
            if sock is not None:
                comps["unixsocket"] = sock
            r.inst((scheme, host, hflags, user, port, path, query, frag, sock), {"components": {k: (v.decode() if isinstance(v, bytes) else v) for k, v in comps.items()},
                                                                        "joined": joined.rstrip(b"\0").decode("latin-1") if joined else None}, nontrivial=joined is not None)
            if joined is None:
                continue
            if sock is not None:
                back = ref_unix_uri(joined.rstrip(b"\0"))
                if back is None or "unixsocket" not in back:
                    back = dict((k, None) for k in comps)
                    back["unparsable"] = True
            else:
                back = rfc3986_split(joined.rstrip(b"\0"))
            diff = [k for k in comps if back.get(k) != comps[k]]
            if diff and nb < 8:
                nb += 1
                k0 = diff[0]
                r.bad("K6:evhttp_uri_join:%s" % ("path-read-as-authority" if path is not None and path.startswith(b"//") and host is None else
                                                   ("path-read-as-scheme" if scheme is None and host is None and sock is None and path and b":" in path.split(b"/")[0] else ("unix:%s" % k0 if sock is not None else "component:%s" % k0))),
                      "%s:%d" % (f.file, f.line), f.name,
                      "components %s are joined into %r, which RFC 3986 splits into %s: %s differs (join must refuse what it cannot write unambiguously)" % (
                          {k: v for k, v in comps.items() if v not in (None, -1)}, joined.rstrip(b"\0"), {k: v for k, v in back.items() if v not in (None, -1)}, diff))
    seen, uniq = set(), []
    for f_ in r.findings:
        if f_.key not in seen:
            seen.add(f_.key)
            uniq.append(f_)
    r.findings = uniq
    return r


# ---------------------------------------------------------------------------------------------------------------------------------------------------
# the host component: how the parser and the setter store it (brackets stripped or not), and who may touch the internal "had brackets" bit

def uri_consts(P):
    out = {}
    for g in P.fns_in("http.c"):
        for x in [el.e for el in g.elems()] + [b.term["cond"] for b in g.branch_blocks()]:
            for q in walk(x):
                if is_e(q, "int") and len(q) > 2 and isinstance(q[2], str) and q[2] in ("_EVHTTP_URI_HOST_HAS_BRACKETS", "EVHTTP_URI_HOST_STRIP_BRACKETS", "EVHTTP_URI_UNIX_SOCKET", "EVHTTP_URI_NONCONFORMANT"):
                    out[q[2]] = q[1]
    return out


def ref_authority(t):
    """RFC 3986 3.2 with libevent's port range -> (userinfo or None, host as written, port or -1) or None"""
    user = None
    if b"@" in t:
        user, t = t.split(b"@", 1)
        if not re.match(rb"^(?:[A-Za-z0-9\-._~!$&'()*+,;=:]|%[0-9A-Fa-f]{2})*$", user):
            return None
    port = -1
    m = re.match(rb"^(.*):(\d*)$", t, re.S)
    if m:
        t = m.group(1)
        if m.group(2):
            port = int(m.group(2))
            if port > 65535:
                return None
    if t.startswith(b"[") and t.endswith(b"]") and len(t) >= 2:
        inner = t[1:-1]
        if re.match(rb"^v[0-9A-Fa-f]+\.[A-Za-z0-9\-._~!$&'()*+,;=:]+$", inner):
            return user, t, port
        if re.match(rb"^[0-9A-Fa-f:.]+$", inner) and b":" in inner:
            return user, t, port            # the domain below only holds well-formed IPv6 texts (their syntax is C40's)
        return None
    if not re.match(rb"^(?:[A-Za-z0-9\-._~!$&'()*+,;=]|%[0-9A-Fa-f]{2})*$", t):
        return None
    return user, t, port


AUTHORITIES = [b"", b"h", b"example.com", b"u@h", b"u:p@h", b"@h", b"h:80", b"h:", b"h:0", b"h:65535", b"h:65536", b"u@h:8", b"[::1]", b"[::1]:80", b"u@[::1]:8", b"[::1]:", b"[v1.x]", b"[v1.x]:9",
               b"u@[v1.x]", b"[vF.a:b]", b"[2001:db8::7]:443", b"[::1", b"::1]", b"[]", b"[v1.]", b"[v.x]", b"h h", b"a@b@c", b"%41b", b"%4", b"1.2.3.4", b"1.2.3.4:5", b"[::1]x", b"x[::1]", b":80", b"u@",
               b"u@:80", b"u s@h", b"[v1.x]:", b"u@[vA.b]:65535"]


def rule_authority(P):
    r = Rule("C28-authority", "K6", "parse_authority stores exactly the RFC 3986 userinfo / host / port of the authority (brackets stripped and remembered iff asked), reading only the authority and writing only what it allocated", floor=150)
    f = P.fn("parse_authority")
    K = uri_consts(P)
    if "_EVHTTP_URI_HOST_HAS_BRACKETS" not in K or "EVHTTP_URI_HOST_STRIP_BRACKETS" not in K:
        r.brk("URI flag constants not found")
        return r
    BR, STRIP = K["_EVHTTP_URI_HOST_HAS_BRACKETS"], K["EVHTTP_URI_HOST_STRIP_BRACKETS"]
    U = lambda fl: ("@", "u", "evhttp_uri.%s" % fl)
    nb = 0
    for auth in AUTHORITIES:
        for tail in (b"/p@q:1", b""):
            for flags in (0, STRIP):
                env = {"#typed": 1, "#bytemem": 1, "event_debug_logging_mask_": 0, f.params[0][0]: PPtr("u"), ("@", "u", "#zero"): 1, U("port"): -1, f.params[1][0]: MEM0, f.params[2][0]: MEM0 + len(auth),
                       f.params[3][0]: PRef(None, "#flags"), "#flags": flags, "#srcend": MEM0 + len(auth)}
                mem_put(env, MEM0, auth + tail)
                outs = [o for o in run_all(f, (f.entry, 0), env, lambda el: False, P, mem_hook(P), max_steps=6000) if not (o.kind == "exit" and o.why == "noreturn")]
                want = ref_authority(auth)
                for o in outs:
                    if o.kind != "ret":
                        r.brk("parse_authority(%r): %s %s %s" % (auth, o.kind, o.why, o.env.get("#err", "")))
                        return r
                    try:
                        rv = tevalx(normx(o.at.e[1]), o.env, P, f)
                    except EvalError as ex:
                        r.brk("parse_authority(%r): return value: %s" % (auth, ex))
                        return r
                    e_ = o.env
                    got = None
                    if rv == 0:
                        ha, ua = e_.get(U("host"), 0), e_.get(U("userinfo"), 0)
                        host = mem_str(e_, ha) if ha else None
                        user = mem_str(e_, ua) if ua else None
                        got = (user, host, e_.get(U("port"), -1), e_.get("#flags"))
                    r.inst((auth, tail, flags), {"authority": auth.decode("latin-1"), "followed_by": tail.decode(), "flags": flags, "returns": rv,
                                                "stored": None if got is None else {"userinfo": None if got[0] is None else got[0].decode("latin-1"), "host": None if got[1] is None else got[1].decode("latin-1"), "port": got[2], "flags": got[3]}})
                    bad = None
                    if e_.get("#oob"):
                        bad = ("K6:parse_authority:out-of-bounds", e_["#oob"])
                    elif (rv == 0) != (want is not None):
                        bad = ("K6:parse_authority:accepts", "returns %d; RFC 3986: %s" % (rv, "an authority" if want else "not an authority"))
                    elif rv == 0:
                        user, host, port, fl = got
                        wu, wh, wp = want
                        lit = wh.startswith(b"[")
                        if host is None:
                            bad = ("K6:parse_authority:host", "no host stored (or not terminated inside its allocation)")
                        else:
                            den = (b"[" + host + b"]") if (fl & BR) else host
                            if den != wh:
                                bad = ("K6:parse_authority:host", "host stored as %r with the brackets bit %s, which denotes %r; the authority's host is %r" % (host, "set" if fl & BR else "clear", den, wh))
                            elif lit and (flags & STRIP) and not (fl & BR):
                                bad = ("K6:parse_authority:strip", "STRIP_BRACKETS asked for, IP-literal %r stored with its brackets" % host)
                            elif (fl & ~BR) != flags:
                                bad = ("K6:parse_authority:flags", "public flags changed from %#x to %#x" % (flags, fl & ~BR))
                            elif user != wu:
                                bad = ("K6:parse_authority:userinfo", "userinfo %r, RFC 3986: %r" % (user, wu))
                            elif port != wp:
                                bad = ("K6:parse_authority:port", "port %r, RFC 3986: %r" % (port, wp))
                    if bad and nb < 8:
                        nb += 1
                        r.bad(bad[0], "%s:%d" % (f.file, f.line), f.name, "authority %r (followed by %r), flags %#x: %s" % (auth, tail, flags, bad[1]))
    seen, uniq = set(), []
    for f_ in r.findings:
        if f_.key not in seen:
            seen.add(f_.key)
            uniq.append(f_)
    r.findings = uniq
    return r


PCHAR = rb"(?:[A-Za-z0-9\-._~!$&'()*+,;=:@]|%[0-9A-Fa-f]{2})"


def ref_uri(t):
    """RFC 3986 URI-reference (sections 3 and 4.2, Appendix B split) with libevent's port range -> dict of components, or None when t is not one"""
    m = re.match(rb"^(([^:/?#]+):)?(//([^/?#]*))?([^?#]*)(\?([^#]*))?(#(.*))?$", t, re.S)
    scheme, auth, path, query, frag = m.group(2), m.group(4), m.group(5), m.group(7), m.group(9)
    if m.group(1) is not None and not re.match(rb"^[A-Za-z][A-Za-z0-9+.\-]*$", scheme):
        # what precedes the first colon is not a scheme: a relative reference whose first segment would then hold a colon (4.2 forbids it) - unless a slash comes first
        m2 = re.match(rb"^()()(//([^/?#]*))?([^?#]*)(\?([^#]*))?(#(.*))?$", t, re.S)
        scheme, auth, path, query, frag = None, m2.group(4), m2.group(5), m2.group(7), m2.group(9)
    d = {"scheme": scheme, "userinfo": None, "host": None, "port": -1, "path": path, "query": query, "fragment": frag}
    if auth is not None:
        a = ref_authority(auth)
        if a is None:
            return None
        d["userinfo"], d["host"], d["port"] = a
        if path and not path.startswith(b"/"):
            return None
    else:
        if path.startswith(b"//"):
            return None
        if scheme is None and b":" in path.split(b"/")[0]:
            return None
    if not re.match(rb"^(?:" + PCHAR + rb"|/)*$", path):
        return None
    for x in (query, frag):
        if x is not None and not re.match(rb"^(?:" + PCHAR + rb"|[/?])*$", x):
            return None
    return d


URIS = [b"http://example.com/p?q#f", b"http://example.com", b"http://example.com/", b"http://u:p@example.com:8080/a/b?x=1&y=2#top", b"//example.com/p", b"/p/q", b"p/q", b"p", b"", b"?q", b"#f",
        b"mailto:foo@bar", b"http:", b"http:/p", b"http:p", b"http://", b"http:///p", b"http://[::1]/", b"http://[::1]:80/x", b"http://[v1.x]/", b"ftp://h:21", b"a+b-c.d://h", b"1http://h/",
        b"ht!tp://h/", b"://h/", b"http://h:65536/", b"http://h:x/", b"http://h h/", b"http://h/a b", b"http://h/a%20b", b"http://h/a%2", b"http://h/?a%zz", b"http://h/#a#b", b"http://h/?a?b",
        b"http://h?q", b"http://h#f", b"a:b/c", b"a/b:c", b"./a:b", b"a%20b:c", b"/a:b", b"//h", b"//h:8", b"///p", b"http://u@h", b"http://@h", b"http://u@", b"http://[::1", b"http://h/p?", b"http://h/p#",
        b"http://h/p?#", b"x://h/p//q", b"x:/", b"x:?q", b"x:#f", b"http://a@b@c/", b"/p?q#f", b"p?q", b":", b":x", b"/:", b"http://h:/p", b"http://h:0/", b"http://1.2.3.4:5/", b"http::p", b"x::", b"x:a:b", b"x://h::"]


UNIX_URIS = [b"http://unix:/run/control.sock:/controller", b"http://unix:/tmp/sock:/path?q#f", b"http://u@unix:/tmp/sock:/p", b"http://unix:sock:/path", b"http://unix:/tmp/sock:", b"http://unix:a:",
             b"http://unix:/tmp/sock", b"http://unix.example.com/p", b"http://unix:/tmp/sock:?q", b"http://unix:/tmp/sock:#f", b"http://unix:/a/b/c:/d/e", b"http://example.com/p?q#f", b"/p", b"http://unix:/tmp/sock:index.html", b"http://unix:s:p?q", b"//unix:s:x", b"http://u@unix:s:p/q"]


def ref_unix_uri(t):
    """EVHTTP_URI_UNIX_SOCKET (http.h: "http://unix:/run/control.sock:/controller"): [scheme ":"] "//" [userinfo "@"] "unix:" socket-path ":" path-abempty ["?" query] ["#" fragment];
    anything whose authority does not start with "unix:" is an ordinary URI reference"""
    m = re.match(rb"^(?:([A-Za-z][A-Za-z0-9+.\-]*):)?//(?:([^@/?#]*)@)?unix:(.*)$", t, re.S)
    if not m:
        return ref_uri(t)
    scheme, user, rest = m.groups()
    if b":" not in rest:
        return None
    sock, rest = rest.split(b":", 1)
    m = re.match(rb"^((?:/" + PCHAR + rb"*)*)(?:\?((?:" + PCHAR + rb"|[/?])*))?(?:#((?:" + PCHAR + rb"|[/?])*))?$", rest, re.S)       # path-abempty [ "?" query ] [ "#" fragment ]
    if m is None:
        return None
    if user is not None and not re.match(rb"^(?:[A-Za-z0-9\-._~!$&'()*+,;=:]|%[0-9A-Fa-f]{2})*$", user):
        return None
    return {"scheme": scheme, "userinfo": user, "host": None, "port": -1, "path": m.group(1), "query": m.group(2), "fragment": m.group(3), "unixsocket": sock}


def rule_parse(P):
    r = Rule("C28-parse", "K6", "evhttp_uri_parse_with_flags accepts exactly the RFC 3986 URI references of a family of forms and stores exactly their components (scheme, userinfo, host, port, path, query, fragment)", floor=100)
    f = P.fn("evhttp_uri_parse_with_flags")
    K = uri_consts(P)
    if "_EVHTTP_URI_HOST_HAS_BRACKETS" not in K or "EVHTTP_URI_HOST_STRIP_BRACKETS" not in K:
        r.brk("URI flag constants not found")
        return r
    BR, STRIP = K["_EVHTTP_URI_HOST_HAS_BRACKETS"], K["EVHTTP_URI_HOST_STRIP_BRACKETS"]
    U = lambda fl: ("@", "u", "evhttp_uri.%s" % fl)
    nb = 0
    UNIX = K.get("EVHTTP_URI_UNIX_SOCKET")
    if UNIX is None:
        r.brk("EVHTTP_URI_UNIX_SOCKET not found")
        return r
    for text, flags in [(t, fl) for t in URIS for fl in (0, STRIP)] + [(t, UNIX) for t in UNIX_URIS]:
        if True:
            env = {"#typed": 1, "#bytemem": 1, "event_debug_logging_mask_": 0, f.params[0][0]: MEM0, f.params[1][0]: flags}
            mem_put(env, MEM0, text)

            def extra(el, e_):
                n = callee_name(el.e)
                if n == "event_mm_calloc_":
                    e_[("@", "u", "#zero")] = 1
                    return PPtr("u")
                if n == "evhttp_uri_free":
                    e_["#freed"] = 1
                    return 0
                return None
            outs = [o for o in run_all(f, (f.entry, 0), env, lambda el: False, P, mem_hook(P, extra), max_steps=20000) if not (o.kind == "exit" and o.why == "noreturn")]
            want = ref_unix_uri(text) if flags & UNIX else ref_uri(text)
            if want is not None:
                want.setdefault("unixsocket", None)
            for o in outs:
                if o.kind != "ret":
                    r.brk("evhttp_uri_parse_with_flags(%r): %s %s %s" % (text, o.kind, o.why, o.env.get("#err", "")))
                    return r
                try:
                    rv = evalx(normx(o.at.e[1]), o.env, P)
                except EvalError as ex:
                    r.brk("evhttp_uri_parse_with_flags(%r): return value: %s" % (text, ex))
                    return r
                e_ = o.env
                ok = isinstance(rv, PPtr)
                got = None
                if ok:
                    def S(fl):
                        a = e_.get(U(fl), 0)
                        return mem_str(e_, a) if isinstance(a, int) and a else None
                    fl = e_.get(U("flags"), 0)
                    host = S("host")
                    got = {"scheme": S("scheme"), "userinfo": S("userinfo"), "host": None if host is None else ((b"[" + host + b"]") if fl & BR else host), "port": e_.get(U("port"), -1), "path": S("path"),
                           "query": S("query"), "fragment": S("fragment"), "unixsocket": S("unixsocket")}
                r.inst((text, flags), {"uri": text.decode("latin-1"), "flags": flags, "accepted": ok, "components": None if got is None else {k: (v.decode("latin-1") if isinstance(v, bytes) else v) for k, v in got.items()}})
                bad = None
                if e_.get("#oob"):
                    bad = ("out-of-bounds", e_["#oob"])
                elif ok != (want is not None):
                    bad = ("accepts", "%s; RFC 3986: %s" % ("accepted" if ok else "refused", "a URI reference with components %s" % want if want else "not a URI reference"))
                elif ok:
                    diff = [k for k in want if got[k] != want[k]]
                    if diff:
                        bad = ("component:%s" % diff[0], "stores %s; RFC 3986 components: %s (%s differ)" % ({k: v for k, v in got.items() if v not in (None, -1)}, {k: v for k, v in want.items() if v not in (None, -1)}, diff))
                if bad and nb < 8:
                    nb += 1
                    r.bad("K6:evhttp_uri_parse_with_flags:%s" % bad[0], "%s:%d" % (f.file, f.line), f.name, "%r, flags %#x: %s" % (text, flags, bad[1]))
    seen, uniq = set(), []
    for f_ in r.findings:
        if f_.key not in seen:
            seen.add(f_.key)
            uniq.append(f_)
    r.findings = uniq
    return r


def rule_sethost(P):
    r = Rule("C28-sethost", "K6", "evhttp_uri_set_host: an accepted host is stored so that (host, brackets bit) denotes it, public flags untouched; a refused host changes nothing; evhttp_uri_set_flags keeps the brackets bit", floor=60)
    f = P.fn("evhttp_uri_set_host")
    K = uri_consts(P)
    if "_EVHTTP_URI_HOST_HAS_BRACKETS" not in K or "EVHTTP_URI_HOST_STRIP_BRACKETS" not in K:
        r.brk("URI flag constants not found")
        return r
    BR, STRIP = K["_EVHTTP_URI_HOST_HAS_BRACKETS"], K["EVHTTP_URI_HOST_STRIP_BRACKETS"]
    U = lambda fl: ("@", "u", "evhttp_uri.%s" % fl)
    OLD = HEAP_BASE + 5000
    hosts = [None, b"example.com", b"", b"[::1]", b"[v1.x]", b"[2001:db8::7]", b"[::1", b"a b", b"[v1.]", b"1.2.3.4"]
    OTHER = K.get("EVHTTP_URI_NONCONFORMANT", 1)
    for host in hosts:
        for pub in (0, STRIP, STRIP | OTHER, OTHER):
            for prior in ((None, 0), (b"old.example", 0), (b"::2", BR)):
                if prior[1] and not (pub & STRIP):
                    continue
                env = {"#typed": 1, "#bytemem": 1, "event_debug_logging_mask_": 0, f.params[0][0]: PPtr("u"), ("@", "u", "#zero"): 1, U("flags"): pub | prior[1], U("host"): OLD if prior[0] is not None else 0,
                       f.params[1][0]: MEM0 if host is not None else 0}
                if host is not None:
                    mem_put(env, MEM0, host)
                if prior[0] is not None:
                    mem_put(env, OLD, prior[0])
                outs = [o for o in run_all(f, (f.entry, 0), env, lambda el: False, P, mem_hook(P), max_steps=6000) if not (o.kind == "exit" and o.why == "noreturn")]
                ok = host is None or (ref_authority(host) is not None and b"@" not in host and ref_authority(host)[2] == -1 and ref_authority(host)[1] == host)
                for o in outs:
                    if o.kind != "ret":
                        r.brk("evhttp_uri_set_host(%r): %s %s %s" % (host, o.kind, o.why, o.env.get("#err", "")))
                        return r
                    rv = tevalx(normx(o.at.e[1]), o.env, P, f)
                    e_ = o.env
                    ha = e_.get(U("host"), 0)
                    st = mem_str(e_, ha) if ha else None
                    fl = e_.get(U("flags"))
                    r.inst((host, pub, prior), {"host": None if host is None else host.decode(), "public_flags": pub, "before": [None if prior[0] is None else prior[0].decode(), prior[1]], "returns": rv,
                                                "after": [None if st is None else st.decode("latin-1"), fl]})
                    bad = None
                    if e_.get("#oob"):
                        bad = ("out-of-bounds", e_["#oob"])
                    elif (rv == 0) != ok:
                        bad = ("accepts", "returns %d for %s host" % (rv, "a valid" if ok else "an invalid"))
                    elif rv != 0:
                        if (st, fl) != (prior[0], pub | prior[1]):
                            bad = ("refused-but-changed", "refused, yet host/flags went from %r/%#x to %r/%#x" % (prior[0], pub | prior[1], st, fl))
                    else:
                        den = None if st is None else ((b"[" + st + b"]") if (fl & BR) else st)
                        if den != host:
                            bad = ("denotes", "stored %r with the brackets bit %s, which evhttp_uri_join writes as %r; the host set was %r" % (st, "set" if fl & BR else "clear", den, host))
                        elif (fl & ~BR) != pub:
                            bad = ("public-flags", "public flags changed from %#x to %#x" % (pub, fl & ~BR))
                        elif host is not None and host.startswith(b"[") and (pub & STRIP) and not (fl & BR):
                            bad = ("strip", "STRIP_BRACKETS is set, the IP-literal is stored with its brackets")
                    if bad:
                        r.bad("K6:evhttp_uri_set_host:%s" % bad[0], "%s:%d" % (f.file, f.line), f.name, "host %r, public flags %#x, before %r/%#x: %s" % (host, pub, prior[0], prior[1], bad[1]))
    # evhttp_uri_set_flags and every other writer of uri->flags
    g = P.fn("evhttp_uri_set_flags")
    for old in (0, BR, BR | STRIP, STRIP):
        for newf in (0, STRIP, OTHER, STRIP | OTHER):
            env = {"#typed": 1, g.params[0][0]: PPtr("u"), ("@", "u", "#zero"): 1, U("flags"): old, g.params[1][0]: newf}
            for o in run_all(g, (g.entry, 0), env, lambda el: False, P, lambda el, e_: None, max_steps=200):
                if o.kind == "exit" and o.why == "noreturn":
                    continue
                if o.kind not in ("ret", "exit"):
                    r.brk("evhttp_uri_set_flags: %s %s" % (o.kind, o.why))
                    return r
                fl = o.env.get(U("flags"))
                r.inst(("set_flags", old, newf), {"flags_before": old, "set": newf, "flags_after": fl})
                if fl is None or (fl & BR) != (old & BR) or (fl & ~BR) != newf:
                    r.bad("K2:evhttp_uri_set_flags:internal-bit", "%s:%d" % (g.file, g.line), g.name,
                          "flags %#x, set %#x: become %s; the internal had-brackets bit belongs to the host (a host stored without its brackets would be joined without them) and the public bits are the caller's" % (old, newf, "%#x" % fl if fl is not None else "unknown"))
    WRITERS = {"evhttp_uri_set_flags": "evaluated above", "evhttp_uri_set_host": "evaluated above", "evhttp_uri_parse_with_flags": "fresh object", "evhttp_uri_parse_authority": "fresh object"}
    for h in P.fns_in("http.c"):
        for el, lhs, op, rhs in h.stores():
            l = strip(lhs)
            if is_e(l, "fld") and l[2] == "evhttp_uri.flags":
                r.inst(("writer", h.name, el.n), {"fn": h.name, "site": el.where(), "store": show(el.e)[:60], "known_writer": h.name in WRITERS})
                if h.name not in WRITERS:
                    r.bad("K2:%s:writes-uri-flags" % h.name, el.where(), h.name, "%s stores uri->flags outside the functions that own the host's brackets bit" % show(el.e)[:60])
    seen, uniq = set(), []
    for f_ in r.findings:
        if f_.key not in seen:
            seen.add(f_.key)
            uniq.append(f_)
    r.findings = uniq
    return r


def rule_siblings(P):
    r = Rule("C28-siblings", "K7", "each setter validates its component with the predicate the parser uses for it", floor=5)
    table = {"evhttp_uri_set_scheme": "scheme_ok", "evhttp_uri_set_userinfo": "userinfo_ok", "evhttp_uri_set_host": ("regname_ok", "bracket_addr_ok"), "evhttp_uri_set_path": "end_of_path",
             "evhttp_uri_set_query": "end_of_path", "evhttp_uri_set_fragment": "end_of_path"}
    parser_calls = set()
    for n in ("evhttp_uri_parse_with_flags", "parse_authority", "evhttp_uri_parse_authority"):
        if n in P.fns:
            parser_calls |= set(callee_name(el.e) for el in P.fns[n].calls())
    for setter, preds in table.items():
        g = P.fn(setter)
        preds = (preds,) if isinstance(preds, str) else preds
        called = set(callee_name(el.e) for el in g.calls())
        ok = all(p in called for p in preds) and all(p in parser_calls for p in preds)
        r.inst(setter, {"setter": setter, "validates_with": sorted(p for p in preds if p in called), "parser_uses": sorted(p for p in preds if p in parser_calls)})
        if not ok:
            r.bad("K7:%s:validator" % setter, "%s:%d" % (g.file, g.line), setter, "%s does not validate with %s (which the parser uses for this component): a component could be set that the parser would never produce" % (setter, preds))
    return r


def run(ctx, config):
    P = ctx.prog(UNITS, config)
    rules = []
    for mk in (rule_validators, rule_ports, rule_join, rule_authority, rule_parse, rule_sethost, rule_siblings):
        try:
            rules.append(mk(P))
        except AnalysisBroken as ex:
            rr = Rule("C28-%s" % mk.__name__[5:], "K6", mk.__name__, floor=1)
            rr.brk(str(ex))
            rules.append(rr)
    return rules
