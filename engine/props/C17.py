"""C17 — bufferevents deliver the stream intact, then EOF/error once: the socket read/write callbacks and the pair transfer/flush as decision tables and move-only transfers (K6/K2)."""
from ..core import Rule
from ..prog import *
from ..prog import PPtr
from ..facts import AnalysisBroken
from ..interp import normx, nkey, run_all

UNITS = ["bufferevent_sock", "bufferevent_pair", "bufferevent_filter", "bufferevent_ssl", "bufferevent"]
LEVEL = "other"
CONFIGS = ["build", "assert"]
EXPLANATION = (
    "Necessary structural conditions of stream integrity, decided by evaluating the transport callbacks on the finite domain of what the system call answers. "
    "R (bufferevent_readcb): for event in {READ, TIMEOUT, READ|TIMEOUT} x result of evbuffer_read in {n > 0, 0, -1 retriable, -1 connection refused, -1 other}: data (n > 0) is "
    "charged and the read callback triggered, never an event callback; end of stream (0) and hard errors disable reading FIRST and then report exactly one event callback with "
    "READING|EOF resp. READING|ERROR; a retriable error reports nothing and keeps reading enabled; a pure timeout reports READING|TIMEOUT without reading; the input buffer is "
    "unfrozen exactly around the read. "
    "W (bufferevent_writecb, connected): result of evbuffer_write_atmost in {n > 0, 0, -1 retriable, -1 other} x output left or not: progress is charged, the write event is "
    "removed when the buffer drains, the write callback triggered; 0 and hard errors disable writing first and report exactly one WRITING|EOF resp. WRITING|ERROR; the output "
    "buffer is unfrozen exactly around the write. "
    "P (be_pair_transfer / be_pair_flush): bytes go from one side's output to the other side's input only by whole-buffer moves (evbuffer_remove_buffer / evbuffer_add_buffer: order "
    "preserved, nothing copied or dropped — their own behaviour is C12), limited by the reader's high watermark unless flushing; both buffers are frozen again on every path; "
    "a BEV_FINISHED flush transfers BEFORE it reports EOF to the partner, exactly once, with the direction bits of the flush. "
    "M (who moves data): in the socket, pair and filter back ends the input buffer of a bufferevent is written only by the transport (evbuffer_read / the pair transfer / the filter) "
    "and its output buffer is drained only by the transport - K2 over the buffer-mutating calls. "
    "F (filter): be_filter_read_nolock_ never returns with data left in the underlying input unless the filter input is full and the inbuf callback is armed (somebody comes back "
    "for it); be_filter_eventcb forwards each event once, unchanged, after pushing pending input through the filter in FINISHED mode when the read direction ended. "
    "T (TLS do_read / do_write): over iovec layouts x scripts of answers of the TLS read / write (progress of 1, 2 or everything asked; want-read; want-write; closed) x the rate limit "
    "suspending after the first progress: the bytes the TLS read delivered are exactly the extents committed to the input (in place, in order, once); closure is never reported while "
    "bytes read in this call are uncommitted; the bytes the TLS write accepted are exactly the prefix drained from the output, no byte is offered twice, nothing of length zero is offered. "
    "D (deferred runners): the pending flag of a data callback is cleared before the callback runs (C19's decision table reused: a violation strands bytes in the input). "
    "Declined: equality of the byte streams over histories of writes, toggles, flushes and faults (runtime values and orders), user filter callbacks, the TLS handshake state machines, "
    "the early OP_ERR returns of do_read / do_write after progress (allocation of an event failing in set/clear_rbow: the connection is torn down).")
ASSUMPTIONS = ["evbuffer_read/evbuffer_write_atmost move exactly what the system call reports (C16)", "evbuffer_add_buffer/remove_buffer move bytes in order (C12)"]


def consts(P):
    out = {}
    import re
    for g in P.all_fns:
        for x in [el.e for el in g.elems()] + [b.term["cond"] for b in g.branch_blocks()]:
            for q in walk(x):
                if is_e(q, "int") and len(q) > 2 and isinstance(q[2], str) and re.match(r"^(BEV_EVENT_|EV_|BEV_|ECONN|EAGAIN|EINTR)[A-Z_]*$", q[2]):
                    out.setdefault(q[2], q[1])
    for e in P.enums.values():
        for n, v in e["items"]:
            out.setdefault(n, v)
    return out


def sock_rule(P, C, fname, direction):
    rd = direction == "read"
    r = Rule("C17-sock-%s" % direction, "K6", "bufferevent_%scb: data is delivered, EOF/error disable the direction first and are reported exactly once, retriable errors report nothing" % direction, floor=10)
    f = P.fn(fname)
    bev = ["var", "bufev", "local"]
    bp = ["var", "bufev_p", "local"]
    XFER = "evbuffer_read" if rd else "evbuffer_write_atmost"
    DIR = C["EV_READ"] if rd else C["EV_WRITE"]
    DIRBIT = C["BEV_EVENT_READING"] if rd else C["BEV_EVENT_WRITING"]
    EAGAIN, ECONNRESET, ECONNREFUSED = 11, 104, 111
    results = [("data", 5, 0), ("eof", 0, 0), ("again", -1, EAGAIN), ("reset", -1, ECONNRESET)] + ([("refused", -1, ECONNREFUSED)] if rd else [])
    for event in (DIR, C["EV_TIMEOUT"], DIR | C["EV_TIMEOUT"]):
        for rname, res, err in results:
            for left, low in (((0, 0),) if rd else ((0, 0), (7, 0), (7, 64), (0, 64))):
                env = {"#typed": 1, "event_debug_logging_mask_": 0, f.params[0][0]: 9, f.params[1][0]: event, f.params[2][0]: 1, "#ops": (),
                       nkey(["fld", ["fld", bev, "bufferevent.wm_read", "->"], "event_watermark.high", "."]): 0,
                       nkey(["fld", bp, "bufferevent_private.read_suspended", "->"]): 0, nkey(["fld", bp, "bufferevent_private.write_suspended", "->"]): 0,
                       nkey(["fld", bp, "bufferevent_private.connecting", "->"]): 0, nkey(["fld", bp, "bufferevent_private.connection_refused", "->"]): 0,
                       nkey(["fld", bev, "bufferevent.enabled", "->"]): C["EV_READ"] | C["EV_WRITE"], nkey(["fld", bev, "bufferevent.input", "->"]): 71, nkey(["fld", bev, "bufferevent.output", "->"]): 72,
                       nkey(["fld", ["fld", bev, "bufferevent.wm_write", "->"], "event_watermark.low", "."]): low,
                       "#outlen": 12}

                def hook(el, e_):
                    n = callee_name(el.e)
                    a = el.e[2]
                    def op(x):
                        e_["#ops"] = e_["#ops"] + (x,)
                    try:
                        if n == XFER:
                            op(("transfer",))
                            if not rd and res > 0:
                                e_["#outlen"] = left
                            return res
                        if n == "evbuffer_get_length":
                            h = evalx(normx(a[0]), e_, P)
                            return e_["#outlen"] if h == 72 else 0
                        if n in ("evbuffer_unfreeze", "evbuffer_freeze"):
                            op((n[9:], evalx(normx(a[0]), e_, P), evalx(normx(a[1]), e_, P)))
                            return 0
                        if n in ("__errno_location",):
                            return None
                        if n in ("bufferevent_get_read_max_", "bufferevent_get_write_max_"):
                            return 4096
                        if n in ("bufferevent_decrement_read_buckets_", "bufferevent_decrement_write_buckets_"):
                            op(("charge", evalx(normx(a[1]), e_, P)))
                            return 0
                        if n == "bufferevent_trigger_nolock_":
                            op(("trigger", evalx(normx(a[1]), e_, P)))
                            return 0
                        if n == "bufferevent_disable":
                            op(("disable", evalx(normx(a[1]), e_, P)))
                            return 0
                        if n == "bufferevent_run_eventcb_":
                            op(("eventcb", evalx(normx(a[1]), e_, P)))
                            return 0
                        if n == "event_del":
                            op(("event_del",))
                            return 0
                        if n in ("bufferevent_incref_and_lock_", "bufferevent_decref_and_unlock_", "bufferevent_wm_suspend_read", "bufferevent_socket_set_conn_address_fd_"):
                            return 0
                    except EvalError as ex:
                        e_["#err"] = str(ex)
                        return "impure"
                    return None
                # errno is read through the EVUTIL_SOCKET_ERROR / evutil_socket_geterror macro: *__errno_location()
                errkeys = {}
                for el in f.elems():
                    for q in walk(el.e):
                        if is_e(q, "deref") and is_e(strip(q[1]), "call") and callee_name(strip(q[1])) == "__errno_location":
                            errkeys[nkey(q)] = err
                env.update(errkeys)
                env["err"] = err
                outs = [o for o in run_all(f, (f.entry, 0), env, lambda el: False, P, hook, max_steps=600) if not (o.kind == "exit" and o.why == "noreturn")]
                got = set()
                for o in outs:
                    if o.kind == "unknown":
                        r.brk("%s(event %#x, %s): %s %s" % (fname, event, rname, o.why, o.env.get("#err", "")))
                        return r
                    got.add(tuple(x for x in o.env["#ops"] if x[0] not in ("charge", "event_del")))     # rate-limit accounting (C21) and event bookkeeping are not stream integrity ...
                    if not rd and ("event_del",) in o.env["#ops"] and o.env.get("#outlen", 0) > 0 and rname in ("data", "again") and event != C["EV_TIMEOUT"]:
                        # ... except this: the write event is what sends the rest (and carries the write timeout); removing it while output is left strands those bytes
                        r.bad("K6:%s:write-event-removed-with-output-left" % fname, "%s:%d" % (f.file, f.line), fname,
                              "event %#x, transfer answers %s, %d byte(s) still in the output (write low-water mark %d): the write event is deleted; nothing sends the rest and no write timeout can fire" % (event, rname, o.env["#outlen"], low))
                # reference
                BUF = 71 if rd else 72
                END = 0 if rd else 1
                if event == C["EV_TIMEOUT"]:
                    want = (("disable", DIR), ("eventcb", DIRBIT | C["BEV_EVENT_TIMEOUT"]))
                else:
                    core = [("unfreeze", BUF, END), ("transfer",), ("freeze", BUF, END)]
                    if rname == "data":
                        core += [("trigger", DIR)]
                    elif rname == "eof":
                        core += [("disable", DIR), ("eventcb", DIRBIT | C["BEV_EVENT_EOF"])]
                    elif rname == "reset":
                        core += [("disable", DIR), ("eventcb", DIRBIT | C["BEV_EVENT_ERROR"])]
                    want = tuple(core)
                r.inst((event, rname, left, low), {"event": hex(event), "transfer_result": rname, "output_left": left, "write_low_mark": low, "actions": [list(x) for g in got for x in g]})
                tmo = (("disable", DIR), ("eventcb", DIRBIT | C["BEV_EVENT_TIMEOUT"]))
                if event == DIR | C["EV_TIMEOUT"] and got == {tmo}:
                    continue        # readiness and timeout together: reporting the timeout first loses nothing (the data stays in the socket / the buffer)
                if got != {want}:
                    r.bad("K6:%s:%s" % (fname, "timeout" if event == C["EV_TIMEOUT"] else rname), "%s:%d" % (f.file, f.line), fname,
                          "event %#x, transfer answers %s%s: does %s; protocol: %s" % (event, rname, "" if rd else " (output left: %d)" % left, sorted(got), list(want)))
    seen, uniq = set(), []
    for f_ in r.findings:
        if f_.key not in seen:
            seen.add(f_.key)
            uniq.append(f_)
    r.findings = uniq
    return r


def rule_pair(P, C):
    r = Rule("C17-pair", "K6/K2", "pair transfer moves whole buffers (bounded by the reader's high watermark unless flushing), re-freezes on every path; a FINISHED flush transfers before it reports EOF once", floor=12)
    f = P.fn("be_pair_transfer")
    src, dst = ["var", f.params[0][0], "param"], ["var", f.params[1][0], "param"]
    K = lambda b, fl: nkey(["fld", b, "bufferevent.%s" % fl, "->"])
    for high in (0, 100):
        for dstlen in (0, 40, 100, 150):
            for srclen in (0, 30, 500):
                for ignore in (0, 1):
                    env = {"#typed": 1, "event_debug_logging_mask_": 0, src[1]: 1, dst[1]: 2, f.params[2][0]: ignore, "#ops": (), K(src, "output"): 11, K(src, "input"): 12, K(dst, "input"): 21, K(dst, "output"): 22,
                           nkey(["fld", ["fld", dst, "bufferevent.wm_read", "->"], "event_watermark.high", "."]): high}
                    lens = {11: srclen, 21: dstlen, 22: 0, 12: 0}

                    def hook(el, e_):
                        n = callee_name(el.e)
                        a = el.e[2]
                        try:
                            if n == "evbuffer_get_length":
                                return lens.get(evalx(normx(a[0]), e_, P), 0)
                            if n in ("evbuffer_unfreeze", "evbuffer_freeze"):
                                e_["#ops"] = e_["#ops"] + ((n[9:], evalx(normx(a[0]), e_, P), evalx(normx(a[1]), e_, P)),)
                                return 0
                            if n == "evbuffer_remove_buffer":
                                e_["#ops"] = e_["#ops"] + (("move", evalx(normx(a[0]), e_, P), evalx(normx(a[1]), e_, P), evalx(normx(a[2]), e_, P)),)
                                return 0
                            if n == "evbuffer_add_buffer":
                                e_["#ops"] = e_["#ops"] + (("move", evalx(normx(a[1]), e_, P), evalx(normx(a[0]), e_, P), "all"),)
                                return 0
                            if n == "bufferevent_trigger_nolock_":
                                e_["#ops"] = e_["#ops"] + (("trigger", evalx(normx(a[0]), e_, P), evalx(normx(a[1]), e_, P)),)
                                return 0
                            if n in ("event_add", "event_del", "bufferevent_generic_adj_timeouts_", "bufferevent_add_event_", "event_pending"):
                                return 0
                            if n in ("evbuffer_add", "evbuffer_drain", "evbuffer_remove", "evbuffer_copyout", "evbuffer_prepend"):
                                e_["#ops"] = e_["#ops"] + (("copy-or-drop", n),)
                                return 0
                        except EvalError as ex:
                            e_["#err"] = str(ex)
                            return "impure"
                        return None
                    outs = [o for o in run_all(f, (f.entry, 0), env, lambda el: False, P, hook, max_steps=500) if not (o.kind == "exit" and o.why == "noreturn")]
                    for o in outs:
                        if o.kind == "unknown":
                            r.brk("be_pair_transfer: %s %s" % (o.why, o.env.get("#err", "")))
                            return r
                        ops = o.env["#ops"]
                        moves = [x for x in ops if x[0] == "move"]
                        bad = []
                        if any(x[0] == "copy-or-drop" for x in ops):
                            bad.append("data is copied or dropped by %s instead of moved" % [x[1] for x in ops if x[0] == "copy-or-drop"])
                        # stream integrity, not watermark policy: bytes only ever go writer's output -> reader's input; a flush (ignore_wm) hands over EVERYTHING
                        # (be_pair_flush announces end of stream right after it); without a flush something moves whenever the reader has room
                        if any((x[1], x[2]) != (11, 21) for x in moves):
                            bad.append("moves %s: not from the writer's output to the reader's input" % moves)
                        if ignore or not high:
                            if ("move", 11, 21, "all") not in moves and not any(x[3] != "all" and x[3] >= srclen for x in moves):
                                bad.append("%s: moves %s, but everything the writer wrote must be handed over" % ("flush" if ignore else "no watermark", moves))
                        elif dstlen < high:
                            if not any(x[3] == "all" or x[3] > 0 for x in moves):
                                bad.append("the reader has room (%d < %d) but nothing is moved: %s" % (dstlen, high, moves))
                        wantm = moves or (high and not ignore and dstlen >= high)
                        fr = [x for x in ops if x[0] in ("unfreeze", "freeze")]
                        # both buffers are opened before anything moves and closed again afterwards; in which order the two are opened / closed is immaterial
                        if set(fr[:2]) != {("unfreeze", 11, 1), ("unfreeze", 21, 0)} or set(fr[-2:]) != {("freeze", 11, 1), ("freeze", 21, 0)} or len(fr) != 4:
                            bad.append("freeze protocol %s" % fr)
                        if moves:
                            tr = [x for x in ops if x[0] == "trigger"]
                            if (("trigger", 2, C["EV_READ"]) not in tr) or (("trigger", 1, C["EV_WRITE"]) not in tr):
                                bad.append("triggers %s" % tr)
                        r.inst((high, dstlen, srclen, ignore), {"reader_high_watermark": high, "reader_has": dstlen, "writer_has": srclen, "flushing": ignore, "actions": [list(x) for x in ops]})
                        if bad:
                            r.bad("K6:be_pair_transfer:protocol", "%s:%d" % (f.file, f.line), f.name, "high=%d reader has %d writer has %d flushing=%d: %s" % (high, dstlen, srclen, ignore, "; ".join(bad)))
    # flush
    g = P.fn("be_pair_flush")
    bv = ["var", g.params[0][0], "param"]
    MODES = [n for n in C if n in ("BEV_NORMAL", "BEV_FLUSH", "BEV_FINISHED")]
    if len(MODES) != 3:
        r.brk("enum bufferevent_flush_mode not found")
        return r
    for mode in MODES:
        for iotype in (C["EV_READ"], C["EV_WRITE"], C["EV_READ"] | C["EV_WRITE"]):
            subp = ("sub", "pp", "bufferevent_pair.bev")
            env = {"#typed": 1, "event_debug_logging_mask_": 0, bv[1]: 1, g.params[1][0]: iotype, g.params[2][0]: C[mode], "#ops": (), "bev_p": PPtr("me"),
                   ("@", "me", "bufferevent_pair.partner"): PPtr("pp"), ("@", "pp", "bufferevent_pair.bev"): PPtr(subp), ("@", subp, "bufferevent_private.bev"): PPtr(("sub", subp, "bev"))}
            start = None
            for el_ in g.elems():
                if el_.e[0] == "decl" and el_.e[1] == "bev_p":
                    start = (el_.bid, el_.idx + 1)
            if start is None:
                r.brk("be_pair_flush: declaration of bev_p not found")
                return r

            def who(v):
                return 1 if v == 1 else 2      # the flushing side is the parameter (1); anything derived from bev_p->partner is the partner (2)

            def hook2(el, e_):
                n = callee_name(el.e)
                a = el.e[2]
                try:
                    if n == "be_pair_transfer":
                        e_["#ops"] = e_["#ops"] + (("transfer", who(evalx(normx(a[0]), e_, P)), who(evalx(normx(a[1]), e_, P)), evalx(normx(a[2]), e_, P)),)
                        return 0
                    if n == "bufferevent_run_eventcb_":
                        e_["#ops"] = e_["#ops"] + (("eventcb", who(evalx(normx(a[0]), e_, P)), evalx(normx(a[1]), e_, P)),)
                        return 0
                    if n in ("upcast", "downcast"):
                        return 1 if n == "upcast" else 2
                    if n in ("bufferevent_incref_and_lock_", "bufferevent_decref_and_unlock_", "incref_and_lock", "decref_and_unlock"):
                        return 0
                except EvalError as ex:
                    e_["#err"] = str(ex)
                    return "impure"
                return None
            outs = [o for o in run_all(g, start, env, lambda el: False, P, hook2, max_steps=300) if not (o.kind == "exit" and o.why == "noreturn")]
            for o in outs:
                if o.kind == "unknown":
                    r.brk("be_pair_flush: %s %s" % (o.why, o.env.get("#err", "")))
                    return r
                ops = o.env["#ops"]
                want = []
                if mode != "BEV_NORMAL":
                    if iotype & C["EV_READ"]:
                        want.append(("transfer", 2, 1, 1))
                    if iotype & C["EV_WRITE"]:
                        want.append(("transfer", 1, 2, 1))
                    if mode == "BEV_FINISHED":
                        what = C["BEV_EVENT_EOF"] | (C["BEV_EVENT_WRITING"] if iotype & C["EV_READ"] else 0) | (C["BEV_EVENT_READING"] if iotype & C["EV_WRITE"] else 0)
                        want.append(("eventcb", 2, what))
                r.inst((mode, iotype), {"mode": mode, "iotype": hex(iotype), "actions": [list(x) for x in ops]})
                if list(ops) != want:
                    r.bad("K6:be_pair_flush:%s" % mode, "%s:%d" % (g.file, g.line), g.name, "mode %s iotype %#x: does %s; protocol: %s (data is handed over before the end of stream is announced, once)" % (mode, iotype, list(ops), want))
    seen, uniq = set(), []
    for f_ in r.findings:
        if f_.key not in seen:
            seen.add(f_.key)
            uniq.append(f_)
    r.findings = uniq
    return r


def rule_pair_talk(P, C):
    """the pair hands data over whenever it can: nothing else comes back for bytes waiting in a writer's output"""
    r = Rule("C17-pair-talk", "K6", "pair: data waiting in an output is handed over when the writer adds it, when the reader starts reading and when the writer starts writing - iff both sides are willing", floor=40)
    R, W = C["EV_READ"], C["EV_WRITE"]
    # (1) be_pair_wants_to_talk: truth table
    f = P.fn("be_pair_wants_to_talk")
    srcn, dstn = f.params[0][0], f.params[1][0]
    keys = {}
    for x in [el.e for el in f.elems()] + [b.term["cond"] for b in f.branch_blocks()]:
        for q in walk(x):
            if is_e(q, "fld") and q[2] in ("bufferevent.enabled", "bufferevent_private.read_suspended"):
                rv = root_var(q)
                if rv is not None:
                    keys[(rv[1], q[2])] = nkey(q)
    need = [(srcn, "bufferevent.enabled"), (dstn, "bufferevent.enabled"), (dstn, "bufferevent_private.read_suspended")]
    if not keys:
        r.brk("be_pair_wants_to_talk: no test of enabled / read_suspended found")
        return r
    for k_ in need:
        keys.setdefault(k_, ("#unused",) + k_)          # a condition the function does not look at: the truth table below shows what that costs
    for sen in (0, R, W, R | W):
        for den in (0, R, W, R | W):
            for susp in (0, 1, 4):
                for outlen in (0, 9):
                    env = {"#typed": 1, srcn: 1, dstn: 2, keys[need[0]]: sen, keys[need[1]]: den, keys[need[2]]: susp}
                    vals = set()
                    for o in run_all(f, (f.entry, 0), env, lambda el: False, P, lambda el, e_: (outlen if callee_name(el.e) == "evbuffer_get_length" else None), max_steps=200):
                        if o.kind == "exit" and o.why == "noreturn":
                            continue
                        if o.kind != "ret":
                            r.brk("be_pair_wants_to_talk: %s %s" % (o.kind, o.why))
                            return r
                        try:
                            vals.add(bool(tevalx(normx(o.at.e[1]), o.env, P, f)))
                        except EvalError as ex:
                            r.brk("be_pair_wants_to_talk: %s" % ex)
                            return r
                    want = bool(sen & W) and bool(den & R) and not susp and outlen > 0
                    r.inst(("wants", sen, den, susp, outlen), {"writer_enabled": sen, "reader_enabled": den, "reader_suspended": susp, "writer_output": outlen, "talks": sorted(vals)})
                    if vals != {want}:
                        r.bad("K6:be_pair_wants_to_talk:table", "%s:%d" % (f.file, f.line), f.name,
                              "writer enabled %#x, reader enabled %#x, reader suspended %d, %d byte(s) waiting: answers %s; data is handed over iff the writer writes, the reader reads and is not suspended, and something waits" % (sen, den, susp, outlen, sorted(vals)))

    def direction(e):
        """which way a (src, dst) call goes: 'in' when the source is derived from the partner"""
        return "in" if "partner" in show(e[2][0]) else "out"

    # (2) be_pair_enable
    g = P.fn("be_pair_enable")
    pk = nkey(["fld", ["var", "bev_p", "local"], "bufferevent_pair.partner", "->"])
    for events in (R, W, R | W):
        for partner in (0, 5):
            for w_in in (0, 1):
                for w_out in (0, 1):
                    env = {"#typed": 1, "event_debug_logging_mask_": 0, g.params[0][0]: 1, g.params[1][0]: events, pk: partner, "#ops": ()}

                    def hook(el, e_):
                        n = callee_name(el.e)
                        if n == "be_pair_wants_to_talk":
                            return w_in if direction(el.e) == "in" else w_out
                        if n == "be_pair_transfer":
                            try:
                                ig = evalx(normx(el.e[2][2]), e_, P)
                            except EvalError:
                                ig = "?"
                            e_["#ops"] = e_["#ops"] + ((direction(el.e), ig),)
                            return 0
                        if n == "evbuffer_get_length":
                            return 3
                        if n in ("event_add", "event_del", "bufferevent_add_event_", "bufferevent_generic_adj_timeouts_", "bufferevent_incref_and_lock_", "bufferevent_decref_and_unlock_", "event_pending"):
                            return 0
                        return None
                    outs = [o for o in run_all(g, (g.entry, 0), env, lambda el: False, P, hook, max_steps=400) if not (o.kind == "exit" and o.why == "noreturn")]
                    want = []
                    if (events & R) and partner and w_in:
                        want.append(("in", 0))
                    if (events & W) and partner and w_out:
                        want.append(("out", 0))
                    for o in outs:
                        if o.kind == "unknown":
                            r.brk("be_pair_enable: %s" % o.why)
                            return r
                        ops = list(o.env["#ops"])
                        r.inst(("enable", events, partner, w_in, w_out), {"events": events, "partner": bool(partner), "partner_to_me_willing": w_in, "me_to_partner_willing": w_out, "transfers": ops})
                        if ops != want:
                            r.bad("K6:be_pair_enable:handover", "%s:%d" % (g.file, g.line), g.name,
                                  "enable %#x, partner %s, partner->me willing %d, me->partner willing %d: transfers %s; expected %s (bytes already waiting would otherwise stay where they are)" % (events, "linked" if partner else "gone", w_in, w_out, ops, want))
    # (3) be_pair_outbuf_cb
    h = P.fn("be_pair_outbuf_cb")
    info = ["var", h.params[1][0], "param"]
    pk2 = nkey(["fld", ["var", "bev_pair", "local"], "bufferevent_pair.partner", "->"])
    for added, deleted in ((5, 0), (0, 5), (5, 5), (7, 2), (0, 0)):
        for partner in (0, 5):
            for wants in (0, 1):
                env = {"#typed": 1, "event_debug_logging_mask_": 0, h.params[0][0]: 71, h.params[2][0]: 1, pk2: partner, "#ops": (),
                       nkey(["fld", info, "evbuffer_cb_info.n_added", "->"]): added, nkey(["fld", info, "evbuffer_cb_info.n_deleted", "->"]): deleted}

                def hook3(el, e_):
                    n = callee_name(el.e)
                    if n == "be_pair_wants_to_talk":
                        return wants
                    if n == "be_pair_transfer":
                        e_["#ops"] = e_["#ops"] + ((direction(el.e),),)
                        return 0
                    if n in ("bufferevent_incref_and_lock_", "bufferevent_decref_and_unlock_"):
                        return 0
                    return None
                outs = [o for o in run_all(h, (h.entry, 0), env, lambda el: False, P, hook3, max_steps=300) if not (o.kind == "exit" and o.why == "noreturn")]
                want = [("out",)] if (added > deleted and partner and wants) else []
                for o in outs:
                    if o.kind == "unknown":
                        r.brk("be_pair_outbuf_cb: %s" % o.why)
                        return r
                    ops = list(o.env["#ops"])
                    r.inst(("outbuf", added, deleted, partner, wants), {"added": added, "deleted": deleted, "partner": bool(partner), "willing": wants, "transfers": ops})
                    if ops != want:
                        r.bad("K6:be_pair_outbuf_cb:handover", "%s:%d" % (h.file, h.line), h.name, "output grew by %d and shrank by %d, partner %s, willing %d: transfers %s; expected %s" % (added, deleted, "linked" if partner else "gone", wants, ops, want))
    seen, uniq = set(), []
    for f_ in r.findings:
        if f_.key not in seen:
            seen.add(f_.key)
            uniq.append(f_)
    r.findings = uniq
    return r


def rule_filter(P, C):
    """be_filter_read_nolock_: nobody else comes back for data left in the underlying input buffer; be_filter_eventcb: pending input goes through the filter before the end is announced"""
    r = Rule("C17-filter", "K6", "filter: data left in the underlying input is either processed or waited for (inbuf callback armed on a full buffer); EOF/read error is forwarded once, after the pending input went through the filter in FINISHED mode", floor=16)
    f = P.fn("be_filter_read_nolock_")
    und, me = f.params[0][0], f.params[1][0]
    OK_ = C.get("BEV_OK", 0)
    NEED = C.get("BEV_NEED_MORE", 1)
    bp = ["var", "bufev_private", "local"]
    goteof_key = nkey(["fld", ["var", "bevf", "local"], "bufferevent_filtered.got_eof", "->"])
    for chunks in (0, 1, 2, 3):
        for drains in (0, 1):
            for eof in (0, 1):
                env = {"#typed": 1, "event_debug_logging_mask_": 0, und: 5, me: 7, "#L": chunks, "#full": 0, "#armed": 0, "#ops": (),
                       nkey(["fld", bp, "bufferevent_private.refcnt", "->"]): 1, goteof_key: eof,
                       nkey(["fld", ["var", "bufev", "local"], "bufferevent.enabled", "->"]): C["EV_READ"] | C["EV_WRITE"]}

                def hook(el, e_):
                    n = callee_name(el.e)
                    a = el.e[2]
                    try:
                        if n == "be_filter_process_input":
                            st = evalx(normx(a[1]), e_, P)
                            full = e_["#full"] and st == C["BEV_NORMAL"]
                            out = None
                            for q in walk(a[2]):
                                if is_e(q, "var"):
                                    out = q[1]
                            if out is None:
                                return "impure"
                            if e_["#L"] > 0 and not full:
                                if st == C["BEV_NORMAL"]:
                                    e_["#L"] -= 1
                                    e_["#full"] = 1
                                else:
                                    e_["#L"] = 0        # FINISHED: no limit, the filter takes everything
                                e_[out] = 1
                                e_["#ops"] = e_["#ops"] + (("process", st),)
                                return OK_
                            return OK_ if full else NEED
                        if n == "bufferevent_trigger_nolock_":
                            if drains:
                                e_["#full"] = 0
                            e_["#ops"] = e_["#ops"] + (("readcb",),)
                            return 0
                        if n == "be_readbuf_full":
                            st = evalx(normx(a[1]), e_, P)
                            return 1 if (e_["#full"] and st == C["BEV_NORMAL"]) else 0
                        if n == "evbuffer_get_length":
                            return e_["#L"] * 10
                        if n == "evbuffer_cb_set_flags":
                            e_["#armed"] = 1
                            return 0
                        if n == "evbuffer_cb_clear_flags":
                            e_["#armed"] = 0
                            return 0
                    except EvalError as ex:
                        e_["#err"] = str(ex)
                        return "impure"
                    return None
                outs = [o for o in run_all(f, (f.entry, 0), env, lambda el: False, P, hook, max_steps=900) if not (o.kind == "exit" and o.why == "noreturn")]
                for o in outs:
                    if o.kind == "unknown":
                        r.brk("be_filter_read_nolock_: %s %s" % (o.why, o.env.get("#err", "")))
                        return r
                    L, full, armed = o.env["#L"], o.env["#full"], o.env["#armed"]
                    r.inst(("read", chunks, drains, eof), {"underlying_chunks": chunks, "read_callback_drains": drains, "got_eof": eof, "left": L, "full": full, "inbuf_cb_armed": armed, "actions": [list(x) for x in o.env["#ops"]]})
                    if L > 0 and not (full and armed and not eof):
                        r.bad("K6:be_filter_read_nolock_:data-stuck", "%s:%d" % (f.file, f.line), f.name,
                              "%d chunk(s) in the underlying input, read callback %s, got_eof=%d: returns with %d chunk(s) left, filter input %s, inbuf callback %s: nobody comes back for the rest"
                              % (chunks, "drains" if drains else "keeps the data", eof, L, "full" if full else "not full", "armed" if armed else "not armed"))
                    if chunks and not any(x[0] == "readcb" for x in o.env["#ops"]):
                        r.bad("K6:be_filter_read_nolock_:no-readcb", "%s:%d" % (f.file, f.line), f.name, "data went through the filter but the read callback is not triggered")
    # eventcb
    g = P.fn("be_filter_eventcb")
    und, what_p, me = g.params[0][0], g.params[1][0], g.params[2][0]
    EV = lambda *n: sum(C[x] for x in n)
    cases = [("eof", EV("BEV_EVENT_READING", "BEV_EVENT_EOF"), True), ("read-error", EV("BEV_EVENT_READING", "BEV_EVENT_ERROR"), True), ("write-error", EV("BEV_EVENT_WRITING", "BEV_EVENT_ERROR"), False),
             # be_pair_flush(EV_READ|EV_WRITE, BEV_FINISHED) announces EOF with both direction bits: the read direction has ended all the same
             ("eof-both-directions", EV("BEV_EVENT_READING", "BEV_EVENT_WRITING", "BEV_EVENT_EOF"), True), ("error-both-directions", EV("BEV_EVENT_READING", "BEV_EVENT_WRITING", "BEV_EVENT_ERROR"), True),
             ("write-eof", EV("BEV_EVENT_WRITING", "BEV_EVENT_EOF"), False),
             ("timeout", EV("BEV_EVENT_READING", "BEV_EVENT_TIMEOUT"), False), ("connected", C.get("BEV_EVENT_CONNECTED", 0x80), False)]
    for cname, what, ends in cases:
        for left in (0, 50):
            env = {"#typed": 1, "event_debug_logging_mask_": 0, und: 5, what_p: what, me: 7, "#ops": (), nkey(["fld", bp, "bufferevent_private.refcnt", "->"]): 1, goteof_key: 0}

            def hook2(el, e_):
                n = callee_name(el.e)
                a = el.e[2]
                try:
                    if n == "be_filter_read_nolock_":
                        e_["#ops"] = e_["#ops"] + (("push-input", e_.get(goteof_key, 0)),)
                        return 0
                    if n == "bufferevent_run_eventcb_":
                        e_["#ops"] = e_["#ops"] + (("eventcb", evalx(normx(a[1]), e_, P)),)
                        return 0
                    if n == "evbuffer_get_length":
                        return left
                    if n in ("be_filter_process_input", "bufferevent_flush", "be_filter_flush"):
                        e_["#ops"] = e_["#ops"] + (("push-input", 1 if n != "be_filter_process_input" else (1 if evalx(normx(a[1]), e_, P) == C["BEV_FINISHED"] else 0)),)
                        return 0
                except EvalError as ex:
                    e_["#err"] = str(ex)
                    return "impure"
                return None
            outs = [o for o in run_all(g, (g.entry, 0), env, lambda el: False, P, hook2, max_steps=400) if not (o.kind == "exit" and o.why == "noreturn")]
            for o in outs:
                if o.kind == "unknown":
                    r.brk("be_filter_eventcb: %s %s" % (o.why, o.env.get("#err", "")))
                    return r
                ops = list(o.env["#ops"])
                r.inst(("event", cname, left), {"event": cname, "what": hex(what), "underlying_input": left, "actions": [list(x) for x in ops]})
                evs = [x for x in ops if x[0] == "eventcb"]
                if evs != [("eventcb", what)]:
                    r.bad("K6:be_filter_eventcb:forward-once", "%s:%d" % (g.file, g.line), g.name, "%s (%#x): event callbacks %s; the event is forwarded exactly once, unchanged" % (cname, what, evs))
                elif ends and left:
                    i = ops.index(("eventcb", what))
                    if ("push-input", 1) not in ops[:i]:
                        r.bad("K6:be_filter_eventcb:eof-with-input-pending", "%s:%d" % (g.file, g.line), g.name,
                              "%s (%#x) with %d bytes in the underlying input: does %s; the pending input goes through the filter in FINISHED mode (past the read high watermark) BEFORE the end of the stream is announced" % (cname, what, left, ops))
                elif not ends and o.env.get(goteof_key, 0):
                    r.bad("K6:be_filter_eventcb:finished-too-early", "%s:%d" % (g.file, g.line), g.name, "%s (%#x) marks the input finished although the read direction goes on" % (cname, what))
    seen, uniq = set(), []
    for f_ in r.findings:
        if f_.key not in seen:
            seen.add(f_.key)
            uniq.append(f_)
    r.findings = uniq
    return r


def concx(e, env, P):
    """array indices that evaluate to integers are replaced by those integers (space[i] -> space[1]) so that the cell names are the ones stores used"""
    if not isinstance(e, list) or not e:
        return e
    if not isinstance(e[0], str):
        return [concx(x, env, P) for x in e]
    if e[0] in ("int", "str", "var", "fn", "null", "other", "sizeof", "float"):
        return e
    out = [e[0]] + [concx(x, env, P) if isinstance(x, list) else x for x in e[1:]]
    if e[0] == "idx" and not is_e(strip(out[2]), "int"):
        try:
            out[2] = ["int", evalx(out[2], env, P)]
        except EvalError:
            pass
    return out


def slot_name(e):
    """name of the function-pointer slot an indirect call goes through (ops->read(...) -> 'read')"""
    if is_e(e, "call") and isinstance(e[1], list) and e[1] and e[1][0] == "slot":
        return e[1][1].split(".")[-1]
    return None


def rule_tls(P, C):
    """do_read / do_write of the TLS bufferevents: iovec accounting.  What the TLS library delivered is exactly what is committed to the input; what it accepted is
    exactly what is drained from the output; the end of the stream is announced only when nothing read in this call is still uncommitted."""
    r = Rule("C17-tls", "K6", "TLS do_read commits exactly the bytes the TLS read delivered (in place, in order) and reports closure only with nothing uncommitted; do_write drains exactly the bytes the TLS write accepted, never offers a byte twice", floor=40)
    f = P.fn("do_read")
    bs, ntr = f.params[0][0], f.params[1][0]
    bsv = ["var", bs, "param"]
    SP = lambda i, fl: nkey(["fld", ["idx", ["var", "space", "local"], ["int", i]], "iovec.%s" % fl, "."])
    BASE = (1000, 2000)
    K = lambda *path: None
    susp_key = nkey(["fld", ["fld", bsv, "bufferevent_ssl.bev", "->"], "bufferevent_private.read_suspended", "."])
    rbow_key = nkey(["fld", bsv, "bufferevent_ssl.read_blocked_on_write", "->"])
    und_key = nkey(["fld", bsv, "bufferevent_ssl.underlying", "->"])
    import itertools
    ALPHA = [1, 2, 9, "want-read", "want-write", "closed"]
    scripts = [()] + [(a,) for a in ALPHA] + [(a, b) for a in (1, 2, 9) for b in ALPHA] + [(a, b, c) for a in (1, 2, 9) for b in (1, 2, 9) for c in ALPHA] + \
              [(1, 1, 1, c) for c in ALPHA] + [(2, 1, 2, c) for c in ("closed", "want-read", 9)]
    layouts = [((4,),), ((4, 3),), ((1, 5),)]
    for (sizes,) in layouts:
        for script in scripts:
            for suspend_after in (None, 1):
                env = {"#typed": 1, "event_debug_logging_mask_": 0, bs: 7, ntr: sum(sizes), susp_key: 0, rbow_key: 0, und_key: 0, "#ops": (), "#k": 0, "#nprog": 0}

                def hook(el, e_):
                    n = callee_name(el.e) or slot_name(el.e)
                    a = el.e[2]
                    try:
                        if n == "bufferevent_get_read_max_":
                            return 100
                        if n == "evbuffer_reserve_space":
                            for i_, sz in enumerate(sizes):
                                e_[SP(i_, "iov_base")] = BASE[i_]
                                e_[SP(i_, "iov_len")] = sz
                            return len(sizes)
                        if n == "clear_error" or n == "print_err":
                            return 0
                        if n == "read":
                            addr, room = evalx(concx(normx(a[1]), e_, P), e_, P), evalx(concx(normx(a[2]), e_, P), e_, P)
                            k = e_["#k"]
                            e_["#k"] = k + 1
                            x = script[k] if k < len(script) else "want-read"
                            if isinstance(x, int):
                                got = min(x, room)
                                if got <= 0:
                                    e_["#ops"] = e_["#ops"] + (("read-zero-room", addr, room),)
                                    e_["#err"] = "want-read"
                                    return -1
                                e_["#ops"] = e_["#ops"] + (("got", addr, got),)
                                return got
                            e_["#errk"] = x
                            return 0 if x == "closed" else -1
                        if n == "get_error":
                            return {"want-read": 2, "want-write": 3, "closed": 6}[e_.get("#errk", "want-read")]
                        if n == "err_is_want_read":
                            return 1 if evalx(concx(normx(a[0]), e_, P), e_, P) == 2 else 0
                        if n == "err_is_want_write":
                            return 1 if evalx(concx(normx(a[0]), e_, P), e_, P) == 3 else 0
                        if n == "conn_closed":
                            e_["#ops"] = e_["#ops"] + (("closed", evalx(concx(normx(a[1]), e_, P), e_, P)),)
                            return 0
                        if n == "decrement_buckets":
                            e_["#nprog"] += 1
                            if suspend_after is not None and e_["#nprog"] >= suspend_after:
                                e_[susp_key] = 1
                            return 0
                        if n in ("clear_rbow", "set_rbow"):
                            return 0
                        if n == "evbuffer_commit_space":
                            cnt = evalx(concx(normx(a[2]), e_, P), e_, P)
                            e_["#ops"] = e_["#ops"] + (("commit",) + tuple((e_.get(SP(i_, "iov_base")), e_.get(SP(i_, "iov_len"))) for i_ in range(cnt)),)
                            return 0
                    except EvalError as ex:
                        e_["#err"] = str(ex)
                        return "impure"
                    except KeyError as ex:
                        e_["#err"] = "key %s" % ex
                        return "impure"
                    return None
                outs = [o for o in run_all(f, (f.entry, 0), env, lambda el: False, P, hook, max_steps=1500) if not (o.kind == "exit" and o.why == "noreturn")]
                for o in outs:
                    if o.kind == "unknown":
                        r.brk("do_read: %s %s" % (o.why, o.env.get("#err", "")))
                        return r
                    ops = o.env["#ops"]
                    got = [(x[1], x[2]) for x in ops if x[0] == "got"]
                    commits = [x for x in ops if x[0] == "commit"]
                    committed = [pr for c in commits for pr in c[1:]]
                    # the bytes delivered, merged into maximal runs per iovec
                    runs = []
                    okshape = True
                    for addr, ln in got:
                        if runs and runs[-1][0] + runs[-1][1] == addr:
                            runs[-1][1] += ln
                        else:
                            runs.append([addr, ln])
                    r.inst(("read", sizes, script, suspend_after), {"iovecs": list(sizes), "tls_read_answers": [str(x) for x in script], "rate_limit_suspends_after": suspend_after,
                                                                     "delivered": got, "committed": [list(x) for x in committed], "actions": [x[0] for x in ops]})
                    bad = []
                    if [tuple(x) for x in runs] != [tuple(x) for x in committed if x[1]]:
                        bad.append("the TLS read delivered %s, committed to the input: %s" % ([tuple(x) for x in runs], committed))
                    if any(b not in BASE for b, _ in committed):
                        bad.append("a committed extent does not start at the reserved address: %s" % (committed,))
                    if len(commits) > 1:
                        bad.append("commits twice")
                    for i_, x in enumerate(ops):
                        if x[0] == "closed":
                            pend = any(y[0] == "got" for y in ops[:i_]) and not any(y[0] == "commit" for y in ops[:i_])
                            if pend:
                                bad.append("closure is reported while bytes read in this call are not yet committed (EOF/error would overtake data)")
                    if any(x[0] == "read-zero-room" for x in ops):
                        bad.append("asks the TLS library to read into zero bytes of room (a 0 answer would be taken for closure)")
                    if bad:
                        r.bad("K6:do_read:iovec-accounting", "%s:%d" % (f.file, f.line), f.name, "iovecs %s, TLS read answers %s%s: %s" % (list(sizes), list(script), ", rate limit suspends after the first read" if suspend_after else "", "; ".join(bad)))
    # do_write
    g = P.fn("do_write")
    bs = g.params[0][0]
    bsv = ["var", bs, "param"]
    wsusp_key = nkey(["fld", ["fld", bsv, "bufferevent_ssl.bev", "->"], "bufferevent_private.write_suspended", "."])
    wbor_key = nkey(["fld", bsv, "bufferevent_ssl.write_blocked_on_read", "->"])
    lw_key = nkey(["fld", bsv, "bufferevent_ssl.last_write", "->"])
    fl_key = nkey(["fld", bsv, "bufferevent_ssl.flags", "->"])
    und_key = nkey(["fld", bsv, "bufferevent_ssl.underlying", "->"])
    WB = (1000, 2000, 3000)
    wlayouts = [(5,), (3, 4), (2, 0, 3), (0, 4)]
    WALPHA = [1, 2, 9, "want-read", "want-write", "closed"]
    wscripts = [()] + [(a,) for a in WALPHA] + [(a, b) for a in (1, 2, 9) for b in WALPHA] + [(a, b, c) for a in (1, 2, 9) for b in (1, 2, 9) for c in WALPHA]
    for sizes in wlayouts:
        for script in wscripts:
            for suspend_after in (None, 1):
                env = {"#typed": 1, "event_debug_logging_mask_": 0, bs: 7, g.params[1][0]: -1, wsusp_key: 0, wbor_key: 0, lw_key: -1, fl_key: 0, und_key: 0, "#ops": (), "#k": 0, "#nprog": 0}

                def hookw(el, e_):
                    n = callee_name(el.e) or slot_name(el.e)
                    a = el.e[2]
                    try:
                        if n == "bufferevent_get_write_max_":
                            return 100
                        if n == "evbuffer_peek":
                            for i_, sz in enumerate(sizes):
                                e_[SP(i_, "iov_base")] = WB[i_]
                                e_[SP(i_, "iov_len")] = sz
                            return len(sizes)
                        if n in ("clear_error", "print_err", "evbuffer_pullup"):
                            return 0
                        if n == "write":
                            addr, ln = evalx(concx(normx(a[1]), e_, P), e_, P), evalx(concx(normx(a[2]), e_, P), e_, P)
                            k = e_["#k"]
                            e_["#k"] = k + 1
                            x = script[k] if k < len(script) else "want-write"
                            if ln <= 0:
                                e_["#ops"] = e_["#ops"] + (("write-zero", addr),)
                                return 0
                            if isinstance(x, int):
                                took = min(x, ln)
                                e_["#ops"] = e_["#ops"] + (("took", addr, took),)
                                return took
                            e_["#errk"] = x
                            e_["#ops"] = e_["#ops"] + (("blocked", addr, ln),)
                            return 0 if x == "closed" else -1
                        if n == "get_error":
                            return {"want-read": 2, "want-write": 3, "closed": 6}[e_.get("#errk", "want-write")]
                        if n == "err_is_want_read":
                            return 1 if evalx(concx(normx(a[0]), e_, P), e_, P) == 2 else 0
                        if n == "err_is_want_write":
                            return 1 if evalx(concx(normx(a[0]), e_, P), e_, P) == 3 else 0
                        if n == "conn_closed":
                            e_["#ops"] = e_["#ops"] + (("closed", evalx(concx(normx(a[1]), e_, P), e_, P)),)
                            return 0
                        if n == "decrement_buckets":
                            e_["#nprog"] += 1
                            if suspend_after is not None and e_["#nprog"] >= suspend_after:
                                e_[wsusp_key] = 1
                            return 0
                        if n in ("clear_wbor", "set_wbor"):
                            return 0
                        if n == "evbuffer_drain":
                            e_["#ops"] = e_["#ops"] + (("drain", evalx(concx(normx(a[1]), e_, P), e_, P)),)
                            return 0
                        if n == "bufferevent_trigger_nolock_":
                            e_["#ops"] = e_["#ops"] + (("writecb",),)
                            return 0
                    except EvalError as ex:
                        e_["#err"] = str(ex)
                        return "impure"
                    except KeyError as ex:
                        e_["#err"] = "key %s" % ex
                        return "impure"
                    return None
                outs = [o for o in run_all(g, (g.entry, 0), env, lambda el: False, P, hookw, max_steps=1500) if not (o.kind == "exit" and o.why == "noreturn")]
                for o in outs:
                    if o.kind == "unknown":
                        r.brk("do_write: %s %s" % (o.why, o.env.get("#err", "")))
                        return r
                    ops = o.env["#ops"]
                    took = [(x[1], x[2]) for x in ops if x[0] == "took"]
                    drains = [x[1] for x in ops if x[0] == "drain"]
                    # the stream order of the output: iovec 0 from its base, then iovec 1, ...
                    want_pos = []
                    rest = [[WB[i_], sz] for i_, sz in enumerate(sizes) if sz]
                    bad = []
                    for addr, ln in took:
                        if not rest or rest[0][0] != addr or ln > rest[0][1]:
                            bad.append("the TLS write was offered [%d,+%d) but the next unsent byte of the output is at %s" % (addr, ln, rest[0] if rest else "the end"))
                            break
                        rest[0][0] += ln
                        rest[0][1] -= ln
                        if rest[0][1] == 0:
                            rest.pop(0)
                    total = sum(x[1] for x in took)
                    if sum(drains) != total or len(drains) > 1:
                        bad.append("the TLS write accepted %d byte(s), drained from the output: %s" % (total, drains))
                    if any(x[0] == "write-zero" for x in ops):
                        bad.append("offers zero bytes to the TLS write (its 0 answer would be taken for closure)")
                    if total and ("writecb",) not in ops:
                        bad.append("progress without triggering the write callback")
                    r.inst(("write", sizes, script, suspend_after), {"iovecs": list(sizes), "tls_write_answers": [str(x) for x in script], "rate_limit_suspends_after": suspend_after,
                                                                      "accepted": took, "drained": drains, "actions": [x[0] for x in ops]})
                    if bad:
                        r.bad("K6:do_write:iovec-accounting", "%s:%d" % (g.file, g.line), g.name, "output extents %s, TLS write answers %s%s: %s" % (list(sizes), list(script), ", rate limit suspends after the first write" if suspend_after else "", "; ".join(bad)))
    seen, uniq = set(), []
    for f_ in r.findings:
        if f_.key not in seen:
            seen.add(f_.key)
            uniq.append(f_)
    r.findings = uniq
    return r


def rule_tls_loop(P, C):
    """consider_reading (TLS): the application hears about data iff some read made progress; decrypted bytes pending inside the TLS library are read before the function returns
    (nothing on the transport will announce them again); consider_writing keeps calling do_write while there is output and nothing blocks"""
    r = Rule("C17-tls-loop", "K6", "TLS consider_reading reports progress once and drains what the TLS library holds decrypted; consider_writing goes on while output is left and nothing blocks", floor=25)
    f = P.fn("consider_reading")
    OPS = {}
    for g in P.fns_in("bufferevent_ssl.c"):
        for x in [el.e for el in g.elems()] + [b.term["cond"] for b in g.branch_blocks()]:
            for q in walk(x):
                if is_e(q, "int") and len(q) > 2 and isinstance(q[2], str) and q[2] in ("OP_MADE_PROGRESS", "OP_BLOCKED", "OP_ERR"):
                    OPS[q[2]] = q[1]
    if len(OPS) != 3:
        r.brk("OP_* constants not found: %s" % sorted(OPS))
        return r
    PR, BL, ER = OPS["OP_MADE_PROGRESS"], OPS["OP_BLOCKED"], OPS["OP_ERR"]
    bs = f.params[0][0]
    bsv = ["var", bs, "param"]
    K = lambda *fl: nkey(["fld", bsv, "bufferevent_ssl.%s" % fl[0], "->"])
    susp_key = nkey(["fld", ["fld", bsv, "bufferevent_ssl.bev", "->"], "bufferevent_private.read_suspended", "."])
    import itertools
    scripts = [[(PR, 0)], [(PR | BL, 0)], [(BL, 0)], [(0, 0)], [(ER, 0)], [(PR, 7), (PR, 0)], [(PR, 7), (PR | BL, 0)], [(PR, 7), (BL, 0)], [(PR, 5), (PR, 3), (PR, 0)], [(0, 4), (PR, 0)], [(PR, 7), (ER, 0)]]
    for script in scripts:
        for und in (0, 9):
            env = {"#typed": 1, "event_debug_logging_mask_": 0, bs: 7, K("write_blocked_on_read"): 0, K("underlying"): und, susp_key: 0, "#ops": (), "#k": 0, "#btr": 0,
                   nkey(["fld", ["fld", ["fld", bsv, "bufferevent_ssl.bev", "->"], "bufferevent_private.bev", "."], "bufferevent.enabled", "."]): C["EV_READ"] | C["EV_WRITE"]}

            def hook(el, e_):
                n = callee_name(el.e) or slot_name(el.e)
                a = el.e[2]
                try:
                    if n == "bytes_to_read":
                        e_["#btr"] += 1
                        return 100 if e_["#btr"] == 1 else 0        # after the first round the transport has nothing more
                    if n == "do_read":
                        k = e_["#k"]
                        e_["#k"] = k + 1
                        amount = evalx(normx(a[1]), e_, P)
                        fl = script[k][0] if k < len(script) else BL
                        e_["#ops"] = e_["#ops"] + (("read", amount, fl),)
                        return fl
                    if n == "pending":
                        k = e_["#k"] - 1
                        return script[k][1] if 0 <= k < len(script) else 0
                    if n == "bufferevent_trigger_nolock_":
                        e_["#ops"] = e_["#ops"] + (("readcb",),)
                        return 0
                    if n in ("event_del", "do_write"):
                        return 0
                except EvalError as ex:
                    e_["#err"] = str(ex)
                    return "impure"
                return None
            outs = [o for o in run_all(f, (f.entry, 0), env, lambda el: False, P, hook, max_steps=800) if not (o.kind == "exit" and o.why == "noreturn")]
            for o in outs:
                if o.kind == "unknown":
                    r.brk("consider_reading: %s %s" % (o.why, o.env.get("#err", "")))
                    return r
                ops = list(o.env["#ops"])
                reads = [x for x in ops if x[0] == "read"]
                # reference: read; stop on blocked/error; otherwise go on with what the library holds decrypted
                want_reads = []
                for k, (fl, pend) in enumerate(script):
                    want_reads.append(fl)
                    if fl & (BL | ER) or not pend:
                        break
                progress = any(fl & PR for fl in want_reads)
                r.inst(("reading", tuple(script), und), {"do_read_answers": [[hex(a_), b_] for a_, b_ in script], "filter_over_bufferevent": bool(und), "actions": [list(x) for x in ops]})
                bad = []
                if [x[2] for x in reads] != want_reads:
                    bad.append("reads %s, expected %d read(s): the bytes the TLS library still holds decrypted are read before returning (the transport will not announce them again)" % ([(x[1], hex(x[2])) for x in reads], len(want_reads)))
                else:
                    for k in range(1, len(reads)):
                        if reads[k][1] != script[k - 1][1]:
                            bad.append("read %d asks for %d bytes, the TLS library holds %d" % (k + 1, reads[k][1], script[k - 1][1]))
                if ops.count(("readcb",)) != (1 if progress else 0):
                    bad.append("read callback triggered %d time(s) with%s progress" % (ops.count(("readcb",)), "" if progress else "out"))
                elif progress and ops[-1] != ("readcb",) and ops.index(("readcb",)) < max(i for i, x in enumerate(ops) if x[0] == "read"):
                    bad.append("the read callback is triggered before the last read")
                if bad:
                    r.bad("K6:consider_reading:loop", "%s:%d" % (f.file, f.line), f.name, "do_read answers %s: %s" % ([(hex(a_), b_) for a_, b_ in script], "; ".join(bad)))
    # consider_writing
    g = P.fn("consider_writing")
    bs = g.params[0][0]
    bsv = ["var", bs, "param"]
    K = lambda fl: nkey(["fld", bsv, "bufferevent_ssl.%s" % fl, "->"])
    wsusp_key = nkey(["fld", ["fld", bsv, "bufferevent_ssl.bev", "->"], "bufferevent_private.write_suspended", "."])
    en_key = nkey(["fld", ["fld", ["fld", bsv, "bufferevent_ssl.bev", "->"], "bufferevent_private.bev", "."], "bufferevent.enabled", "."])
    wscripts = [[(PR, 0)], [(PR, 5), (PR, 0)], [(PR, 5), (PR | BL, 2)], [(BL, 9)], [(ER, 9)], [(PR, 5), (PR, 3), (PR, 0)], [(0, 9), (PR, 0)]]
    for script in wscripts:
        env = {"#typed": 1, "event_debug_logging_mask_": 0, bs: 7, K("read_blocked_on_write"): 0, K("underlying"): 0, wsusp_key: 0, en_key: C["EV_READ"] | C["EV_WRITE"], "#ops": (), "#k": 0, "#out": 9}

        def hookw(el, e_):
            n = callee_name(el.e) or slot_name(el.e)
            try:
                if n == "do_write":
                    k = e_["#k"]
                    e_["#k"] = k + 1
                    fl, left = script[k] if k < len(script) else (BL, e_["#out"])
                    e_["#out"] = left
                    e_["#ops"] = e_["#ops"] + (("write", fl),)
                    return fl
                if n == "evbuffer_get_length":
                    return e_["#out"]
                if n == "event_del":
                    e_["#ops"] = e_["#ops"] + (("event_del", e_["#out"]),)
                    return 0
                if n in ("do_read", "bufferevent_trigger_nolock_"):
                    return 0
            except EvalError as ex:
                e_["#err"] = str(ex)
                return "impure"
            return None
        outs = [o for o in run_all(g, (g.entry, 0), env, lambda el: False, P, hookw, max_steps=800) if not (o.kind == "exit" and o.why == "noreturn")]
        for o in outs:
            if o.kind == "unknown":
                r.brk("consider_writing: %s %s" % (o.why, o.env.get("#err", "")))
                return r
            ops = list(o.env["#ops"])
            want = []
            for fl, left in script:
                want.append(fl)
                if fl & (BL | ER) or not left:
                    break
            r.inst(("writing", tuple(script)), {"do_write_answers": [[hex(a_), b_] for a_, b_ in script], "actions": [list(x) for x in ops]})
            bad = []
            if [x[1] for x in ops if x[0] == "write"] != want:
                bad.append("writes %s, expected %s: writing goes on while output is left and nothing blocks" % ([hex(x[1]) for x in ops if x[0] == "write"], [hex(x) for x in want]))
            if any(x[0] == "event_del" and x[1] > 0 for x in ops):
                bad.append("the write event is removed with %d byte(s) of output left (writing enabled, not suspended)" % [x[1] for x in ops if x[0] == "event_del"][0])
            if bad:
                r.bad("K6:consider_writing:loop", "%s:%d" % (g.file, g.line), g.name, "do_write answers %s: %s" % ([(hex(a_), b_) for a_, b_ in script], "; ".join(bad)))
    seen, uniq = set(), []
    for f_ in r.findings:
        if f_.key not in seen:
            seen.add(f_.key)
            uniq.append(f_)
    r.findings = uniq
    return r


def rule_movers(P):
    """who may put bytes into a bufferevent's input buffer / take bytes out of its output buffer inside the back ends"""
    r = Rule("C17-movers", "K2", "inside the socket and pair back ends only the transport writes bev->input and drains bev->output", floor=3)
    MUT_IN = ("evbuffer_read", "evbuffer_add_buffer", "evbuffer_remove_buffer", "evbuffer_add", "evbuffer_prepend", "evbuffer_commit_space", "evbuffer_drain", "evbuffer_remove")
    ALLOWED = {"bufferevent_readcb": "socket read", "bufferevent_writecb": "socket write", "be_pair_transfer": "pair transfer", "be_socket_flush": "flush", "bufferevent_socket_outbuf_cb": "-",
               "be_socket_setfd": "-"}
    for f in P.all_fns:
        if f.file not in ("bufferevent_sock.c", "bufferevent_pair.c", "bufferevent_filter.c"):
            continue
        for el in f.calls():
            n = callee_name(el.e)
            if n not in MUT_IN:
                continue
            bufs = [q[2].split(".")[-1] for a in el.e[2] for q in walk(a) if is_e(q, "fld") and q[2] in ("bufferevent.input", "bufferevent.output")]
            if not bufs:
                continue
            ok = f.name in ALLOWED
            r.inst((f.name, el.n), {"fn": f.name, "site": el.where(), "call": show(el.e)[:70], "buffers": bufs, "transport_function": ok})
            if not ok:
                r.bad("K2:%s:moves-stream-data" % f.name, el.where(), f.name, "%s changes a bufferevent's %s buffer outside the transport functions: bytes can be lost, duplicated or reordered behind the transport's back" % (show(el.e)[:50], "/".join(bufs)))
    return r


def rule_runners(P):
    """the deferred-callback runners (bufferevent.c): a data callback's pending flag is cleared BEFORE the callback runs, so that data arriving while it runs (a pair or filter refilling the
    input as the callback drains it) schedules another run instead of being forgotten.  The decision table is C19's (engine/props/C19.py: rule_runners); a violation there strands bytes in
    the input buffer, which is this property."""
    from . import C19
    r = C19.rule_runners(P)
    r.id = "C17-runners"
    for f_ in r.findings:
        f_.key = f_.key.replace("C19", "C17") if isinstance(f_.key, str) else f_.key
    return r


def run(ctx, config):
    P = ctx.prog(UNITS, config)
    C = consts(P)
    need = ("EV_READ", "EV_WRITE", "EV_TIMEOUT", "BEV_EVENT_READING", "BEV_EVENT_WRITING", "BEV_EVENT_EOF", "BEV_EVENT_ERROR", "BEV_EVENT_TIMEOUT")
    if any(n not in C for n in need):
        rr = Rule("C17-constants", "K6", "constants", floor=1)
        rr.brk("constants not found: %s" % [n for n in need if n not in C])
        return [rr]
    rules = []
    for mk in (lambda: sock_rule(P, C, "bufferevent_readcb", "read"), lambda: sock_rule(P, C, "bufferevent_writecb", "write"), lambda: rule_pair(P, C), lambda: rule_pair_talk(P, C), lambda: rule_filter(P, C), lambda: rule_tls(P, C), lambda: rule_tls_loop(P, C), lambda: rule_runners(P), lambda: rule_movers(P)):
        try:
            rules.append(mk())
        except AnalysisBroken as ex:
            rr = Rule("C17-x", "K6", "C17", floor=1)
            rr.brk(str(ex))
            rules.append(rr)
    return rules
