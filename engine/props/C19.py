"""C19 — bufferevent callback lifecycle: deferred runners (order, pending flags, freshness of callback pointers), immediate/deferred delivery, free clears callbacks, CONNECTED first (K6/K3/K9)."""
from ..core import Rule
from ..prog import *
from ..facts import AnalysisBroken
from ..interp import normx, nkey, run_all, force_conds

UNITS = ["bufferevent", "bufferevent_sock"]
LEVEL = "other"
CONFIGS = ["build", "assert"]
EXPLANATION = (
    "L1: both deferred runners are evaluated on every combination of pending conditions (CONNECTED, other events, read, write) x callbacks set/unset: the "
    "deliveries are CONNECTED first, then read, write, other events, each only when pending and its callback is set, each pending flag is cleared BEFORE its "
    "callback runs (so a condition raised by the callback is not lost), the unlocked runner brackets every callback with unlock/lock, and both runners drop exactly "
    "one reference at the end; the two runners must produce the same delivery sequence (sibling agreement). "
    "L2 (freshness, K9): in the runners every callback pointer that is called and every NULL test guarding it is loaded from the bufferevent after the previous "
    "user callback returned — no path from an earlier user callback to a later one keeps using a pointer read before (a callback that calls bufferevent_setcb or "
    "bufferevent_free must silence the later ones). L3: bufferevent_run_readcb_/writecb_/eventcb_ evaluated over (callback set, DEFER option, schedule result): "
    "no callback when unset; deferred mode records the condition (events OR-ed, errno saved) and takes a reference exactly when the deferred callback was newly "
    "scheduled; immediate mode invokes once. L4: bufferevent_free clears all callbacks before cancelling and dropping its reference. L5: in the socket write "
    "callback, on the connecting path, CONNECTED is reported before any write trigger and a refused/failed connect reports ERROR and never CONNECTED. "
    "Declined: at-most-once EOF/ERROR over whole histories, ordering with name lookups.")
ASSUMPTIONS = ["user callbacks may call any bufferevent API on their own bufferevent"]

CONNECTED = 0x80
EOF_ = 0x10
USERF = ("bufferevent.readcb", "bufferevent.writecb", "bufferevent.errorcb")


def user_calls(f):
    """[(elem, field)] for invocations of a user callback, through the field or through a local loaded from it"""
    out = []
    for el in f.calls():
        sl = callee_slot(el.e)
        if sl in USERF:
            out.append((el, sl, None))
        elif el.e[1][0] == "ptr":
            v = strip(el.e[1][1])
            if is_e(v, "var"):
                flds = [strip(rhs)[2] for d, rhs in f.var_stores(v[1]) if is_e(strip(rhs), "fld") and strip(rhs)[2] in USERF]
                if flds:
                    out.append((el, flds[0], v[1]))
    return out


def rule_runners(P):
    r = Rule("C19-runners", "K6/K7", "deferred runners: delivery order, pending cleared before the call, unlock/lock bracket, one reference dropped, sibling agreement", floor=100)
    seqs = {}
    for name in ("bufferevent_run_deferred_callbacks_locked", "bufferevent_run_deferred_callbacks_unlocked"):
        f = P.fn(name)
        priv = ["var", "bufev_private", "local"]
        bev = ["var", "bufev", "local"]
        kev = nkey(["fld", priv, "bufferevent_private.eventcb_pending", "->"])
        krd = nkey(["fld", priv, "bufferevent_private.readcb_pending", "->"])
        kwr = nkey(["fld", priv, "bufferevent_private.writecb_pending", "->"])
        kcb = {x: nkey(["fld", bev, x, "->"]) for x in USERF}
        ucalls = user_calls(f)
        if len(ucalls) != 4:
            r.brk("%s: expected 4 user callback invocations, found %d" % (name, len(ucalls)))
            continue
        fld_of = {id(el): fl for el, fl, v in ucalls}
        nbad = 0
        for evp in (0, CONNECTED, CONNECTED | EOF_, EOF_):
            for rp in (0, 1):
                for wp in (0, 1):
                    for cbs in ((1, 1, 1), (0, 1, 1), (1, 0, 1), (1, 1, 0), (0, 0, 0)):
                        env = {"bufev_private": 1, "bufev": 1, kev: evp, krd: rp, kwr: wp, kcb[USERF[0]]: cbs[0], kcb[USERF[1]]: cbs[1], kcb[USERF[2]]: cbs[2]}
                        env.update(force_conds(f, lambda b: b.term.get("mac") and any(m in ("EVLOCK_LOCK", "EVLOCK_UNLOCK") for m in b.term["mac"]) and b.term.get("k") == "if", 1))
                        def hook(el, e_):
                            if id(el) in fld_of:
                                fl = fld_of[id(el)]
                                kind = fl.split(".")[1]
                                what = None
                                if kind == "errorcb":
                                    try:
                                        what = evalx(normx(el.e[2][1]), e_, P)
                                    except EvalError:
                                        what = "?"
                                pend = {"readcb": e_.get(krd), "writecb": e_.get(kwr), "errorcb": e_.get(kev)}[kind]
                                locked = e_.get("#locked", 1)
                                e_["#seq"] = e_.get("#seq", ()) + ((kind, what, pend, locked),)
                                return 0
                            sl = callee_slot(el.e)
                            if sl == "evthread_lock_callbacks.lock":
                                e_["#locked"] = 1
                            elif sl == "evthread_lock_callbacks.unlock":
                                e_["#locked"] = 0
                            n = callee_name(el.e)
                            if n == "bufferevent_decref_and_unlock_":
                                e_["#decref"] = e_.get("#decref", 0) + 1
                            return None
                        for o in run_all(f, (f.entry, 0), env, lambda el: False, P, hook, max_steps=1200):
                            if o.kind == "exit" and o.why == "noreturn":
                                continue
                            if o.kind == "unknown":
                                r.brk("%s: %s" % (name, o.why))
                                return r
                            seq = list(o.env.get("#seq", ()))
                            want = []
                            ev_left = evp
                            if evp & CONNECTED and cbs[2]:
                                want.append(("errorcb", CONNECTED))
                                ev_left = evp & ~CONNECTED
                            if rp and cbs[0]:
                                want.append(("readcb", None))
                            if wp and cbs[1]:
                                want.append(("writecb", None))
                            if ev_left and cbs[2]:
                                want.append(("errorcb", ev_left))
                            got = [(k, w) for k, w, p, l in seq]
                            seqs.setdefault((evp, rp, wp, cbs), {})[name] = got
                            r.inst((name, evp, rp, wp, cbs), {"fn": name, "eventcb_pending": hex(evp), "read_pending": rp, "write_pending": wp, "callbacks_set(read,write,event)": list(cbs),
                                                              "deliveries": [list(x) for x in seq]})
                            msg = None
                            if got != want:
                                msg = "delivers %s, documented %s" % (got, want)
                            else:
                                for k, w, p, l in seq:
                                    if k in ("readcb", "writecb") and p != 0:
                                        msg = "%s runs with its pending flag still set (a re-trigger from inside the callback would be lost)" % k
                                    if k == "errorcb" and p is not None and w not in (None, "?") and (p & w):
                                        msg = "event callback runs with the reported bits still pending (%#x)" % p
                                    if name.endswith("unlocked") and l != 0:
                                        msg = "%s runs with the bufferevent lock held in the UNLOCK_CALLBACKS runner" % k
                                    if name.endswith("_locked") and l != 1:
                                        msg = "%s runs without the lock in the locked runner" % k
                            if msg is None and o.env.get("#decref", 0) != 1:
                                msg = "drops %d references (exactly one is held for the deferred run)" % o.env.get("#decref", 0)
                            if msg and nbad < 3:
                                nbad += 1
                                r.bad("K6:%s:delivery" % name, "%s:%d" % (f.file, f.line), name, "eventcb_pending=%#x read=%d write=%d callbacks=%s: %s" % (evp, rp, wp, cbs, msg))
    for k_, d in seqs.items():
        if len(d) == 2 and len(set(map(tuple, d.values()))) != 1:
            r.bad("K7:deferred-runners-disagree", "bufferevent.c", "bufferevent_run_deferred_callbacks_*", "for pending %s the locked and unlocked runners deliver different sequences: %s" % (k_, d))
            break
    return r


def rule_fresh(P):
    r = Rule("C19-fresh", "K9", "callback pointers (and their NULL tests) are re-read from the bufferevent after every earlier user callback", floor=6)
    for name in ("bufferevent_run_deferred_callbacks_locked", "bufferevent_run_deferred_callbacks_unlocked"):
        f = P.fn(name)
        uc = user_calls(f)
        for el, fl, var in uc:
            earlier = [u for u, _, _ in uc if u is not el and f.path_avoiding(u.pos(), lambda x: x is el, lambda x: False) is not None]
            stale = None
            if var is not None:
                defs = [d for d, rhs in f.reaching_defs(var, el)]
                for u in earlier:
                    if f.path_avoiding(u.pos(), lambda x: x is el, lambda x: x in defs) is not None:
                        stale = (u, "the pointer called")
            # the guarding NULL test
            gs = [(c, t, b) for c, t, b in f.guards_at(el.bid)]
            tested_fresh = False
            for c, t, b in gs:
                for q in walk(c):
                    if is_e(q, "fld") and q[2] == fl:
                        tested_fresh = True      # tests the field itself at this point
                    if var is not None and is_e(q, "var") and q[1] == var:
                        # tests the local: the local must be fresh at the test
                        for u in earlier:
                            defs = [d for d, rhs in f.var_stores(var)]
                            # is there a path from u to the test block avoiding every def?
                            reach = f.reach_blocks(u.bid)
                            if b.id in reach:
                                ok = False
                                for d in defs:
                                    if f.path_avoiding(u.pos(), lambda x: x.bid == b.id, lambda x: x is d) is None:
                                        ok = True
                                if not ok:
                                    stale = (u, "the NULL test")
                                else:
                                    tested_fresh = True
            r.inst((name, el.n), {"fn": name, "site": el.where(), "callback": fl.split(".")[1], "through_local": var, "earlier_user_callbacks": [u.line for u in earlier],
                                  "stale": None if stale is None else stale[1]})
            if stale is not None:
                r.bad("K9:%s:stale-callback-pointer:%s" % (name, fl.split(".")[1]), el.where(), name,
                      "%s of the %s invocation was read from the bufferevent before the user callback at line %d ran: if that callback cleared or replaced the callbacks "
                      "(bufferevent_setcb/bufferevent_free) the old function is still called" % (stale[1], fl.split(".")[1], stale[0].line))
    return r


def rule_run(P):
    r = Rule("C19-run", "K6", "bufferevent_run_readcb_/writecb_/eventcb_: immediate vs deferred delivery, reference taken iff newly scheduled", floor=30)
    DEFER = 4
    for name, fld, pend in (("bufferevent_run_readcb_", "bufferevent.readcb", "readcb_pending"), ("bufferevent_run_writecb_", "bufferevent.writecb", "writecb_pending"),
                            ("bufferevent_run_eventcb_", "bufferevent.errorcb", "eventcb_pending")):
        f = P.fn(name)
        bev = ["var", f.params[0][0], "param"]
        p = ["var", "p", "local"]
        kcb = nkey(["fld", bev, fld, "->"])
        kopt = nkey(["fld", p, "bufferevent_private.options", "->"])
        kp = nkey(["fld", p, "bufferevent_private." + pend, "->"])
        optp = f.params[-1][0]
        nb = 0
        for cb in (0, 1):
            for bopt in (0, DEFER):
                for aopt in (0, DEFER):
                    for sched in (0, 1):
                        env = {bev[1]: 1, "p": 1, kcb: cb, kopt: bopt, optp: aopt, kp: 0x20 if pend == "eventcb_pending" else 0}
                        if name.endswith("eventcb_"):
                            env[f.params[1][0]] = EOF_
                        def hook(el, e_):
                            sl = callee_slot(el.e)
                            n = callee_name(el.e)
                            if sl == fld:
                                e_["#inv"] = e_.get("#inv", 0) + 1
                                return 0
                            if n == "event_deferred_cb_schedule_":
                                e_["#sched"] = e_.get("#sched", 0) + 1
                                return sched
                            if n in ("bufferevent_incref_", "bufferevent_incref"):
                                e_["#ref"] = e_.get("#ref", 0) + 1
                                return 0
                            if n == "__errno_location":
                                return 1
                            return None
                        for o in run_all(f, (f.entry, 0), env, lambda el: False, P, hook, max_steps=600):
                            if o.kind == "unknown":
                                r.brk("%s: %s" % (name, o.why))
                                return r
                            inv, sc, ref, pv = o.env.get("#inv", 0), o.env.get("#sched", 0), o.env.get("#ref", 0), o.env.get(kp)
                            deferred = bool((bopt | aopt) & DEFER)
                            if not cb:
                                want = (0, 0, 0, env[kp])
                            elif deferred:
                                want = (0, 1, 1 if sched else 0, (0x20 | EOF_) if pend == "eventcb_pending" else 1)
                            else:
                                want = (1, 0, 0, env[kp])
                            r.inst((name, cb, bopt, aopt, sched), {"fn": name, "callback_set": cb, "defer": deferred, "newly_scheduled": sched, "invoked": inv, "scheduled": sc, "refs_taken": ref, "pending": pv})
                            if (inv, sc, ref, pv) != want and nb < 3:
                                nb += 1
                                r.bad("K6:%s:delivery-mode" % name, "%s:%d" % (f.file, f.line), name,
                                      "callback set=%d defer=%s newly scheduled=%d: invoked %d, scheduled %d, references %d, pending %s; documented %s" % (cb, deferred, sched, inv, sc, ref, pv, want))
    return r


def rule_free_connect(P):
    r = Rule("C19-free-connect", "K3", "bufferevent_free clears callbacks first; socket connect: CONNECTED before any write trigger, ERROR on failure", floor=4)
    f = P.fn("bufferevent_free")
    sc = [el for el in f.calls("bufferevent_setcb")]
    dec = [el for el in f.calls() if callee_name(el.e) in ("bufferevent_decref_and_unlock_", "bufferevent_cancel_all_")]
    ok = len(sc) == 1 and all(is_e(strip(a), "int") and strip(a)[1] == 0 for a in sc[0].e[2][1:]) and dec and all(f.path_avoiding((f.entry, -1), lambda x: x is d, lambda x: x is sc[0]) is None for d in dec)
    r.inst("free", {"callbacks_cleared_before_cancel_and_decref": bool(ok)})
    if not ok:
        r.bad("K3:bufferevent_free:callbacks-not-cleared-first", "%s:%d" % (f.file, f.line), f.name, "bufferevent_free does not clear all four callback fields before cancelling pending work and dropping its reference (a deferred callback could still reach user code)")
    cands = [n for n in P.registered("event_assign", 4) if P.has(n) and P.fn(n).file == "bufferevent_sock.c" and any(True for _ in P.fn(n).calls("evbuffer_write_atmost"))]
    if len(cands) != 1:
        r.brk("socket write callback not identified")
        return r
    g = P.fn(cands[0])
    pv = ["var", "bufev_p", "local"]
    kconn = nkey(["fld", pv, "bufferevent_private.connecting", "->"])
    kref = nkey(["fld", pv, "bufferevent_private.connection_refused", "->"])
    nb = 0
    for c in (-1, 0, 1):
        for refused in (0, 1):
            for enabled in (0, 4):
                for outlen in (0, 10):
                    env = {"bufev": 1, "bufev_p": 1, g.params[1][0]: 4, kconn: 1, kref: refused, nkey(["fld", ["var", "bufev", "local"], "bufferevent.enabled", "->"]): enabled,
                           nkey(["fld", pv, "bufferevent_private.write_suspended", "->"]): 0}
                    def hook(el, e_):
                        n = callee_name(el.e)
                        if n == "evutil_socket_finished_connecting_":
                            return c
                        if n == "bufferevent_run_eventcb_":
                            try:
                                w = evalx(normx(el.e[2][1]), e_, P)
                            except EvalError:
                                w = "?"
                            e_["#seq"] = e_.get("#seq", ()) + (("event", w),)
                            return 0
                        if n == "bufferevent_trigger_nolock_":
                            e_["#seq"] = e_.get("#seq", ()) + (("trigger", None),)
                            return 0
                        if n == "evbuffer_get_length":
                            return outlen
                        if n == "evbuffer_write_atmost":
                            return outlen
                        if n == "bufferevent_get_write_max_":
                            return 1000
                        return None
                    for o in run_all(g, (g.entry, 0), env, lambda el: False, P, hook, max_steps=1200):
                        if o.kind == "exit" and o.why == "noreturn":
                            continue
                        if o.kind == "unknown":
                            r.brk("%s: %s" % (g.name, o.why))
                            return r
                        seq = list(o.env.get("#seq", ()))
                        eff = -1 if refused else c
                        msg = None
                        evs = [w for k, w in seq if k == "event"]
                        if eff == 0 and seq:
                            msg = "connect still in progress but %s is delivered" % seq
                        if eff < 0 and (evs != [0x20] or ("trigger", None) in seq):
                            msg = "failed connect delivers %s, documented a single BEV_EVENT_ERROR and no write trigger" % seq
                        if eff > 0:
                            if not evs or evs[0] != CONNECTED or seq[0] != ("event", CONNECTED):
                                msg = "successful connect delivers %s: CONNECTED must come first" % seq
                        r.inst((c, refused, enabled, outlen), {"finished_connecting": c, "refused": refused, "write_enabled": bool(enabled), "output_len": outlen, "deliveries": [list(x) for x in seq]})
                        if msg and nb < 3:
                            nb += 1
                            r.bad("K3:%s:connect-order" % g.name, "%s:%d" % (g.file, g.line), g.name, "connect result %d refused=%d write enabled=%s output=%d: %s" % (c, refused, bool(enabled), outlen, msg))
    return r


def rule_connect_once(P):
    r = Rule("C19-connect-once", "K6", "bufferevent_socket_connect: a failure returned to the caller is not also reported through the event callback; the refused case reports one deferred ERROR", floor=12)
    f = P.fn("bufferevent_socket_connect")
    bev = ["var", f.params[0][0], "param"]
    nb = 0
    for havefd in (0, 1):
        for sa in (0, 1):
            for sockok in (0, 1):
                for rconn in (-1, 0, 1, 2):
                    for en in (0, -1):
                        env = {bev[1]: 1, f.params[1][0]: sa, f.params[2][0]: 16, "bufev_p": 1,
                               nkey(["fld", ["var", f.params[1][0], "param"], "sockaddr.sa_family", "->"]): 2}
                        def hook(el, e_):
                            n = callee_name(el.e)
                            if n == "bufferevent_getfd":
                                return 7 if havefd else -1
                            if n == "evutil_socket_":
                                return 8 if sockok else -1
                            if n == "evutil_socket_connect_":
                                return rconn
                            if n == "be_socket_enable":
                                return en
                            if n == "bufferevent_run_eventcb_":
                                try:
                                    e_["#rep"] = e_.get("#rep", ()) + ((evalx(normx(el.e[2][1]), e_, P), evalx(normx(el.e[2][2]), e_, P)),)
                                except EvalError:
                                    e_["#rep"] = e_.get("#rep", ()) + (("?", "?"),)
                                return 0
                            if n == "bufferevent_trigger_nolock_":
                                e_["#trig"] = e_.get("#trig", 0) + 1
                                return 0
                            if n == "evutil_closesocket":
                                e_["#closed"] = e_.get("#closed", 0) + 1
                                return 0
                            return None
                        for o in run_all(f, (f.entry, 0), env, lambda el: False, P, hook, max_steps=900):
                            if o.kind == "exit" and o.why == "noreturn":
                                continue
                            if o.kind != "ret":
                                r.brk("bufferevent_socket_connect: %s %s" % (o.kind, o.why))
                                return r
                            try:
                                ret = evalx(normx(o.at.e[1]), o.env, P)
                            except EvalError:
                                ret = None
                            rep = list(o.env.get("#rep", ()))
                            r.inst((havefd, sa, sockok, rconn, en), {"has_fd": havefd, "sockaddr": sa, "socket_ok": sockok, "connect_result": rconn, "enable_result": en, "ret": ret, "reports": rep, "closed": o.env.get("#closed", 0)})
                            msg = None
                            if ret is not None and ret < 0 and rep:
                                msg = "returns %d to the caller and also reports %s through the event callback (the caller reports the failure itself: ERROR would be delivered twice)" % (ret, rep)
                            if ret == 0 and sa and rconn == 2 and (not rep or rep != [(0x20, 4)]):
                                msg = "an immediately refused connect must report exactly one deferred BEV_EVENT_ERROR, got %s" % rep
                            if len(rep) > 1:
                                msg = "reports %d events for one connect attempt: %s" % (len(rep), rep)
                            if msg and nb < 3:
                                nb += 1
                                r.bad("K6:bufferevent_socket_connect:error-reported-twice", "%s:%d" % (f.file, f.line), f.name,
                                      "fd present=%d sockaddr=%d socket ok=%d connect result=%d: %s" % (havefd, sa, sockok, rconn, msg))
    return r


def rule_refs(P):
    """who may change bufferevent_private.refcnt: one initialisation, the two incref functions, one decrement in bufferevent_decref_and_unlock_.  A second place that decrements "the
    reference the deferred queue holds" cannot know whether the queue holds one (a pending flag stays set when the callbacks were cleared): the count goes negative and the finalizer
    runs twice or never."""
    r = Rule("C19-refs", "K2", "bufferevent_private.refcnt is initialised once, incremented in the incref functions and decremented only in bufferevent_decref_and_unlock_", floor=4)
    OWN = {"bufferevent_init_common_": ("=",), "bufferevent_incref": ("++", "+="), "bufferevent_incref_and_lock_": ("++", "+="), "bufferevent_decref_and_unlock_": ("--", "-=")}
    for f in P.all_fns:
        if not f.file.startswith("bufferevent"):
            continue
        sites = []
        for el in f.elems():
            for q in walk(el.e):
                if is_e(q, "incdec") and is_e(strip(q[3]), "fld") and strip(q[3])[2] == "bufferevent_private.refcnt":
                    sites.append((el, q[1]))
                elif is_e(q, "asg") and is_e(strip(q[2]), "fld") and strip(q[2])[2] == "bufferevent_private.refcnt":
                    sites.append((el, q[1]))
        for b in f.branch_blocks():
            for q in walk(b.term["cond"]):
                if is_e(q, "incdec") and is_e(strip(q[3]), "fld") and strip(q[3])[2] == "bufferevent_private.refcnt":
                    sites.append((None, q[1]))
                elif is_e(q, "asg") and is_e(strip(q[2]), "fld") and strip(q[2])[2] == "bufferevent_private.refcnt":
                    sites.append((None, q[1]))
        seen_ = set()
        for el, op in sites:
            k = (f.name, op, el.n if el is not None else "cond")
            if k in seen_:
                continue
            seen_.add(k)
            ok = f.name in OWN and op in OWN[f.name]
            r.inst(k, {"fn": f.name, "site": el.where() if el is not None else "%s:%d (condition)" % (f.file, f.line), "operation": op, "owner": ok})
            if not ok:
                r.bad("K2:%s:refcnt%s" % (f.name, op), el.where() if el is not None else "%s:%d" % (f.file, f.line), f.name,
                      "%s applies %s to bufferevent_private.refcnt outside the functions that own the count" % (f.name, op))
    return r


REARM_EXC = {("bufferevent_socket_connect", 0x04): "a new connection attempt: the write event reports the outcome of connect(), whatever the user has enabled (a fresh connection has reported nothing yet)"}
REARM_UNITS = ["bufferevent", "bufferevent_sock", "bufferevent_pair", "bufferevent_filter", "bufferevent_ratelim"]


def rule_rearm(P, rid="C19-rearm"):
    """who may switch a direction back on: after EOF/ERROR the library disables the direction (bufev->enabled loses the bit); every path that re-arms through the `enable` slot must
    ask bufev->enabled first, or be bufferevent_enable itself (which records the user's wish).  The two unsuspend functions and bufferevent_enable are evaluated; any other site
    needs a dominating test of bufev->enabled for its (constant) direction."""
    r = Rule(rid, "K6/K3", "a direction is re-armed through be_ops->enable only if bufev->enabled still has it (a direction that reported EOF/ERROR stays off through suspend/unsuspend cycles)", floor=30)
    R_, W_ = 0x02, 0x04
    impls = P.slots().get("bufferevent_ops.enable", set())
    sites = []
    for f in P.all_fns:
        for el in f.calls():
            if callee_slot(el.e) == "bufferevent_ops.enable" or (callee_name(el.e) in impls and f.name not in impls):
                sites.append((f, el))
    evaluated = {"bufferevent_unsuspend_read_": R_, "bufferevent_unsuspend_write_": W_}
    for name, bit in evaluated.items():
        f = P.fn(name)
        bev = ["var", f.params[0][0], "param"]
        what = f.params[1][0]
        sus = "bufferevent_private.%s_suspended" % ("read" if bit == R_ else "write")
        for flags in (0, 0x01, 0x10, 0x11, 0x02):
            for w in (0x01, 0x10, 0x11):
                for enabled in (0, R_, W_, R_ | W_):
                    env = {bev[1]: 1, what: w, "bufev_private": 1, nkey(["fld", bev, "bufferevent.enabled", "->"]): enabled,
                           nkey(["fld", ["var", "bufev_private", "local"], sus, "->"]): flags, "#armed": ()}
                    env.update(force_conds(f, lambda b: b.term.get("mac") and any(m in ("EVLOCK_LOCK", "EVLOCK_UNLOCK", "BEV_LOCK", "BEV_UNLOCK") for m in b.term["mac"]) and b.term.get("k") == "if", 1))

                    def hook(el, e_):
                        if callee_slot(el.e) == "bufferevent_ops.enable" or callee_name(el.e) in impls:
                            try:
                                d = evalx(normx(el.e[2][1]), e_, P)
                            except EvalError:
                                d = "?"
                            e_["#armed"] = e_["#armed"] + (d,)
                            return 0
                        if callee_name(el.e) in ("upcast", "BEV_UPCAST"):
                            return 1
                        return None
                    for o in run_all(f, (f.entry, 0), env, lambda el: False, P, hook, max_steps=300):
                        if o.kind == "exit" and o.why == "noreturn":
                            continue
                        if o.kind == "unknown":
                            r.brk("%s: %s" % (name, o.why))
                            return r
                        armed = list(o.env["#armed"])
                        left = flags & ~w
                        want = [bit] if (left == 0 and enabled & bit) else []
                        r.inst((name, flags, w, enabled), {"fn": name, "suspend_flags": flags, "flag_dropped": w, "enabled": enabled, "armed": armed})
                        if armed != want:
                            r.bad("K6:%s:rearm" % name, "%s:%d" % (f.file, f.line), name,
                                  "suspend flags %#x, dropping %#x, bufev->enabled=%#x: the enable slot is called with %s, expected %s (a direction is switched back on only when nothing suspends it "
                                  "any more AND the user still has it enabled - after EOF or ERROR it is not)" % (flags, w, enabled, armed, want))
    # bufferevent_enable: the slot gets the requested directions minus the suspended ones, after the wish has been recorded
    g = P.fn("bufferevent_enable")
    bev = ["var", g.params[0][0], "param"]
    evp = g.params[1][0]
    for event in (R_, W_, R_ | W_):
        for rs in (0, 1):
            for ws in (0, 0x10):
                env = {bev[1]: 1, evp: event, "bufev_private": 1, nkey(["fld", bev, "bufferevent.enabled", "->"]): 0,
                       nkey(["fld", ["var", "bufev_private", "local"], "bufferevent_private.read_suspended", "->"]): rs,
                       nkey(["fld", ["var", "bufev_private", "local"], "bufferevent_private.write_suspended", "->"]): ws, "#armed": (), "event_debug_logging_mask_": 0}

                def hook2(el, e_):
                    if callee_slot(el.e) == "bufferevent_ops.enable" or callee_name(el.e) in impls:
                        try:
                            d = evalx(normx(el.e[2][1]), e_, P)
                        except EvalError:
                            d = "?"
                        e_["#armed"] = e_["#armed"] + ((d, e_.get(nkey(["fld", bev, "bufferevent.enabled", "->"]))),)
                        return 0
                    if callee_name(el.e) in ("bufferevent_incref_and_lock_", "bufferevent_decref_and_unlock_"):
                        return 0
                    return None
                for o in run_all(g, (g.entry, 0), env, lambda el: False, P, hook2, max_steps=300):
                    if o.kind == "exit" and o.why == "noreturn":
                        continue
                    if o.kind == "unknown":
                        r.brk("bufferevent_enable: %s" % o.why)
                        return r
                    want_d = event & ~((R_ if rs else 0) | (W_ if ws else 0))
                    armed = list(o.env["#armed"])
                    okk = (armed == [] and want_d == 0) or (len(armed) == 1 and armed[0][0] == want_d and isinstance(armed[0][1], int) and armed[0][1] & event == event)
                    r.inst(("bufferevent_enable", event, rs, ws), {"fn": "bufferevent_enable", "event": event, "read_suspended": rs, "write_suspended": ws, "armed_with_enabled_word": [list(x) for x in armed]})
                    if not okk:
                        r.bad("K6:bufferevent_enable:rearm", "%s:%d" % (g.file, g.line), g.name,
                              "bufferevent_enable(%#x) with read_suspended=%#x write_suspended=%#x: enable slot calls (directions, enabled word at the call) %s; expected one call with %#x after "
                              "the request was recorded in bufev->enabled" % (event, rs, ws, armed, want_d))
    # every other site
    for f, el in sites:
        if f.name in evaluated or f.name == "bufferevent_enable":
            r.inst(("site", f.name, el.n), {"fn": f.name, "site": el.where(), "decided_by": "evaluation"})
            continue
        try:
            d = evalx(normx(el.e[2][1]), {}, P)
        except Exception:
            d = None
        ok = False
        if isinstance(d, int) and d in (R_, W_):
            for c, t, b in f.guards_at(el.bid):
                c2, t2 = negate_truth(c, t)
                if t2 and any(is_e(q, "bin") and q[1] == "&" and fields_of(strip(q[2]))[-1:] == ["bufferevent.enabled"] and is_e(strip(q[3]), "int") and strip(q[3])[1] & d for q in walk(c2)):
                    ok = True
        exc = REARM_EXC.get((f.name, d))
        r.inst(("site", f.name, el.n), {"fn": f.name, "site": el.where(), "direction": d, "guarded_by_enabled": ok, "exception": exc})
        if not ok and not exc:
            r.bad("K3:%s:rearm-unasked" % f.name, el.where(), f.name,
                  "the enable slot is called for direction %s without a test of bufev->enabled: a direction the library switched off after EOF/ERROR (or the user disabled) is armed again, and the "
                  "condition is reported a second time" % ({R_: "EV_READ", W_: "EV_WRITE"}.get(d, show(el.e[2][1]))))
    if len(sites) < 3:
        r.brk("only %d call sites of the enable slot found" % len(sites))
    return r


def run(ctx, config):
    P = ctx.prog(UNITS, config)
    return [rule_runners(P), rule_fresh(P), rule_run(P), rule_free_connect(P), rule_connect_once(P), rule_refs(P), rule_rearm(ctx.prog(REARM_UNITS, config))]
