"""C13 — evbuffer change callbacks report exactly the changes that happened: the accounting discipline (K5/K8/K3/K4/K9)."""
from ..core import Rule
from ..prog import *
from ..facts import AnalysisBroken
from .. import bufmodel
from .. import evbmodel
from ..bufmodel import TOTAL, NADD, NDEL

UNITS = ["buffer"]
LEVEL = "other"
EXPLANATION = ("A1 (K5/K8): every change of X->total_len in buffer.c — a direct store, or a call to a helper that was inferred (Min-et-al. wrapper "
               "recognition) to change its parameter's total_len without accounting — must be matched, on every path through it, by an update of X's "
               "n_add_for_cb (growth) or n_del_for_cb (shrink); when the two amounts sit in one block and are simple they must be the same expression. "
               "A public function must never itself be such a helper. A2 (K3): after an accounting update of X every path to the exit passes "
               "evbuffer_invoke_callbacks_(X) (a skip is accepted only on the edge where the accounted amount itself is zero). A3: in evbuffer_run_callbacks "
               "orig_size + n_added - n_deleted == total_len and n_added/n_deleted are the two counters (linear normal form). A4: the counters are zeroed only "
               "under `clear`, which is reset only when deferred delivery is pending. A5 (K4): each callback invocation is dominated by "
               "(flags & mask) == masked_val with EVBUFFER_CB_ENABLED in every mask and value. A6 (K9): the traversal saves the next entry before invoking. "
               "Decides the accounting shape on all paths; does not decide sums over histories with self-modifying callbacks.")
ASSUMPTIONS = ["buffers are identified by the root variable of the access path within one function"]
CONFIGS = ["build", "assert"]

ZERO_ON_EMPTY = {
    # (function, callee): total_len is already 0 there
    ("evbuffer_expand_fast_", "ZERO_CHAIN"): "reached only with rmv_all set, i.e. the first chain with data is empty, so total_len is already 0 [guard re-checked]",
}
ENABLED = 0x1


def subj(e):
    rv = root_var(e)
    return rv[1] if rv is not None else None


class Acc(object):
    def __init__(self, M):
        self.M = M
        self.helpers = {}     # fname -> {(param_index, dir)}
        self.infer()

    def events(self, fn):
        """[(elem, subject, dir, amount, kind)]"""
        out = []
        for el, lhs, op, rhs in fn.stores():
            l = strip(lhs)
            if is_e(l, "fld") and l[2] == TOTAL:
                X = subj(l)
                if op == "+=":
                    out.append((el, X, "+", rhs, "store"))
                elif op == "-=":
                    out.append((el, X, "-", rhs, "store"))
                elif op == "=":
                    r = strip(rhs)
                    if is_e(r, "int") and r[1] == 0:
                        out.append((el, X, "-", None, "zero"))
                    else:
                        out.append((el, X, "+", None, "set"))
        for el in fn.calls():
            n = callee_name(el.e)
            if n in self.helpers and n not in bufmodel.BENIGN_CALLEES:
                if (fn.name, n) in ZERO_ON_EMPTY:
                    continue
                if self.helpers[n] == {(0, "-")} and el.e[2] and self.known_empty(fn, el, subj(el.e[2][0])):
                    continue
                for (k, d) in sorted(self.helpers[n]):
                    if k < len(el.e[2]):
                        out.append((el, subj(el.e[2][k]), d, None, "helper " + n))
        return out

    def known_empty(self, fn, el, X):
        """el is dominated by `v == 0` where v's only definition is X->total_len: zeroing an empty buffer changes nothing."""
        for c, t, b in fn.guards_at(el.bid):
            c, t = negate_truth(c, t)
            c = strip(c)
            if t or not (is_e(c, "var") and c[2] == "local"):
                continue
            defs = [rhs for e2, lhs, op, rhs in fn.stores() if is_e(strip(lhs), "var") and strip(lhs)[1] == c[1]]
            if len(defs) == 1 and is_e(strip(defs[0]), "fld") and strip(defs[0])[2] == TOTAL and subj(defs[0]) == X:
                return True
        return False

    def is_acct(self, el, X, d):
        e = el.e
        if e[0] == "asg" and e[1] in ("+=", "="):
            l = strip(e[2])
            if is_e(l, "fld") and l[2] == (NADD if d == "+" else NDEL) and subj(l) == X:
                if e[1] == "=" and is_e(strip(e[3]), "int") and strip(e[3])[1] == 0:
                    return False
                return True
        return False

    def unaccounted(self, fn, ev):
        el, X, d, amount, kind = ev
        if X is None:
            return True
        acct = lambda x: self.is_acct(x, X, d)
        # a path entry -> event avoiding the accounting, and a path event -> exit avoiding it
        before = fn.path_avoiding((fn.entry, -1), lambda x: x is el, acct)
        if before is None:
            return False
        start = el.pos()
        site = self.M.F.sites.get((fn.name, el.n))
        if site is not None:
            # a fallible helper that failed had no effect: continue only along its success edge
            blk = site["block"]
            succ = [s for s, l in blk.succ if l != site["label"]]
            if succ:
                start = (succ[0], -1)
        after = fn.exit_reachable_avoiding(start, acct)
        return after is not None

    def infer(self):
        changed = True
        rounds = 0
        while changed and rounds < 8:
            changed = False
            rounds += 1
            for fn in self.M.fns:
                for ev in self.events(fn):
                    el, X, d, amount, kind = ev
                    idx = [i for i, (n, t) in enumerate(fn.params) if n == X]
                    if not idx:
                        continue
                    if self.unaccounted(fn, ev):
                        hs = self.helpers.setdefault(fn.name, set())
                        if (idx[0], d) not in hs:
                            hs.add((idx[0], d))
                            changed = True


def linear(e, sign=1, out=None):
    """multiset of signed leaves of a +/- expression"""
    if out is None:
        out = {}
    e = strip(e)
    if is_e(e, "bin") and e[1] in ("+", "-"):
        linear(e[2], sign, out)
        linear(e[3], sign if e[1] == "+" else -sign, out)
    else:
        k = key(e)
        out[k] = out.get(k, 0) + sign
        if out[k] == 0:
            del out[k]
    return out


def rule_reset_before_callbacks(P):
    """evbuffer_run_callbacks: the pending counters are taken (copied into the report and cleared) BEFORE the first callback runs.  A callback may change the buffer it watches; that nested
    change re-enters this function: with the counters still standing the outer change would be reported a second time, and a reset after the loop would wipe what the callback did."""
    r = Rule("C13-reset-first", "K3", "evbuffer_run_callbacks never resets n_add_for_cb / n_del_for_cb after a user callback may have run in the same call", floor=2)
    f = P.fn("evbuffer_run_callbacks")
    cbs = [el for el in f.calls() if isinstance(el.e[1], list) and el.e[1] and el.e[1][0] in ("slot", "ptr")]
    resets = [el for el, lhs, op, rhs in f.stores() if is_e(strip(lhs), "fld") and strip(lhs)[2] in ("evbuffer.n_add_for_cb", "evbuffer.n_del_for_cb") and op == "="]
    r.inst("sites", {"callback_invocations": [c.where() for c in cbs], "counter_resets": [x.where() for x in resets]})
    if not cbs or not resets:
        r.brk("evbuffer_run_callbacks: callback invocations (%d) or counter resets (%d) not found" % (len(cbs), len(resets)))
        return r
    for c in cbs:
        w = f.path_avoiding(c.pos(), lambda x: x in resets, lambda x: False)
        r.inst(("after", c.n), {"callback": c.where(), "reset_reachable_afterwards": w.where() if w is not None else None})
        if w is not None:
            r.bad("K3:evbuffer_run_callbacks:counters-reset-after-callback", w.where(), f.name,
                  "%s is reached after the callback at line %d has run: a change the callback made to the buffer is wiped (never reported), and until then a nested run sees the outer change again (reported twice)" % (show(w.e)[:50], c.line))
    return r


def run(ctx, config):
    P = ctx.prog(UNITS, config)
    M = bufmodel.BufModel(P)
    A = Acc(M)
    rules = []
    r1 = Rule("C13-account", "K5/K8", "every total_len change is matched on every path by the callback counter of the same buffer and direction", floor=28)
    r1.notes.append("helpers inferred (change their parameter's total_len, accounting left to the caller): %s" %
                    {k: sorted(v) for k, v in sorted(A.helpers.items())})
    nver = 0
    for fn in M.fns:
        evs = A.events(fn)
        for ev in evs:
            el, X, d, amount, kind = ev
            un = A.unaccounted(fn, ev)
            is_helper = fn.name in A.helpers and any(fn.params[k][0] == X for k, _ in A.helpers[fn.name] if k < len(fn.params))
            r1.inst((fn.name, el.n, d), {"fn": fn.name, "site": el.where(), "buffer": X, "direction": d, "kind": kind,
                                         "accounted_on_every_path": not un, "helper": is_helper})
            if un and fn.public:
                r1.bad("K5:%s:%s:unaccounted-%s" % (fn.name, kind.replace(" ", "-"), "growth" if d == "+" else "shrink"), el.where(), fn.name,
                       "total_len of %s %s here (%s) but a path through this point never updates %s->%s: callbacks would not be told" %
                       (X, "grows" if d == "+" else "shrinks", kind, X, "n_add_for_cb" if d == "+" else "n_del_for_cb"))
            elif un and not is_helper:
                r1.bad("K5:%s:%s:unaccounted-local-%s" % (fn.name, kind.replace(" ", "-"), "growth" if d == "+" else "shrink"), el.where(), fn.name,
                       "total_len of local buffer %s changes without accounting" % X)
            # every direct change in a non-helper function is paired with a counter update of the SAME amount, in the same
            # block or in a block that post-dominates it (so that one cannot happen without the other)
            if kind == "store" and amount is not None and not is_helper:
                paired = [x for x in fn.elems() if A.is_acct(x, X, d) and eq(strip(x.e[3]), amount) and
                          (x.bid == el.bid or fn.postdominates(x.bid, el.bid) or fn.dominates(x.bid, el.bid))]
                if not paired:
                    r1.bad("K8:%s:amount-unpaired:%s" % (fn.name, show(amount)), el.where(), fn.name,
                           "total_len of %s changes by %s but no update of %s by that same amount is tied to it" %
                           (X, show(amount), "n_add_for_cb" if d == "+" else "n_del_for_cb"))
            if kind == "store" and amount is not None:
                blk = fn.blocks[el.bid]
                accts = [x for x in blk.elems if A.is_acct(x, X, d)]
                if accts:
                    a_amt = [strip(x.e[3]) for x in accts]
                    simple = lambda q: is_e(strip(q), "var") or is_e(strip(q), "fld") or is_e(strip(q), "cast")
                    if any(eq(q, amount) for q in a_amt):
                        nver += 1
                    elif simple(amount) and all(simple(q) for q in a_amt):
                        r1.bad("K8:%s:amount-mismatch:%s" % (fn.name, show(amount)), el.where(), fn.name,
                               "total_len changes by %s but the counter is updated by %s" % (show(amount), [show(q) for q in a_amt]))
    r1.notes.append("direct stores whose amount is verified identical to the counter update in the same block: %d" % nver)
    # a ZERO_ON_EMPTY exception is re-checked
    for (fname, callee), why in ZERO_ON_EMPTY.items():
        f = M.byname.get(fname)
        if f is None:
            continue
        for el in f.calls(callee):
            ok = any(t and is_e(strip(c), "var") and strip(c)[1] == "rmv_all" for c, t in (negate_truth(c2, t2) for c2, t2, _ in f.guards_at(el.bid)))
            sets = [rhs for e2, lhs, op, rhs in f.stores() if is_e(strip(lhs), "var") and strip(lhs)[1] == "rmv_all" and not (is_e(strip(rhs), "int") and strip(rhs)[1] == 0)]
            ok2 = all(any((not t) and is_e(strip(c), "fld") and strip(c)[2] == bufmodel.OFF for c, t in (negate_truth(c2, t2) for c2, t2, _ in f.guards_at(e2.bid)))
                      for e2, lhs, op, rhs in f.stores() if is_e(strip(lhs), "var") and strip(lhs)[1] == "rmv_all" and not (is_e(strip(rhs), "int") and strip(rhs)[1] == 0))
            r1.inst(("exc", fname, el.n), {"exception": "%s/%s" % (fname, callee), "reason": why, "guarded_by_rmv_all": ok, "rmv_all_set_only_when_chain_empty": ok2})
            if not (ok and ok2):
                r1.bad("K5:%s:%s:exception-no-longer-justified" % (fname, callee), el.where(), fname, "ZERO_CHAIN is no longer confined to the empty-buffer case")
    rules.append(r1)

    # ---------------- A2
    r2 = Rule("C13-invoke", "K3", "after the callback counters of X are updated, evbuffer_invoke_callbacks_(X) is reached before the function returns", floor=20)
    for fn in M.fns:
        if fn.name in ("evbuffer_run_callbacks", "evbuffer_invoke_callbacks_"):
            continue
        for el, lhs, op, rhs in fn.stores():
            l = strip(lhs)
            if not (is_e(l, "fld") and l[2] in (NADD, NDEL) and op == "+="):
                continue
            X = subj(l)
            amt = strip(rhs)
            inv = lambda x: x.e[0] == "call" and callee_name(x.e) == "evbuffer_invoke_callbacks_" and subj(x.e[2][0]) == X
            # accepted skip: the edge on which the accounted amount itself is zero
            w = exit_avoiding_with_zero_skip(fn, el, inv, amt)
            r2.inst((fn.name, el.n), {"fn": fn.name, "site": el.where(), "update": show(el.e), "invoke_on_every_path": w is None})
            if w is not None:
                r2.bad("K3:%s:%s:no-invoke-after-accounting" % (fn.name, l[2].split(".")[-1]), el.where(), fn.name,
                       "%s is updated but a path reaches the exit (line %s) without evbuffer_invoke_callbacks_(%s)" %
                       (show(l), getattr(w, "line", "end"), X))
    rules.append(r2)

    # ---------------- A3..A6
    r3 = Rule("C13-report", "K4/K6/K9", "evbuffer_run_callbacks reports orig_size/n_added/n_deleted consistently, clears only when reported, filters by ENABLED, saves next", floor=8)
    f = P.fn("evbuffer_run_callbacks")
    buf = f.params[0][0]
    B = ["var", buf, "param"]
    def fldk(name):
        return key(["fld", B, name, "->"])
    info = {}
    for el, lhs, op, rhs in f.stores():
        l = strip(lhs)
        if is_e(l, "fld") and l[2].startswith("evbuffer_cb_info."):
            info[l[2].split(".")[-1]] = (el, rhs)
    r3.inst("info", {k: show(v[1]) for k, v in info.items()})
    ok = set(info) >= {"orig_size", "n_added", "n_deleted"}
    if not ok:
        r3.brk("evbuffer_cb_info stores not found")
    else:
        # substitute new_size := total_len
        ns = [rhs for el, lhs, op, rhs in f.stores() if is_e(strip(lhs), "var") and strip(lhs)[1] == "new_size"]
        lin = linear(info["orig_size"][1])
        if ns and key(["var", "new_size", "local"]) in lin and len(ns) == 1:
            c = lin.pop(key(["var", "new_size", "local"]))
            k2 = key(ns[0])
            lin[k2] = lin.get(k2, 0) + c
        want = {fldk(TOTAL): 1, fldk(NDEL): 1, fldk(NADD): -1}
        if lin != want:
            r3.bad("K6:evbuffer_run_callbacks:orig_size", info["orig_size"][0].where(), f.name,
                   "orig_size is %s; must be total_len + n_del_for_cb - n_add_for_cb" % show(info["orig_size"][1]))
        if key(info["n_added"][1]) != fldk(NADD):
            r3.bad("K6:evbuffer_run_callbacks:n_added", info["n_added"][0].where(), f.name, "n_added is %s, not n_add_for_cb" % show(info["n_added"][1]))
        if key(info["n_deleted"][1]) != fldk(NDEL):
            r3.bad("K6:evbuffer_run_callbacks:n_deleted", info["n_deleted"][0].where(), f.name, "n_deleted is %s, not n_del_for_cb" % show(info["n_deleted"][1]))
        # the counters are read into info before being cleared
        zeros = [el for el, lhs, op, rhs in f.stores() if is_e(strip(lhs), "fld") and strip(lhs)[2] in (NADD, NDEL) and
                 (is_e(strip(rhs), "int") and strip(rhs)[1] == 0 or is_e(strip(rhs), "asg"))]
        for z in zeros:
            gs = [negate_truth(c, t) for c, t, _ in f.guards_at(z.bid)]
            under_clear = any(t and is_e(strip(c), "var") and strip(c)[1] == "clear" for c, t in gs)
            empty_list = any((not t) and is_e(strip(c), "fld") and strip(c)[2].endswith(".lh_first") for c, t in gs)
            r3.inst(("zero", z.n), {"site": z.where(), "store": show(z.e), "under_clear": under_clear, "no_callbacks_branch": empty_list})
            if not (under_clear or empty_list):
                r3.bad("K4:evbuffer_run_callbacks:counters-cleared-unconditionally", z.where(), f.name,
                       "the callback counters are zeroed outside `if (clear)`: a pending deferred delivery would lose them")
            if under_clear and not all(f.pos_dominates(info[k][0].pos(), z.pos()) for k in ("n_added", "n_deleted", "orig_size")):
                r3.bad("K3:evbuffer_run_callbacks:cleared-before-read", z.where(), f.name, "counters cleared before they were copied into the report")
        # clear = 0 only when deferred and not running deferred
        for el, lhs, op, rhs in f.stores():
            if is_e(strip(lhs), "var") and strip(lhs)[1] == "clear" and is_e(strip(rhs), "int") and strip(rhs)[1] == 0 and el.e[0] == "asg":
                gs = [negate_truth(c, t) for c, t, _ in f.guards_at(el.bid)]
                okc = any(t and is_e(strip(c), "fld") and strip(c)[2] == "evbuffer.deferred_cbs" for c, t in gs) and \
                    any((not t) and is_e(strip(c), "var") and strip(c)[1] == f.params[1][0] for c, t in gs)
                r3.inst(("clear0", el.n), {"site": el.where(), "only_when_deferred_pending": okc})
                if not okc:
                    r3.bad("K4:evbuffer_run_callbacks:clear-reset", el.where(), f.name, "`clear = 0` outside (deferred_cbs && !running_deferred)")
        # masks
        for el, lhs, op, rhs in f.stores():
            if is_e(strip(lhs), "var") and strip(lhs)[1] in ("mask", "masked_val") and el.e[0] == "asg":
                v = strip(rhs)
                r3.inst(("mask", el.n), {"site": el.where(), "store": show(el.e)})
                if not (is_e(v, "int") and v[1] & ENABLED):
                    r3.bad("K4:evbuffer_run_callbacks:%s-without-ENABLED" % strip(lhs)[1], el.where(), f.name,
                           "%s = %s does not include EVBUFFER_CB_ENABLED: disabled callbacks would run" % (strip(lhs)[1], show(v)))
        # invocations dominated by the filter
        invs = [el for el in f.calls() if callee_slot(el.e) and callee_slot(el.e).startswith("evbuffer_cb_entry::cb.")]
        for el in invs:
            gs = [negate_truth(c, t) for c, t, _ in f.guards_at(el.bid)]
            okf = False
            for c, t in gs:
                c = strip(c)
                if is_e(c, "bin") and c[1] == "!=" and not t and eq(c[3], ["var", "masked_val", "local"]) and is_e(strip(c[2]), "bin") and strip(c[2])[1] == "&" \
                        and eq(strip(c[2])[3], ["var", "mask", "local"]):
                    okf = True
                if is_e(c, "bin") and c[1] == "==" and t and eq(c[3], ["var", "masked_val", "local"]):
                    okf = True
            r3.inst(("inv", el.n), {"site": el.where(), "call": show(el.e)[:60], "filtered": okf})
            if not okf:
                r3.bad("K4:evbuffer_run_callbacks:unfiltered-invocation", el.where(), f.name, "callback invoked without the (flags & mask) == masked_val filter")
        if len(invs) < 2:
            r3.brk("expected the obsolete and the current callback invocation")
        # A6: next saved before the call; the loop advances from the saved variable
        nxt = [el for el, lhs, op, rhs in f.stores() if is_e(strip(lhs), "var") and strip(lhs)[1] == "next" and
               any(is_e(q, "fld") and q[2].endswith(".le_next") for q in walk(rhs))]
        adv = [el for el, lhs, op, rhs in f.stores() if is_e(strip(lhs), "var") and strip(lhs)[1] == "cbent" and eq(rhs, ["var", "next", "local"])]
        bad_adv = [el for el, lhs, op, rhs in f.stores() if is_e(strip(lhs), "var") and strip(lhs)[1] == "cbent" and
                   any(is_e(q, "fld") and q[2].endswith(".le_next") for q in walk(rhs))]
        ok6 = len(nxt) == 1 and len(adv) == 1 and not bad_adv and all(f.pos_dominates(nxt[0].pos(), i.pos()) for i in invs)
        r3.inst("iter", {"next_saved_at": nxt[0].where() if nxt else None, "advance": show(adv[0].e) if adv else None})
        if not ok6:
            r3.bad("K9:evbuffer_run_callbacks:advance-after-callback", "%s:%d" % (f.file, f.line), f.name,
                   "the traversal must save LIST_NEXT(cbent) before invoking the callback and advance from the saved value (a callback may remove itself)")
    rules.append(r3)
    rc = evbmodel.rule_model(P, "C13-counts")
    rc.desc = "pending callback counts (n_add_for_cb / n_del_for_cb) after each evbuffer operation equal the bytes it added and removed, on every layout of the family"
    rules.append(rc)
    rules.append(rule_pending_kept(P))
    rules.append(rule_reset_before_callbacks(P))
    return rules


def rule_pending_kept(P):
    """evbuffer_invoke_callbacks_ on heap images of the callback list: pending counts may be discarded only when the buffer has no callback at all; with a
    callback registered (enabled or momentarily disabled) they are either reported now (immediate mode) or kept and the deferred report scheduled"""
    from ..interp import run_all, normx, nkey
    r = Rule("C13-pending-kept", "K6", "pending added/deleted counts are dropped only when no callback is registered; otherwise they are reported or kept for the deferred report", floor=8)
    f = P.fn("evbuffer_invoke_callbacks_")
    enabled = None
    for g in P.fns_in("buffer.c"):
        for x in [el.e for el in g.elems()] + [b.term["cond"] for b in g.branch_blocks()]:
            for q in walk(x):
                if is_e(q, "int") and len(q) > 2 and q[2] == "EVBUFFER_CB_ENABLED":
                    enabled = q[1]
    if enabled is None:
        import re, os
        from ..facts import REPO
        m = re.search(r"#define\s+EVBUFFER_CB_ENABLED\s+(\d+)", open(os.path.join(REPO, "include/event2/buffer.h")).read())
        enabled = int(m.group(1)) if m else None
    if enabled is None:
        r.brk("EVBUFFER_CB_ENABLED not found")
        return r
    B = lambda fl: ("@", "buf", "evbuffer.%s" % fl)
    Q = ("sub", "buf", "evbuffer.callbacks")
    for ncb, flagsets in ((0, [()]), (1, [(enabled,), (0,)]), (2, [(enabled, 0), (0, 0), (0, enabled)])):
        for flags in flagsets:
            for deferred in (0, 1):
                for sched in (0, 1):
                    env = {"#typed": 1, "event_debug_logging_mask_": 0, f.params[0][0]: PPtr("buf"), ("@", "buf", "#zero"): 1,
                           B("callbacks"): PPtr(Q), ("@", Q, "evbuffer_cb_queue.lh_first"): PPtr("cb0") if ncb else 0,
                           B("n_add_for_cb"): 8, B("n_del_for_cb"): 3, B("deferred_cbs"): deferred, B("lock"): 0, B("parent"): 0, B("cb_queue"): 9, B("refcnt"): 1}
                    for k in range(ncb):
                        o = "cb%d" % k
                        nx = ("sub", o, "evbuffer_cb_entry.next")
                        env[("@", o, "evbuffer_cb_entry.flags")] = flags[k]
                        env[("@", o, "evbuffer_cb_entry.next")] = PPtr(nx)
                        env[("@", nx, "evbuffer_cb_entry::next.le_next")] = PPtr("cb%d" % (k + 1)) if k + 1 < ncb else 0

                    def hook(el, e_):
                        n = callee_name(el.e)
                        if n == "event_deferred_cb_schedule_":
                            e_["#ops"] = e_.get("#ops", ()) + ("schedule",)
                            return sched
                        if n == "evbuffer_run_callbacks":
                            e_["#ops"] = e_.get("#ops", ()) + ("run",)
                            return 0
                        if n in ("evbuffer_incref_and_lock_", "bufferevent_incref", "evthread_is_debug_lock_held_"):
                            return 0
                        return None
                    outs = [o for o in run_all(f, (f.entry, 0), env, lambda el: False, P, hook, max_steps=300) if not (o.kind == "exit" and o.why == "noreturn")]
                    for o in outs:
                        if o.kind == "unknown":
                            r.brk("evbuffer_invoke_callbacks_ (%d callbacks): %s" % (ncb, o.why))
                            return r
                        na, nd = o.env.get(B("n_add_for_cb")), o.env.get(B("n_del_for_cb"))
                        ops = o.env.get("#ops", ())
                        if ncb == 0:
                            ok = (na, nd) == (0, 0) and not ops
                            want = "counts reset, nothing to call"
                        elif deferred:
                            ok = (na, nd) == (8, 3) and ops[:1] == ("schedule",)
                            want = "deferred report scheduled, counts kept until it runs"
                        else:
                            ok = "run" in ops and (na, nd) == (8, 3)
                            want = "evbuffer_run_callbacks reports now (it resets the counts itself)"
                        r.inst((ncb, flags, deferred, sched), {"callbacks": ncb, "flags": list(flags), "deferred": deferred, "actions": list(ops), "counts_after": [na, nd]})
                        if not ok:
                            r.bad("K6:evbuffer_invoke_callbacks_:pending-counts", "%s:%d" % (f.file, f.line), f.name,
                                  "%d callback(s) with flags %s, %s mode: does %s and leaves added/deleted = %s/%s; protocol: %s — a change made while the callbacks were enabled must still be reported when they are re-enabled" % (
                                      ncb, [hex(x) for x in flags], "deferred" if deferred else "immediate", list(ops), na, nd, want))
    seen, uniq = set(), []
    for f_ in r.findings:
        if f_.key not in seen:
            seen.add(f_.key)
            uniq.append(f_)
    r.findings = uniq
    return r


def exit_avoiding_with_zero_skip(fn, el, inv, amt):
    """like Fn.exit_reachable_avoiding, but the edge on which `amt` (a variable) is zero may skip the invoke."""
    bid, idx = el.pos()
    seen = set()
    work = [(bid, idx + 1)]
    while work:
        b, i = work.pop()
        blk = fn.blocks[b]
        blocked = False
        for x in blk.elems[i:]:
            if inv(x):
                blocked = True
                break
            if x.e[0] == "ret":
                return x
        if blocked:
            continue
        if blk.noreturn or b == fn.exit:
            continue
        for s, lab in blk.succ:
            if lab in ("T", "F") and blk.term and "cond" in blk.term and is_e(amt, "var"):
                c, t = negate_truth(blk.term["cond"], lab == "T")
                if eq(c, amt) and not t:
                    continue    # amount == 0: nothing to report
            if s == fn.exit and not any(x.e[0] == "ret" for x in blk.elems):
                return True
            if fn.contra(el.bid, s):
                continue    # infeasible: a guard dominating the update and one dominating s contradict each other
            if s not in seen:
                seen.add(s)
                work.append((s, 0))
    return None
