"""C30 — HTTP routing: dispatch order of evhttp_handle_request by evaluation (K6/K3), vhost lookup structure, case-fold symmetry of the host matcher (K7)."""
from ..core import Rule
from ..prog import *
from ..facts import AnalysisBroken
from ..interp import normx, nkey, run_all

UNITS = ["http"]
LEVEL = "other"
CONFIGS = ["build", "assert"]
EXPLANATION = (
    "O1: evhttp_handle_request is evaluated on every combination of (request has a URI, method allowed, Host present, a path callback matches, a generic callback "
    "is set): a request without URI gets the parser's error code; a disallowed method gets 501 before any virtual-host lookup or callback; the virtual host is "
    "resolved (only when a Host is present) before path dispatch, and the dispatch uses the resolved host's callback list; the specific callback wins over the "
    "generic one, which wins over 404; exactly one of these outcomes happens. O2: evhttp_find_vhost consults aliases first, descends through pattern matches with "
    "ignorecase = 1 until a fixed point and reports the deepest match. O3 (case-fold symmetry): in every function that compares characters under an `ignorecase` "
    "flag, both operands of each comparison have the same folding status on every path (both folded by EVUTIL_TOLOWER_ or both raw) — a folded pattern character "
    "compared with a raw host character makes the match depend on the case of the request. O4: evhttp_dispatch_callback compares the decoded path with strcmp "
    "against each registered path and frees the decoded copy on every exit. Declined: the matching semantics of patterns and paths as such (string values).")
ASSUMPTIONS = ["user callbacks respond to the request they are given"]


def rule_order(P):
    r = Rule("C30-order", "K6/K3", "evhttp_handle_request outcome on every (uri, method, host, path match, gencb) combination", floor=30)
    f = P.fn("evhttp_handle_request")
    req = ["var", f.params[0][0], "param"]
    http = ["var", "http", "local"]
    kuri = nkey(["fld", req, "evhttp_request.uri", "->"])
    ktype = nkey(["fld", req, "evhttp_request.type", "->"])
    kallow = nkey(["fld", http, "evhttp.allowed_methods", "->"])
    kgen = nkey(["fld", http, "evhttp.gencb", "->"])
    krc = nkey(["fld", req, "evhttp_request.response_code", "->"])
    nb = 0
    for uri in (0, 1):
        for allowed in (0, 1):
            for host in (0, 1):
                for match in (0, 1):
                    for gen in (0, 1):
                        env = {req[1]: 1, f.params[1][0]: 1, "http": 1, kuri: uri, ktype: 2, kallow: 2 if allowed else 1, kgen: gen, krc: 400, "event_debug_logging_mask_": 0}
                        def hook(el, e_):
                            n = callee_name(el.e)
                            sl = callee_slot(el.e)
                            tag = None
                            if n == "evhttp_send_error":
                                try:
                                    tag = ("error", evalx(normx(el.e[2][1]), e_, P))
                                except EvalError:
                                    tag = ("error", "?")
                            elif n == "evhttp_send_notfound":
                                tag = ("notfound",)
                            elif n == "evhttp_request_get_host":
                                e_["#seq"] = e_.get("#seq", ()) + (("gethost",),)
                                return host
                            elif n == "evhttp_find_vhost":
                                tag = ("vhost",)
                                e_["#vhost_done"] = 1
                            elif n == "evhttp_dispatch_callback":
                                a0 = strip(el.e[2][0])
                                uses_http = any(is_e(q, "var") and q[1] == "http" for q in walk(a0))
                                e_["#seq"] = e_.get("#seq", ()) + (("dispatch", uses_http),)
                                return match
                            elif sl == "evhttp_cb.cb":
                                tag = ("cb",)
                            elif sl == "evhttp.gencb":
                                tag = ("gencb",)
                            if tag:
                                e_["#seq"] = e_.get("#seq", ()) + (tag,)
                                return 0
                            return None
                        for o in run_all(f, (f.entry, 0), env, lambda el: False, P, hook, max_steps=900):
                            if o.kind == "exit" and o.why == "noreturn":
                                continue
                            if o.kind == "unknown":
                                r.brk("evhttp_handle_request: %s" % o.why)
                                return r
                            seq = list(o.env.get("#seq", ()))
                            if not uri:
                                want = [("error", 400)]
                            elif not allowed:
                                want = [("error", 501)]
                            else:
                                want = [("gethost",)] + ([("vhost",)] if host else []) + [("dispatch", True)]
                                want.append(("cb",) if match else (("gencb",) if gen else ("notfound",)))
                            r.inst((uri, allowed, host, match, gen), {"has_uri": uri, "method_allowed": allowed, "host": host, "path_match": match, "gencb": gen, "sequence": [list(x) for x in seq]})
                            if seq != want and nb < 3:
                                nb += 1
                                r.bad("K6:evhttp_handle_request:dispatch-order", "%s:%d" % (f.file, f.line), f.name,
                                      "uri=%d method allowed=%d host=%d path match=%d gencb=%d: %s, documented %s" % (uri, allowed, host, match, gen, seq, want))
    return r


def rule_vhost(P):
    r = Rule("C30-vhost", "K3/K7", "vhost lookup: aliases first, case-insensitive pattern descent to a fixed point; decoded path compared and freed", floor=2)
    f = P.fn("evhttp_find_vhost")
    al = list(f.calls("evhttp_find_alias"))
    pm = list(f.calls("prefix_suffix_match"))
    ok = len(al) == 1 and len(pm) == 1 and f.path_avoiding((f.entry, -1), lambda x: x is pm[0], lambda x: x is al[0]) is None
    ic = bool(pm) and is_e(strip(pm[0].e[2][2]), "int") and strip(pm[0].e[2][2])[1] == 1
    loop = bool(pm) and len(f.loops_of(pm[0].bid)) >= 2
    pat = bool(pm) and fields_of(pm[0].e[2][0])[-1:] == ["evhttp.vhost_pattern"]
    r.inst("vhost", {"alias_first": ok, "ignorecase": ic, "descends_in_nested_loop": loop, "matches_vhost_pattern": pat})
    if not (ok and ic and loop and pat):
        r.bad("K3:evhttp_find_vhost:shape", "%s:%d" % (f.file, f.line), f.name, "vhost lookup does not consult aliases first and then descend through case-insensitive pattern matches to a fixed point")
    g = P.fn("evhttp_dispatch_callback")
    cmpc = [el for el in g.calls() if callee_name(el.e) in ("strcmp",)]
    dec = list(g.calls("evhttp_decode_uri_internal"))
    frees = list(g.calls("event_mm_free_"))
    ok = len(cmpc) == 1 and len(dec) == 1 and any(fields_of(a)[-1:] == ["evhttp_cb.what"] for a in cmpc[0].e[2])
    # every return after the allocation frees the decoded copy
    alloc = [el for el in g.calls("event_mm_malloc_")]
    leak = None
    if alloc and frees:
        nulls = [b for b in g.branch_blocks() if g.dominates(alloc[0].bid, b.id) and any(is_e(q, "var") and q[1] == "translated" for q in walk(b.term["cond"]))]
        start = None
        for b in nulls:
            isnull_true = is_e(strip(b.term["cond"]), "bin") and strip(b.term["cond"])[1] == "=="
            s = [x for x, l in b.succ if l == ("F" if isnull_true else "T")]
            if s:
                start = (s[0], -1)
        if start:
            leak = g.exit_reachable_avoiding(start, lambda x: x in frees)
    r.inst("dispatch", {"strcmp_with_registered_path": ok, "decoded_copy_leak": bool(leak)})
    if not ok:
        r.bad("K7:evhttp_dispatch_callback:compare", "%s:%d" % (g.file, g.line), g.name, "the decoded request path is not compared with strcmp against each registered path")
    if leak is not None:
        r.bad("K11:evhttp_dispatch_callback:leak", "%s:%d" % (g.file, g.line), g.name, "a return path does not free the decoded path copy")
    return r


def rule_fold(P):
    r = Rule("C30-fold", "K7", "character comparisons under an ignorecase flag fold both operands or neither", floor=2)
    FOLD = {"EVUTIL_TOLOWER_", "EVUTIL_TOUPPER_", "tolower", "toupper"}
    for f in P.fns_in("http.c"):
        if not any(n == "ignorecase" for n, t in f.params):
            continue
        def status(e, el, depth=0):
            """set of {'folded','raw'} the value of e may have at element el"""
            e = strip(e)
            if is_e(e, "call") and callee_name(e) in FOLD:
                return {"folded"}
            if is_e(e, "var") and e[2] == "local" and depth < 3:
                out = set()
                defs = f.reaching_defs(e[1], el) if el is not None else f.var_stores(e[1])
                for d, rhs in defs:
                    rr = strip(rhs)
                    if is_e(rr, "asg"):
                        rr = strip(rr[3])
                    out |= status(rr, d, depth + 1)
                return out or {"raw"}
            return {"raw"}
        for b in f.blocks.values():
            conds = []
            if b.term and b.term.get("cond") is not None:
                conds.append((b.term["cond"], b))
            for c, blk in conds:
                for q in walk(c):
                    if is_e(q, "bin") and q[1] in ("==", "!="):
                        l, rr = strip(q[2]), strip(q[3])
                        if is_e(l, "int") or is_e(rr, "int"):
                            continue
                        # element context: last element of the block (or none)
                        ctx = blk.elems[-1] if blk.elems else None
                        if ctx is None:
                            # use any element of a predecessor-free position: approximate with a synthetic position at block start
                            class _E(object):
                                pass
                            ctx = None
                        sl, sr = status(l, ctx), status(rr, ctx)
                        r.inst((f.name, blk.id, show(q)[:40]), {"fn": f.name, "site": "%s:%d" % (f.file, blk.term["loc"][0]), "comparison": show(q)[:70], "left": sorted(sl), "right": sorted(sr)})
                        if sl != sr:
                            r.bad("K7:%s:case-fold-asymmetry" % f.name, "%s:%d" % (f.file, blk.term["loc"][0]), f.name,
                                  "`%s` compares a value that may be %s with one that may be %s: under ignorecase the result depends on the case of one side only" % (show(q)[:60], "/".join(sorted(sl)), "/".join(sorted(sr))))
    return r


def rule_alias(P):
    r = Rule("C30-alias", "K4/K8", "the host reported for an alias is the evhttp that owns the matching alias", floor=1)
    f = P.fn("evhttp_find_alias")
    outp = [n for n, t in f.params if "**" in t.replace(" ", "")]
    if not outp:
        r.brk("evhttp_find_alias: out parameter not found")
        return r
    outp = outp[0]
    stores = [el for el, lhs, op, rhs in f.stores() if is_e(strip(lhs), "deref") and is_e(strip(strip(lhs)[1]), "var") and strip(strip(lhs)[1])[1] == outp]
    rec = [el for el in f.calls(f.name)]
    for st in stores:
        X = strip(st.e[3])
        gs = [negate_truth(c, t) for c, t, _ in f.guards_at(st.bid)]
        # guarded by a successful comparison of an alias string ...
        cmp_ok = any((not t) and is_e(strip(c), "call") and callee_name(strip(c)) in ("evutil_ascii_strcasecmp", "strcasecmp") and any(is_e(q, "fld") and q[2] == "evhttp_server_alias.alias" for q in walk(c)) for c, t in gs)
        # ... whose list is X's own alias list: the alias cursor is initialised from X->aliases
        cursors = set(root_var(q)[1] for c, t in gs for q in walk(c) if is_e(q, "fld") and q[2] == "evhttp_server_alias.alias" and root_var(q) is not None)
        own = False
        for cv in cursors:
            for d, rhs in f.var_stores(cv):
                if any(is_e(q, "fld") and q[2] == "evhttp.aliases" and eq(strip(q[1]), X) for q in walk(rhs)):
                    own = True
        r.inst(("store", st.n), {"site": st.where(), "reports": show(X), "guarded_by_alias_match": cmp_ok, "alias_list_of_reported_host": own})
        if not (cmp_ok and own):
            r.bad("K4:evhttp_find_alias:reports-non-owner", st.where(), f.name,
                  "*%s = %s is not guarded by a successful comparison with an alias from %s's own alias list: for aliases on nested virtual hosts an ancestor would be reported instead of the owner" % (outp, show(X), show(X)))
    for c in rec:
        ok = eq(strip(c.e[2][1]), ["var", outp, "param"])
        r.inst(("rec", c.n), {"site": c.where(), "passes_out_parameter_down": ok})
        if not ok:
            r.bad("K8:evhttp_find_alias:recursion-drops-result", c.where(), f.name, "the recursive search does not pass the caller's out parameter down (the innermost owner cannot be reported)")
    if not stores:
        r.brk("no store through the out parameter")
    return r


def ref_glob(pat, name, ic):
    """shell matching with '*' as the only special character (what evhttp_add_virtual_host documents), optionally without case"""
    import re as _re
    if ic:
        pat, name = pat.lower(), name.lower()
    rx = b"^" + b".*".join(_re.escape(x) for x in pat.split(b"*")) + b"$"
    return _re.match(rx, name, _re.S) is not None


def rule_glob(P):
    from ..prog import PStr
    r = Rule("C30-glob", "K6", "prefix_suffix_match is shell matching with '*' (every pattern x host name of a family, with and without case folding)", floor=300)
    f = P.fn("prefix_suffix_match")
    pats = [b"", b"a", b"*", b"a*", b"*a", b"a*b", b"*.example.com", b"www.*", b"**", b"a**b", b"*a*", b"A*", b"*.Example.COM", b"w*w.*.com"]
    names = [b"", b"a", b"ab", b"ba", b"aab", b"www.example.com", b"example.com", b".example.com", b"www.x", b"A", b"axb", b"ab.c", b"WWW.EXAMPLE.COM", b"www.a.b.com"]

    def hook(el, e_):
        if callee_name(el.e) == f.name:
            return "inline"
        return None
    nb = 0
    for pat in pats:
        for name in names:
            for ic in (0, 1):
                env = {"#typed": 1, f.params[0][0]: PStr(pat), f.params[1][0]: PStr(name), f.params[2][0]: ic}
                vals = set()
                for o in run_all(f, (f.entry, 0), env, lambda el: False, P, hook, max_steps=6000):
                    if o.kind == "exit" and o.why == "noreturn":
                        continue
                    if o.kind != "ret":
                        r.brk("prefix_suffix_match(%r, %r): %s %s" % (pat, name, o.kind, o.why))
                        return r
                    try:
                        vals.add(bool(tevalx(normx(o.at.e[1]), o.env, P, f)))
                    except EvalError as ex:
                        r.brk("prefix_suffix_match(%r, %r): %s" % (pat, name, ex))
                        return r
                want = ref_glob(pat, name, ic)
                r.inst((pat, name, ic), {"pattern": pat.decode(), "name": name.decode(), "ignorecase": ic, "matches": sorted(vals)} if nb < 3 else None)
                if vals != {want} and nb < 6:
                    nb += 1
                    r.bad("K6:prefix_suffix_match:glob", "%s:%d" % (f.file, f.line), f.name, "pattern %r, name %r, ignorecase %d: %s; shell matching: %s" % (pat, name, ic, "matches" if True in vals else "no match", "matches" if want else "no match"))
    seen, uniq = set(), []
    for f_ in r.findings:
        if f_.key not in seen:
            seen.add(f_.key)
            uniq.append(f_)
    r.findings = uniq
    return r


def run(ctx, config):
    P = ctx.prog(UNITS, config)
    return [rule_order(P), rule_vhost(P), rule_fold(P), rule_alias(P), rule_glob(P)]
