"""C10 — finalize once, nothing used after release, nothing left: owning-field lifetime (K11), closure dispatch (K10/K6), once-events ownership (K11), finalize transition (K6)."""
import re
from ..core import Rule
from ..prog import *
from ..facts import AnalysisBroken
from ..interp import normx, nkey, run_all
from ..fsm import Machine, EVLIST as L, EV
from ..typestate import exactly_once

UNITS = None
LEVEL = "other"
CONFIGS = ["build", "assert"]
EXPLANATION = (
    "F1 (field lifetime, all units): for 15 (struct, destructor) pairs, every field that anywhere in the library receives the result of an allocator "
    "(mm_malloc/calloc/strdup/realloc, evbuffer_new, event_new, bufferevent_socket_new, socket...) must be handed to a release function "
    "(free/close/destroy/decref...) somewhere in the destructor's call tree (direct calls and ops slots, depth 4); list links are excluded. "
    "F2 (closures): the closure switch of event_process_active_single_queue has a case for every EV_CLOSURE_* value; evaluated per closure value: the user "
    "function / finalizer is invoked exactly once, after the base lock was released, finalizers run with current_event cleared, EV_CLOSURE_EVENT_FINALIZE_FREE "
    "frees the event after (never before) its finalizer and nothing else frees; the same for event_base_cancel_single_callback_ (base teardown) with "
    "run_finalizers on/off. F3 (once events): in event_base_once the allocated record is, on every path, either freed (failure value returned) or linked into "
    "once_events (0 returned), never both; event_once_cb invokes the user callback once, then unlinks under the lock, then frees; event_base_free_ unlinks and "
    "frees every remaining record without invoking it. F4 (finalize transition, flag machine): event_finalize_nolock_ from every flag value leaves the event off "
    "every pending list, ACTIVE and FINALIZING with the finalize closure selected by EVENT_FINALIZE_FREE_; the signal-loop abort on delete is C07-counts. "
    "Declined: use-after-free across arbitrary release orders by the application; leak freedom of whole histories; reference-count balance (partly C08/C44).")
ASSUMPTIONS = ["allocator and release functions are recognised by the frozen name tables in this module"]

ALLOC = {"event_mm_malloc_", "event_mm_calloc_", "event_mm_strdup_", "event_mm_realloc_", "evbuffer_new", "event_new", "evutil_socket_", "socket", "accept",
         "evhttp_uri_parse", "evhttp_uri_new", "evbuffer_file_segment_new", "evutil_new_addrinfo_", "bufferevent_socket_new", "evconnlistener_new", "evtimer_new",
         "evhttp_uri_parse_with_flags", "evutil_accept4_", "evutil_eventfd_", "epoll_create", "epoll_create1", "timerfd_create", "signalfd", "bufferevent_pair_new"}
RELEASE = re.compile(r"(free|close|destroy|release|decref|_clear|shutdown|dealloc|delete_all|cancel)")
PAIRS = [("event_base", "event_base_free_"), ("evbuffer", "evbuffer_decref_and_unlock_"), ("bufferevent_private", "bufferevent_finalize_cb_"),
         ("bufferevent", "bufferevent_finalize_cb_"), ("evconnlistener", "listener_decref_and_unlock"), ("evhttp", "evhttp_free"),
         ("evhttp_connection", "evhttp_connection_free"), ("evhttp_request", "evhttp_request_free_"), ("evdns_base", "evdns_base_free_and_unlock"),
         ("evws_connection", "evws_connection_free"), ("evrpc_pool", "evrpc_pool_free"), ("nameserver", "evdns_nameserver_free"),
         ("evhttp_uri", "evhttp_uri_free"), ("epollop", "epoll_dealloc"), ("evbuffer_file_segment", "evbuffer_file_segment_free")]
LINKS = re.compile(r"\.(next|prev|tqe_next|tqe_prev|le_next|le_prev|tqh_first|tqh_last|lh_first)$")
F1_EXC = {
}


def is_alloc(e):
    e = strip(e)
    return is_e(e, "call") and callee_name(e) in ALLOC


def rule_fields(P):
    r = Rule("C10-fields", "K11", "every owning field of a struct is released in its destructor's call tree", floor=30)
    own = {}
    for f in P.all_fns:
        for el, lhs, op, rhs in f.stores():
            l = strip(lhs)
            if not is_e(l, "fld") or op != "=":
                continue
            src = None
            if is_alloc(rhs):
                src = callee_name(strip(rhs))
            elif is_e(strip(rhs), "var") and strip(rhs)[2] == "local":
                for d, r2 in f.reaching_defs(strip(rhs)[1], el):
                    if is_alloc(r2):
                        src = callee_name(strip(r2))
            if src:
                own.setdefault(l[2], []).append((f.name, el.where(), src))
    for S, D in PAIRS:
        if not P.has(D):
            r.brk("destructor %s of struct %s not found" % (D, S))
            continue
        tree, st, depth = set(), [D], {D: 0}
        while st:
            n = st.pop()
            if n in tree or not P.has(n):
                continue
            tree.add(n)
            if depth[n] >= 4:
                continue
            g = P.fn(n)
            for el in g.calls():
                c = callee_name(el.e)
                if c and c not in depth:
                    depth[c] = depth[n] + 1
                    st.append(c)
                sl = callee_slot(el.e)
                if sl:
                    for t in P.slots().get(sl, ()):
                        if t not in depth:
                            depth[t] = depth[n] + 1
                            st.append(t)
        rel = {}
        for n in tree:
            g = P.fn(n)
            for el in g.calls():
                c = callee_name(el.e) or (callee_slot(el.e) or "")
                if not RELEASE.search(c):
                    continue
                for a in el.e[2]:
                    cands = [a]
                    a0 = strip(a)
                    if is_e(a0, "var"):
                        cands += [r2 for d, r2 in g.var_stores(a0[1])]
                    for x in cands:
                        for q in walk(x):
                            if is_e(q, "fld") and q[2].startswith(S + "."):
                                rel.setdefault(q[2], "%s via %s" % (el.where(), c))
        for k in sorted(x for x in own if x.startswith(S + ".")):
            if LINKS.search(k):
                continue
            ok = k in rel
            r.inst((S, k), {"struct": S, "destructor": D, "field": k.split(".", 1)[1], "allocated_at": [x[1] for x in own[k]][:3], "released": rel.get(k)})
            if not ok and (S, k) not in F1_EXC:
                r.bad("K11:%s:field-not-released:%s" % (D, k.split(".", 1)[1]), own[k][0][1], D,
                      "field %s receives an allocation (%s in %s) but no function in %s's call tree passes it to a release function: it is left behind when the object is destroyed" % (
                          k, own[k][0][2], own[k][0][0], D))
    return r


CLOSURES = {"EV_CLOSURE_EVENT": 0, "EV_CLOSURE_EVENT_SIGNAL": 1, "EV_CLOSURE_EVENT_PERSIST": 2, "EV_CLOSURE_CB_SELF": 3, "EV_CLOSURE_CB_FINALIZE": 4,
            "EV_CLOSURE_EVENT_FINALIZE": 5, "EV_CLOSURE_EVENT_FINALIZE_FREE": 6}


def rule_closures(P):
    r = Rule("C10-closures", "K10/K6", "closure dispatch: every closure handled; user function/finalizer once, lock released first, free only after the finalizer", floor=14)
    f = P.fn("event_process_active_single_queue")
    base = ["var", f.params[0][0], "param"]
    sw = [b for b in f.branch_blocks() if b.term.get("k") == "switch"]
    if len(sw) != 1:
        r.brk("closure switch not found")
        return r
    labels = set()
    for s, l in sw[0].succ:
        lab = f.blocks[s].label
        if lab and lab[0] == "case":
            labels.add(lab[1])
    # fallthrough labels (case A: case B:) appear as separate blocks too
    for b in f.blocks.values():
        if b.label and b.label[0] == "case" and f.dominates(sw[0].id, b.id):
            labels.add(b.label[1])
    for n, v in CLOSURES.items():
        r.inst(("case", n), {"closure": n, "handled": v in labels}, nontrivial=False)
        if v not in labels:
            r.bad("K10:event_process_active_single_queue:closure-unhandled:%s" % n, "%s:%d" % (f.file, sw[0].term["loc"][0]), f.name, "%s has no case in the closure switch (such callbacks would hit the default/assert)" % n)
    kclo = nkey(["fld", ["var", "evcb", "local"], "event_callback.evcb_closure", "->"])
    kcur = nkey(["fld", base, "event_base.current_event", "->"])
    brk = [b for b in f.branch_blocks() if any(is_e(q, "fld") and q[2] == "event_base.event_break" for q in walk(b.term["cond"]))]
    stop_blocks = tuple(b.id for b in brk)

    def notable(el):
        if el.e[0] != "call":
            return None
        n = callee_name(el.e)
        if n in ("event_signal_closure", "event_persist_closure", "event_mm_free_", "event_debug_note_teardown_"):
            return n
        if el.e[1][0] == "ptr":
            return "USERCALL"
        sl = callee_slot(el.e)
        if sl == "evthread_lock_callbacks.unlock":
            return "UNLOCK"
        if sl == "evthread_lock_callbacks.lock":
            return "LOCK"
        if sl:
            return "USERCALL:" + sl
        return None
    for n, v in CLOSURES.items():
        env = {base[1]: 1, "evcb": 1, "ev": 1, kclo: v, kcur: 1, nkey(["fld", base, "event_base.th_base_lock", "->"]): 1,
               nkey(["fld", ["var", "evcb", "local"], "event_callback.evcb_flags", "->"]): L["INIT"] | L["FINALIZING"]}
        outs = run_all(f, (sw[0].id, 0), env, lambda el: False, P, lambda el, e_: None, max_steps=500, notable=notable, exit_blocks=stop_blocks)
        for o in outs:
            if o.kind == "exit" and o.why == "noreturn":
                continue
            if o.kind == "unknown":
                r.brk("closure %s: %s" % (n, o.why))
                continue
            tr = [x for x in o.env.get("#trace", ())]
            # keep only up to the re-acquire after the call
            core_ = []
            for x in tr:
                core_.append(x)
            users = [x for x in core_ if x.startswith("USERCALL") or x in ("event_signal_closure", "event_persist_closure")]
            frees = [x for x in core_ if x == "event_mm_free_"]
            first_user = core_.index(users[0]) if users else None
            unlocked_before = first_user is not None and ("UNLOCK" in core_[:first_user] or users[0] in ("event_signal_closure", "event_persist_closure"))
            want_users = 1
            want_free = 1 if n == "EV_CLOSURE_EVENT_FINALIZE_FREE" else 0
            fin = n in ("EV_CLOSURE_EVENT_FINALIZE", "EV_CLOSURE_EVENT_FINALIZE_FREE", "EV_CLOSURE_CB_FINALIZE")
            r.inst(("run", n), {"closure": n, "trace": core_})
            msg = None
            if len(users) != want_users:
                msg = "the callback/finalizer is invoked %d times" % len(users)
            elif not unlocked_before:
                msg = "the user function runs with th_base_lock held"
            elif len(frees) != want_free:
                msg = "the event memory is freed %d times (expected %d)" % (len(frees), want_free)
            elif want_free and core_.index("event_mm_free_") < first_user:
                msg = "the event is freed before its finalizer runs"
            elif n in ("EV_CLOSURE_EVENT_SIGNAL", "EV_CLOSURE_EVENT_PERSIST") and users[0] != {"EV_CLOSURE_EVENT_SIGNAL": "event_signal_closure", "EV_CLOSURE_EVENT_PERSIST": "event_persist_closure"}[n]:
                msg = "dispatches to %s" % users[0]
            if msg:
                r.bad("K6:event_process_active_single_queue:closure:%s" % n, "%s:%d" % (f.file, sw[0].term["loc"][0]), f.name, "%s: %s (trace %s)" % (n, msg, core_))
    # finalizers run with current_event cleared (so a racing event_del does not wait for memory that is being released)
    for b in f.blocks.values():
        if b.label and b.label[0] == "case" and b.label[1] in (CLOSURES["EV_CLOSURE_EVENT_FINALIZE_FREE"], CLOSURES["EV_CLOSURE_CB_FINALIZE"]):
            reach = f.reach_blocks(b.id, avoid_blocks=set(stop_blocks))
            ok = any(fields_of(lhs)[-1:] == ["event_base.current_event"] and el.bid in reach and is_e(strip(rhs), "int") and strip(rhs)[1] == 0
                     and any(x.e[0] == "call" and x.e[1][0] in ("ptr", "slot") and f.path_avoiding(el.pos(), lambda y: y is x, lambda y: False) for x in f.elems() if x.bid in reach and x.e[0] == "call" and (x.e[1][0] == "ptr"))
                     for el, lhs, op, rhs in f.stores())
            r.inst(("cur", b.label[1]), {"closure_value": b.label[1], "current_event_cleared_before_finalizer": ok})
            if not ok:
                r.bad("K3:event_process_active_single_queue:finalizer-with-current-event", "%s:%d" % (f.file, f.line), f.name, "a finalizer runs while current_event still names the callback")
    # base teardown
    g = P.fn("event_base_cancel_single_callback_")
    kclo2 = nkey(["fld", ["var", g.params[1][0], "param"], "event_callback.evcb_closure", "->"])
    kfl2 = nkey(["fld", ["var", g.params[1][0], "param"], "event_callback.evcb_flags", "->"])
    for n, v in CLOSURES.items():
        for runfin in (0, 1):
            for finalizing in (0, L["FINALIZING"]):
                env = {g.params[0][0]: 1, g.params[1][0]: 1, g.params[2][0]: runfin, kclo2: v, kfl2: L["INIT"] | finalizing,
                       nkey(["fld", ["var", g.params[0][0], "param"], "event_base.th_base_lock", "->"]): 0}
                def hook(el, e_):
                    if callee_name(el.e) in ("event_del_", "event_callback_cancel_nolock_"):
                        return 0
                    return None
                for o in run_all(g, (g.entry, 0), env, lambda el: False, P, hook, notable=notable):
                    if o.kind == "unknown":
                        r.brk("cancel_single_callback: %s" % o.why)
                        continue
                    tr = list(o.env.get("#trace", ()))
                    users = [x for x in tr if x.startswith("USERCALL")]
                    frees = [x for x in tr if x == "event_mm_free_"]
                    fin = n in ("EV_CLOSURE_EVENT_FINALIZE", "EV_CLOSURE_EVENT_FINALIZE_FREE", "EV_CLOSURE_CB_FINALIZE")
                    want_users = 1 if (runfin and finalizing and fin) else 0
                    want_free = 1 if (want_users and n == "EV_CLOSURE_EVENT_FINALIZE_FREE") else 0
                    r.inst(("teardown", n, runfin, finalizing), {"closure": n, "run_finalizers": runfin, "finalizing": bool(finalizing), "trace": tr})
                    if len(users) != want_users or len(frees) != want_free or (want_free and tr.index("event_mm_free_") < tr.index(users[0])):
                        r.bad("K6:event_base_cancel_single_callback_:teardown:%s" % n, "%s:%d" % (g.file, g.line), g.name,
                              "%s, run_finalizers=%d, finalizing=%s: finalizer calls %d (expected %d), frees %d (expected %d)" % (n, runfin, bool(finalizing), len(users), want_users, len(frees), want_free))
    return r


def rule_once(P):
    r = Rule("C10-once", "K11/K3", "once-event records: freed xor linked in event_base_once; callback, unlink, free in event_once_cb; freed at base teardown", floor=3)
    f = P.fn("event_base_once")
    allocs = [el for el, rhs in f.var_stores("eonce") if is_alloc(rhs)]
    if len(allocs) != 1:
        # the allocation may be nested in a condition: find the call element
        allocs = [el for el in f.calls() if callee_name(el.e) in ALLOC]
    if not allocs:
        r.brk("event_base_once: allocation not found")
        return r
    a = allocs[0]
    def consume(el):
        if el.e[0] == "call" and callee_name(el.e) == "event_mm_free_" and is_e(strip(el.e[2][0]), "var") and strip(el.e[2][0])[1] == "eonce":
            return True
        if el.mac and el.mac[-1] == "LIST_INSERT_HEAD" and el.e[0] == "asg" and "event_base.once_events" in fields_of(el.e[2]) and fields_of(el.e[2])[-1].endswith("lh_first") \
                and is_e(strip(el.e[3]), "var") and strip(el.e[3])[1] == "eonce":
            return True
        return False
    # start after the NULL test of the allocation: the edge where eonce != NULL
    nulltest = [b for b in f.branch_blocks() if f.dominates(a.bid, b.id) and any(is_e(q, "var") and q[1] == "eonce" for q in walk(b.term["cond"]))]
    start = None
    if nulltest:
        b = min(nulltest, key=lambda x: -x.id)
        c, t = negate_truth(b.term["cond"], True)
        # cond like (eonce = calloc()) == NULL : truth True means NULL
        isnull_true = is_e(strip(b.term["cond"]), "bin") and strip(b.term["cond"])[1] == "=="
        lab = "F" if isnull_true else "T"
        s = [x for x, l in b.succ if l == lab]
        if s:
            start = (s[0], -1)
    if start is None:
        r.brk("event_base_once: NULL test of the allocation not found")
        return r
    res = exactly_once(f, start, consume, None)
    r.inst("once", {"alloc": a.where(), "leaks": [getattr(x, "line", x) for x in res["leaks"]], "doubles": [x.line for x in res["doubles"]]})
    for w in res["leaks"]:
        r.bad("K11:event_base_once:record-leaked", w.where() if hasattr(w, "where") else a.where(), f.name, "a path returns with the once-record neither freed nor linked into once_events")
    for w in res["doubles"]:
        r.bad("K11:event_base_once:record-freed-and-linked", w.where(), f.name, "the once-record is freed and linked (or freed twice) on one path")
    # return values: free paths return non-zero, link path returns 0
    frees = [el for el in f.elems() if consume(el) and el.e[0] == "call"]
    for fr in frees:
        w = f.exit_reachable_avoiding(fr.pos(), lambda x: False, exit_pred=lambda ret: is_e(strip(ret.e[1]), "int") and strip(ret.e[1])[1] == 0)
        if w is not None:
            r.bad("K5:event_base_once:success-after-free", fr.where(), f.name, "after freeing the record the function can return 0 (the caller believes a callback will come)")
    g = P.fn("event_once_cb")
    cb = [el for el in g.elems() if el.e[0] == "call" and (el.e[1][0] in ("ptr",) or callee_slot(el.e) == "event_once.cb")]
    rm = [el for el in g.elems() if el.mac and el.mac[-1] == "LIST_REMOVE" and el.e[0] == "asg"]
    fr = [el for el in g.calls("event_mm_free_")]
    ok = len(cb) == 1 and rm and len(fr) == 1 and g.path_avoiding(cb[0].pos(), lambda x: x in rm, lambda x: False) is not None \
        and g.path_avoiding(rm[-1].pos(), lambda x: x is fr[0], lambda x: False) is not None and g.path_avoiding(fr[0].pos(), lambda x: x in rm or x is cb[0], lambda x: False) is None \
        and g.exit_reachable_avoiding((g.entry, -1), lambda x: x is fr[0]) is None
    r.inst("once_cb", {"callback_then_unlink_then_free_on_every_path": bool(ok)})
    if not ok:
        r.bad("K3:event_once_cb:order", "%s:%d" % (g.file, g.line), g.name, "the once-record is not, on every path, used for exactly one user callback, then unlinked, then freed")
    h = P.fn("event_base_free_")
    rm = [el for el in h.elems() if el.mac and el.mac[-1] == "LIST_REMOVE" and el.e[0] == "asg" and any(is_e(q, "fld") and "event_once" in q[2] for q in walk(el.e))]
    loop_free = [el for el in h.calls("event_mm_free_") if h.loops_of(el.bid) and any(h.loops_of(x.bid) & h.loops_of(el.bid) for x in rm)]
    invoked = [el for el in h.elems() if el.e[0] == "call" and callee_slot(el.e) == "event_once.cb"]
    ok = bool(rm) and bool(loop_free) and not invoked
    r.inst("teardown", {"remaining_records_unlinked_and_freed": ok, "not_invoked": not invoked})
    if not ok:
        r.bad("K11:event_base_free_:once-records", "%s:%d" % (h.file, h.line), h.name, "event_base_free_ does not unlink and free every pending once-record (without invoking it)")
    return r


def rule_finalize(P):
    r = Rule("C10-finalize", "K6", "event_finalize_nolock_: off every pending list, ACTIVE|FINALIZING, finalize closure by EVENT_FINALIZE_FREE_", floor=40)
    M = Machine(P)
    fname = "event_finalize_nolock_"
    f = P.fn(fname)
    ev = None
    for n, t in f.params:
        if t.replace("const ", "") == "struct event *":
            ev = ["var", n, "param"]
    kclo = nkey(["fld", ["fld", ev, "event.ev_evcallback", "->"], "event_callback.evcb_closure", "."])
    nbad = 0
    for fl in range(256):
        if not fl & L["INIT"] or fl & (L["SIGNAL"] | L["FINALIZING"]) or (fl & L["ACTIVE"] and fl & L["ACTIVE_LATER"]):
            continue
        for flagsarg in (0, 0x10000):
            st = {"flags": fl, "res": 0, "events": EV["READ"], "count": 50, "active": 20}
            for o in M.evaluate(fname, st, {"flags": flagsarg}, extra={kclo: 0}):
                if o["unknown"]:
                    r.brk(o["unknown"])
                    return r
                after = o["st"]["flags"]
                clo = o["env"].get(kclo)
                want = (fl & ~(L["TIMEOUT"] | L["INSERTED"] | L["ACTIVE_LATER"])) | L["ACTIVE"] | L["FINALIZING"]
                wclo = CLOSURES["EV_CLOSURE_EVENT_FINALIZE_FREE"] if flagsarg else CLOSURES["EV_CLOSURE_EVENT_FINALIZE"]
                r.inst((fl, flagsarg, o["choices"]), {"flags": hex(fl), "free_variant": bool(flagsarg), "after": hex(after), "closure": clo, "res": o["st"]["res"]})
                if (after != want or clo != wclo or o["st"]["res"] != EV["FINALIZE"]) and nbad < 3:
                    nbad += 1
                    r.bad("K6:event_finalize_nolock_:transition", "%s:%d" % (f.file, f.line), fname,
                          "from flags %#x (free variant %s): flags %#x closure %s res %#x; documented flags %#x closure %d res EV_FINALIZE" % (fl, bool(flagsarg), after, clo, o["st"]["res"], want, wclo))
    return r


def rule_fresh(P):
    """bufferevent deferred runners: callback pointers are re-read after every earlier user callback (a callback may free the bufferevent's context or replace the callbacks: a cached
    pointer is a use after release).  C19's rule (engine/props/C19.py: rule_fresh) reused."""
    from . import C19
    r = C19.rule_fresh(P)
    r.id = "C10-fresh"
    return r


def rule_schedule_ret(ctx, config):
    """event_deferred_cb_schedule_ tells its caller whether the callback was NEWLY scheduled, and the callers (bufferevents, evbuffers) take a reference on their object exactly then; the
    deferred run drops one.  A callback that was already waiting (ACTIVE or ACTIVE_LATER) and is reported as new gets a second reference that nobody drops: the object is never
    finalized.  The activation functions against C02's reference model (engine/props/C02.py: rule_machine, restricted to them), return value included."""
    from . import C02
    P2 = ctx.prog(C02.UNITS, config)
    r = C02.rule_machine(P2, config, only=("event_callback_activate_nolock_", "event_callback_activate_later_nolock_"))
    r.id = "C10-schedule-ret"
    r.floor = 40
    r.desc = "event_callback_activate(_later)_nolock_ report 'newly scheduled' exactly when the callback was in no queue (the callers take a reference exactly then)"
    return r


def run(ctx, config):
    P = ctx.prog(UNITS, config)
    return [rule_fields(P), rule_closures(P), rule_once(P), rule_finalize(P), rule_fresh(P), rule_schedule_ret(ctx, config)]
