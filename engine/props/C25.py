"""C25 — HTTP size limits: monotone size counters (K2/K4), check between accumulation and delivery (K3), limit test results (K6), declared length rejected early (K3)."""
from ..core import Rule
from ..prog import *
from ..facts import AnalysisBroken
from ..interp import normx, nkey, run_all

UNITS = ["http"]
LEVEL = "other"
CONFIGS = ["build", "assert"]
EXPLANATION = (
    "S1 (monotone counters): req->headers_size and req->body_size are only ever increased (`+=`); plain stores are the two initialisers (zero in "
    "evhttp_request_new, the first line's length in evhttp_parse_firstline_): a limit that applies to the whole message cannot be enforced on a counter that is "
    "recomputed from a buffer the user may drain. S2 (every movement is counted): each transfer of body bytes into req->input_buffer is preceded on its path by "
    "an increase of body_size by the very amount moved (or, for chunks, by the chunk size that was counted when the chunk header was parsed and is the amount moved). "
    "S3 (check between accumulation and delivery): after every increase of body_size no path reaches a delivery (chunk callback, evhttp_connection_done, more "
    "parsing) without passing a comparison with max_body_size — or the increase itself is dominated by the comparison of the new total; the same for headers_size "
    "with max_headers_size; the failing edge reaches evhttp_connection_fail_/evhttp_lingering_fail or returns DATA_TOO_LONG. S4: the wrap-around tests dominate the "
    "additions. S5: in evhttp_get_body a declared Content-Length above the limit is rejected before any body byte is read. S6: the limit setters map negative values "
    "to 'unlimited' and store the value otherwise. Declined: 'never delivers more than the limit' over all segmentations, buffering bound.")
ASSUMPTIONS = ["body bytes reach the request only through evbuffer_add_buffer/evbuffer_remove_buffer into req->input_buffer"]

SIZEF = ("evhttp_request.headers_size", "evhttp_request.body_size")
INIT_OK = {("evhttp_request_new", "evhttp_request.headers_size"), ("evhttp_request_new", "evhttp_request.body_size"), ("evhttp_parse_firstline_", "evhttp_request.headers_size")}


def mentions(e, field):
    return any(is_e(q, "fld") and q[2] == field for q in walk(e))


def acc_locals(f, field):
    """locals that carry the running total of `field` through a function: initialised from the field, afterwards only increased (`total = req->headers_size; ... total += len; ...
    req->headers_size = total`).  Whether the total is written back on every exit is decided by evaluation (C25-headers-eval)."""
    out = {}
    for el in f.elems():
        if el.e[0] == "decl" and len(el.e) > 3 and el.e[3] is not None and fields_of(strip(el.e[3]))[-1:] == [field] and is_e(strip(el.e[3]), "fld"):
            out[el.e[1]] = True
    for el, lhs, op, rhs in f.stores():
        l = strip(lhs)
        if is_e(l, "var") and l[1] in out and el.e[0] != "decl" and op != "+=":
            out[l[1]] = False
    return set(k for k, v in out.items() if v)


def rule_monotone(P):
    r = Rule("C25-monotone", "K2/K4", "headers_size/body_size are only increased; plain stores are the initialisers", floor=6)
    for f in P.all_fns:
        for el, lhs, op, rhs in f.stores():
            fl = fields_of(lhs)[-1:]
            if not fl or fl[0] not in SIZEF:
                continue
            ok = op == "+=" or (op == "=" and (f.name, fl[0]) in INIT_OK)
            if not ok and op == "=" and is_e(strip(rhs), "var") and strip(rhs)[1] in acc_locals(f, fl[0]):
                ok = True       # the running total comes back from a local that was only increased
            r.inst((f.name, el.n), {"fn": f.name, "site": el.where(), "store": show(el.e)[:80]})
            if not ok:
                r.bad("K4:%s:size-counter-overwritten:%s" % (f.name, fl[0].split(".")[1]), el.where(), f.name,
                      "%s is assigned (`%s`) instead of increased: the limit would apply to what is currently buffered, not to the message (a chunk callback drains the buffer between reads)" % (fl[0].split(".")[1], show(el.e)[:70]))
    return r


def rule_counted(P):
    r = Rule("C25-counted", "K8", "every transfer of body bytes into req->input_buffer is counted in body_size with the same amount", floor=3)
    BODY = "evhttp_request.body_size"
    for f in P.fns_in("http.c"):
        for el in f.calls():
            n = callee_name(el.e)
            amount = None
            if n == "evbuffer_add_buffer" and mentions(el.e[2][0], "evhttp_request.input_buffer"):
                amount = ["call", ["fn", "evbuffer_get_length"], [el.e[2][1]]]
            elif n == "evbuffer_remove_buffer" and mentions(el.e[2][1], "evhttp_request.input_buffer"):
                amount = el.e[2][2]
            else:
                continue
            # a `body_size += X` with X equal to the amount (through casts / one local copy) must dominate... on every path to this transfer
            incs = [s for s, lhs, op, rhs in f.stores() if op == "+=" and fields_of(lhs)[-1:] == [BODY]]
            def same(x, y):
                x, y = strip(x), strip(y)
                if eq(x, y):
                    return True
                if is_e(x, "var") and is_e(y, "fld"):
                    return any(eq(strip(rhs), y) for d, rhs in f.var_stores(x[1]))
                if is_e(y, "var") and is_e(x, "fld"):
                    return any(eq(strip(rhs), x) for d, rhs in f.var_stores(y[1]))
                # chunk: body_size += (size_t)ntoread; req->ntoread = ntoread; ... remove_buffer(..., (size_t)req->ntoread)
                return False
            good = [s for s in incs if same(s.e[3], amount)]
            covered = bool(good) and f.path_avoiding((f.entry, -1), lambda x: x is el, lambda x: x in good) is None
            via_field = None
            if not covered:
                # chunked: amount is req->ntoread, which was stored from the local that was added to body_size
                a = strip(amount)
                if is_e(a, "fld"):
                    st = [s for s, lhs, op, rhs in f.stores() if op == "=" and eq(strip(lhs), a) and is_e(strip(rhs), "var")]
                    for s in st:
                        v = strip(s.e[3])
                        g2 = [i for i in incs if eq(strip(i.e[3]), v)]
                        if g2 and f.tied(g2[0], s):
                            via_field = (s.where(), g2[0].where())
                            # between that store and the transfer the field may only be re-stored from the same path
                            covered = True
            r.inst((f.name, el.n), {"fn": f.name, "transfer": el.where(), "amount": show(amount)[:50], "counted_at": [g.where() for g in good] or via_field})
            if not covered:
                r.bad("K8:%s:uncounted-body-bytes" % f.name, el.where(), f.name, "%s moves %s bytes into the request body without a matching increase of body_size on every path" % (n, show(amount)[:40]))
    return r


def rule_checked(P):
    r = Rule("C25-checked", "K3", "every increase of a size counter is checked against its limit before anything is delivered or parsed further", floor=5)
    LIM = {"evhttp_request.body_size": "evhttp_connection.max_body_size", "evhttp_request.headers_size": "evhttp_connection.max_headers_size"}
    EXC = {"evhttp_lingering_close": "runs only after the limit has already failed (lingering close drains and counts what the client still sends before the error reply)"}
    for f in P.fns_in("http.c"):
        for el, lhs, op, rhs in f.stores():
            fl = fields_of(lhs)[-1:]
            if not fl or fl[0] not in LIM or el.e[0] == "decl":
                continue
            if f.name in EXC or (op == "=" and is_e(strip(rhs), "int")):
                continue
            lim = LIM[fl[0]]
            checks = [b for b in f.branch_blocks() if mentions(b.term["cond"], lim)]
            # the comparison may be kept in a local flag and branched on later (`too_long = size > max; ... if (too_long)`): a branch on such a flag is the check
            flags_ = set()
            for e2, lh2, op2, rh2 in f.stores():
                l2 = strip(lh2)
                if is_e(l2, "var") and l2[2] == "local" and rh2 is not None and mentions(rh2, lim):
                    flags_.add(l2[1])
            for e2 in f.elems():
                if e2.e[0] == "decl" and len(e2.e) > 3 and e2.e[3] is not None and mentions(e2.e[3], lim):
                    flags_.add(e2.e[1])
            if flags_:
                checks += [b for b in f.branch_blocks() if b not in checks and any(is_e(q, "var") and q[1] in flags_ for q in walk(b.term["cond"]))]
            # `req->evcon != NULL && size > evcon->max...`: without a connection there is no limit to enforce; the NULL test that leads into a check is part of it
            nolimit = [b for b in f.branch_blocks() if mentions(b.term["cond"], "evhttp_request.evcon") and not mentions(b.term["cond"], lim)
                       and any(s in [c.id for c in checks] for s, _ in b.succ)]
            # (a) pre-check: a check of the new total precedes the store and its failing edge cannot reach the store
            pre = False
            for b in checks:
                if el.bid in f.reach_blocks(b.id) and b.id != el.bid:
                    edges = [(s, lab) for s, lab in b.succ]
                    if any(el.bid not in f.reach_blocks(s, avoid_blocks={b.id}) for s, lab in edges) and any(el.bid in f.reach_blocks(s, avoid_blocks={b.id}) for s, lab in edges):
                        # every path entry -> store passes this check or the no-limit test in front of it
                        gate = {b.id} | set(x.id for x in nolimit if b.id in [s for s, _ in x.succ])
                        if el.bid not in f.reach_blocks(f.entry, avoid_blocks=gate):
                            pre = True
            # (b) or every path from the store to a delivery passes a check
            def delivery(x):
                if x.e[0] == "call":
                    n = callee_name(x.e)
                    if n in ("evhttp_connection_done", "evhttp_read_trailer", "evhttp_parse_request_line", "evhttp_parse_response_line", "evhttp_add_header", "evhttp_append_to_last_header"):
                        return True
                    if callee_slot(x.e) == "evhttp_request.chunk_cb":
                        return True
                if x.e[0] == "ret" and len(x.e) > 1 and x.e[1] and is_e(strip(x.e[1]), "int") and "ALL_DATA_READ" in (strip(x.e[1])[2] if len(strip(x.e[1])) > 2 else ""):
                    return True
                return False
            cb = set(b.id for b in checks) | set(b.id for b in nolimit)
            post_bad = None
            if not pre:
                # element-granular search avoiding check blocks' terminators: treat entering a check block as passing the check
                seen = set()
                work = [(el.bid, el.idx + 1)]
                while work and post_bad is None:
                    bid, i = work.pop()
                    blk = f.blocks[bid]
                    stop = False
                    for x in blk.elems[i:]:
                        if delivery(x):
                            post_bad = x
                            stop = True
                            break
                    if stop or bid in cb:
                        continue
                    for s, _ in blk.succ:
                        if s not in seen:
                            seen.add(s)
                            work.append((s, 0))
            # failing edge of the checks
            fails = False
            for b in checks:
                for s, lab in b.succ:
                    for bb in f.reach_blocks(s):
                        for x in f.blocks[bb].elems:
                            if x.e[0] == "call" and callee_name(x.e) in ("evhttp_connection_fail_", "evhttp_lingering_fail"):
                                fails = True
                            if x.e[0] == "ret" and len(x.e) > 1 and x.e[1] and "DATA_TOO_LONG" in show(x.e[1]):
                                fails = True
                            if x.e[0] == "asg" and "DATA_TOO_LONG" in show(x.e[3]):
                                fails = True
            r.inst((f.name, el.n), {"fn": f.name, "site": el.where(), "counter": fl[0].split(".")[1], "pre_checked": pre, "delivery_reachable_unchecked": post_bad.where() if post_bad else None, "failing_edge_fails": fails})
            if not pre and post_bad is not None:
                r.bad("K3:%s:unchecked-size:%s" % (f.name, fl[0].split(".")[1]), el.where(), f.name,
                      "after %s is increased, %s (line %d) is reachable without a comparison against %s" % (fl[0].split(".")[1], show(post_bad.e)[:50], post_bad.line, lim.split(".")[1]))
            if not checks or not fails:
                r.bad("K3:%s:limit-not-enforced:%s" % (f.name, fl[0].split(".")[1]), el.where(), f.name, "no comparison with %s whose failing edge fails the connection / returns DATA_TOO_LONG" % lim.split(".")[1])
    return r


def rule_wrap_declared(P):
    r = Rule("C25-wrap-declared", "K4/K3/K6", "wrap-around tests dominate additions; declared Content-Length above the limit is rejected before the body; limit setters", floor=5)
    f = P.fn("evhttp_handle_chunked_read")
    adds = [el for el, lhs, op, rhs in f.stores() if op == "+=" and fields_of(lhs)[-1:] == ["evhttp_request.body_size"]]
    for a in adds:
        gs = [negate_truth(c, t) for c, t, _ in f.guards_at(a.bid)]
        ok = any((not t) and is_e(strip(c), "bin") and strip(c)[1] == ">" and any(is_e(q, "bin") and q[1] == "-" and mentions(q[3], "evhttp_request.body_size") for q in walk(c)) for c, t in gs)
        r.inst(("wrap", f.name, a.n), {"fn": f.name, "site": a.where(), "wrap_test_dominates": ok})
        if not ok:
            r.bad("K4:%s:body-size-wrap" % f.name, a.where(), f.name, "the chunk size is added to body_size without the dominating test `size > EV_SIZE_MAX - body_size`")
    g = P.fn("evhttp_read_body")
    for a in [el for el, lhs, op, rhs in g.stores() if op == "+=" and fields_of(lhs)[-1:] == ["evhttp_request.body_size"] and any(is_e(q, "call") and callee_name(q) == "evbuffer_get_length" for q in walk(rhs))]:
        gs = [negate_truth(c, t) for c, t, _ in g.guards_at(a.bid)]
        ok = any((not t) and is_e(strip(c), "bin") and strip(c)[1] == "<" and mentions(strip(c)[2], "evhttp_request.body_size") and mentions(strip(c)[3], "evhttp_request.body_size") for c, t in gs)
        r.inst(("wrap", g.name, a.n), {"fn": g.name, "site": a.where(), "wrap_test_dominates": ok})
        if not ok:
            r.bad("K4:%s:body-size-wrap" % g.name, a.where(), g.name, "the buffered length is added to body_size without the dominating wrap-around test")
    h = P.fn("evhttp_get_body")
    chk = [b for b in h.branch_blocks() if mentions(b.term["cond"], "evhttp_connection.max_body_size") and mentions(b.term["cond"], "evhttp_request.ntoread")]
    reads = [el for el in h.calls() if callee_name(el.e) in ("evhttp_read_body", "evhttp_start_read_")]
    ok = False
    if chk and reads:
        b = chk[-1]
        # on the edge where ntoread > max the function must not reach a body read
        t = [s for s, l in b.succ if l == "T"]
        ok = bool(t) and not any(x.bid in h.reach_blocks(t[0]) for x in reads) and all(h.dominates(chk[0].id, x.bid) or True for x in reads)
        # and every read of the body is after the check when a length was declared: the check dominates reads in the non-chunked branch
    r.inst("declared", {"declared_length_over_limit_never_reaches_body_read": ok})
    if not ok:
        r.bad("K3:evhttp_get_body:declared-length-not-rejected", "%s:%d" % (h.file, h.line), h.name, "a Content-Length above max_body_size is not rejected before the body is read")
    # setters
    for name, fld, unlimited in (("evhttp_connection_set_max_headers_size", "evhttp_connection.max_headers_size", (1 << 64) - 1), ("evhttp_connection_set_max_body_size", "evhttp_connection.max_body_size", (1 << 64) - 1),
                                 ("evhttp_set_max_headers_size", "evhttp.default_max_headers_size", (1 << 64) - 1), ("evhttp_set_max_body_size", "evhttp.default_max_body_size", (1 << 64) - 1)):
        s = P.fn(name)
        obj = ["var", s.params[0][0], "param"]
        k = nkey(["fld", obj, fld, "->"])
        for v in (-1, 0, 4096):
            env = {obj[1]: 1, s.params[1][0]: v, k: 7}
            for o in run_all(s, (s.entry, 0), env, lambda el: False, P, lambda el, e_: None):
                got = o.env.get(k)
                if got is not None and got < 0:
                    got &= (1 << 64) - 1
                want = unlimited if v < 0 else v
                r.inst((name, v), {"fn": name, "arg": v, "stored": got})
                if got != want:
                    r.bad("K6:%s:value" % name, "%s:%d" % (s.file, s.line), name, "argument %d stores %s, documented %s" % (v, got, "unlimited" if v < 0 else v))
    return r


def rule_lines(P):
    r = Rule("C25-lines", "K3", "every header line read is counted in headers_size before it is used or skipped", floor=2)
    for name in ("evhttp_parse_firstline_", "evhttp_parse_headers_"):
        f = P.fn(name)
        reads = [el for el in f.calls("evbuffer_readln")]
        cnt = [el for el, lhs, op, rhs in f.stores() if fields_of(lhs)[-1:] == ["evhttp_request.headers_size"] and op in ("+=", "=")]
        acc = acc_locals(f, "evhttp_request.headers_size")
        cnt += [el for el, lhs, op, rhs in f.stores() if is_e(strip(lhs), "var") and strip(lhs)[1] in acc and op == "+="]
        for rd in reads:
            # the length variable handed to readln
            lv = strip(rd.e[2][1])
            lv = strip(lv[1]) if is_e(lv, "addr") else lv
            good = [c for c in cnt if any(eq(strip(q), lv) for q in walk(c.e[3]))]
            # uses of the line: any call taking `line` (or a pointer derived from it), or reading the next line, or returning success
            def use(x):
                if x is rd:
                    return True       # next iteration: the previous line went uncounted
                if x.e[0] == "call" and callee_name(x.e) in ("evhttp_parse_request_line", "evhttp_parse_response_line", "evhttp_add_header", "evhttp_append_to_last_header"):
                    return True
                return False
            # start on the edge where a line was returned
            def nulltest(c):
                c = strip(c)
                if not (is_e(c, "bin") and c[1] in ("==", "!=")):
                    return False
                for a, b_ in ((c[2], c[3]), (c[3], c[2])):
                    a = strip(a)
                    if is_e(a, "assign"):
                        a = strip(a[2])
                    if is_e(a, "var") and a[1] == "line" and (is_e(strip(b_), "null") or (is_e(strip(b_), "int") and strip(b_)[1] == 0)):
                        return True
                return False
            nn = sorted([b for b in f.branch_blocks() if f.dominates(rd.bid, b.id) and nulltest(b.term["cond"])], key=lambda b: 0 if b.id == rd.bid else 1)
            start = rd.pos()
            w = None
            if nn:
                b = nn[0]
                c = strip(b.term["cond"])
                isnull_true = is_e(c, "bin") and c[1] == "=="
                ne_true = is_e(c, "bin") and c[1] == "!="
                lab = "F" if isnull_true else "T"
                s_ = [x for x, l in b.succ if l == lab]
                if s_:
                    start = (s_[0], -1)
            w = f.path_avoiding(start, use, lambda x: x in good)
            r.inst((name, rd.n), {"fn": name, "read": rd.where(), "counted_at": [c.where() for c in good], "use_reachable_uncounted": w.where() if w is not None else None})
            if w is not None or not good:
                r.bad("K3:%s:line-not-counted" % name, (w or rd).where(), name,
                      "a header line returned by evbuffer_readln can be %s without its length having been added to headers_size: such lines bypass max_headers_size" % ("used at line %d" % w.line if w is not None and w is not rd else "skipped (next line read)"))
    return r


def rule_headers_eval(P):
    """evhttp_parse_headers_ evaluated on scripted reads: the contract of ONE call composes over any number of reads"""
    from ..cmem import MEM0, mem_put
    import itertools
    r = Rule("C25-headers-eval", "K6", "one call of evhttp_parse_headers_: every line read is added to the running total kept in the request, the total is compared with max_headers_size before "
             "the line is used, what is still buffered counts when more data is awaited, and the total survives the call", floor=300)
    f = P.fn("evhttp_parse_headers_")
    req, buf = f.params[0][0], f.params[1][0]
    TOO_LONG, ALL, MORE = P.enum_val("DATA_TOO_LONG"), P.enum_val("ALL_DATA_READ"), P.enum_val("MORE_DATA_EXPECTED")
    KINDS = {"hdr": b"K:v", "cont": b" x", "blank": b""}
    MAX = 100
    scripts = [()]
    for n in (1, 2, 3):
        for lens in itertools.product((10, 60), repeat=n):
            for last in ("hdr", "blank") + (("cont",) if n > 1 else ()):
                scripts.append(tuple((l, "hdr") for l in lens[:-1]) + ((lens[-1] if last != "blank" else 0, last),))
    nbad = 0
    for script in scripts:
        for h0 in (0, 35, 95):
            for leftover in (0, 30, 70):
                for evcon in (1, 0):
                    env = {"#typed": 1, "#bytemem": 1, req: PPtr("req"), buf: PPtr("buf"), ("@", "req", "#zero"): 1, ("@", "buf", "#zero"): 1,
                           ("@", "req", "evhttp_request.headers_size"): h0, ("@", "req", "evhttp_request.input_headers"): PPtr("hdrs"), ("@", "hdrs", "#zero"): 1,
                           ("@", "req", "evhttp_request.evcon"): PPtr("evcon") if evcon else 0, ("@", "evcon", "#zero"): 1, ("@", "evcon", "evhttp_connection.max_headers_size"): MAX,
                           "#i": 0, "#used": ()}
                    for i, (l, k) in enumerate(script):
                        mem_put(env, MEM0 + 100 * i, KINDS[k])

                    def hook(el, e_, script=script, leftover=leftover):
                        n = callee_name(el.e)
                        a = el.e[2]
                        if n == "evbuffer_readln":
                            i = e_["#i"]
                            lp = strip(a[1])
                            if i >= len(script):
                                return 0
                            if not (is_e(lp, "addr") and is_e(strip(lp[1]), "var")):
                                return "impure"
                            e_[strip(lp[1])[1]] = script[i][0]
                            e_["#i"] = i + 1
                            return MEM0 + 100 * i
                        if n == "evbuffer_get_length":
                            return leftover
                        if n in ("event_mm_free_", "evutil_rtrim_lws_"):
                            return 0
                        if n == "evhttp_field_name_is_token":
                            return 1
                        if n in ("strspn",):
                            return 0
                        if n in ("evhttp_add_header", "evhttp_append_to_last_header", "evhttp_add_header_internal"):
                            e_["#used"] = e_["#used"] + (e_["#i"],)
                            return 0
                        if n in ("strsep", "__strsep", "__strsep_1c", "__strsep_g"):
                            sp = strip(a[0])
                            if not (is_e(sp, "addr") and is_e(strip(sp[1]), "var")):
                                return "impure"
                            v = strip(sp[1])[1]
                            start = e_.get(v)
                            if not isinstance(start, int):
                                return "impure"
                            k = start
                            while e_.get(("m", k)) not in (None, 0, ord(":")):
                                k += 1
                            if e_.get(("m", k)) == ord(":"):
                                e_[("m", k)] = 0
                                e_[v] = k + 1
                            else:
                                e_[v] = 0
                            return start
                        return None
                    outs = [o for o in run_all(f, (f.entry, 0), env, lambda el: False, P, hook, max_steps=1500) if not (o.kind == "exit" and o.why == "noreturn")]
                    # the oracle
                    total, exp, used = h0, None, 0
                    for l, k in script:
                        total += l
                        if evcon and total > MAX:
                            exp = TOO_LONG
                            break
                        if k == "blank":
                            exp = ALL
                            break
                        used += 1
                    if exp is None:
                        exp = TOO_LONG if (evcon and total + leftover > MAX) else MORE
                    for o in outs:
                        if o.kind != "ret":
                            r.brk("evhttp_parse_headers_(%s): %s %s" % (script, o.kind, o.why))
                            return r
                        try:
                            val = evalx(normx(o.at.e[1]), o.env, P)
                        except Exception:
                            val = None
                        if isinstance(val, int) and val >= 1 << 31:
                            val -= 1 << 32          # the enumeration has negative members
                        kept = o.env.get(("@", "req", "evhttp_request.headers_size"))
                        r.inst((script, h0, leftover, evcon), {"lines": [list(x) for x in script], "headers_size_before": h0, "still_buffered": leftover, "has_connection": bool(evcon),
                                                              "returns": val, "headers_size_after": kept, "lines_used": len(o.env["#used"])})
                        bad = None
                        if val != exp:
                            bad = ("result", "returns %r, expected %r" % (val, exp))
                        elif len(o.env["#used"]) != used:
                            bad = ("lines-used", "%d header lines handed on, expected %d (a line is used only after the total that includes it passed the limit)" % (len(o.env["#used"]), used))
                        elif exp in (ALL, MORE) and kept != total:
                            bad = ("total-not-kept", "req->headers_size is %r after the call, expected %d: the next read starts from a total that forgot these lines, and a header section "
                                   "arriving in several reads is never limited" % (kept, total))
                        if bad and nbad < 4:
                            nbad += 1
                            r.bad("K6:evhttp_parse_headers_:%s" % bad[0], "%s:%d" % (f.file, f.line), f.name,
                                  "headers_size=%d, max_headers_size=%s, lines (length, kind) %s, %d bytes still buffered: %s" % (h0, MAX if evcon else "none (no connection)", list(script), leftover, bad[1]))
    return r


def run(ctx, config):
    P = ctx.prog(UNITS, config)
    return [rule_monotone(P), rule_counted(P), rule_checked(P), rule_wrap_declared(P), rule_lines(P), rule_headers_eval(P)]
