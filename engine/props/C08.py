"""C08 — every library call returns with all internal locks released (K1 BALANCE, all units, all lock classes)."""
import os
from ..core import Rule
from ..prog import *
from ..facts import AnalysisBroken, VERIF, extract_snippet
from .. import balance
from ..prog import Program

UNITS = None   # all 31
LEVEL = "other"
CONFIGS = ["assert", "assert+reinsert", "assert+nodebug", "assert+nomm"]
QUICK_CONFIG = "assert"
EXPLANATION = ("K1 BALANCE over all 31 library units: every call through the lock callbacks (evthread_lock_fns_.lock/unlock, "
               "condition wait) is an event on a lock class (the struct field or global that holds the lock); a forward dataflow over each "
               "function's clang CFG with set-of-vectors states, bottom-up summaries over the call graph (function-pointer slots of the ops "
               "tables and function-pointer parameters resolved to the functions stored/passed), and edge refinement for the repo's idioms "
               "(NULL-lock wrapper, LOCK2 distinctness, EVLOCK_TRY_LOCK_, constant locals, repeated stable tests, the pair 'partner' token) "
               "decides, for every path of every function: public API functions and every function used as a callback value return with "
               "depth 0 for every class and never go below their entry depth; ops-table siblings agree; no user callback is invoked with the "
               "(non-recursive) base lock held; a non-recursive lock is not re-acquired while held. Asserts are analysed as real branches "
               "(-UNDEBUG) so that the developers' stated impossibilities cut paths. Decides the release-on-every-return clause; does not decide "
               "that the locks protect the right data (C09) nor anything about run-time lock identity beyond the class.")
TRUSTED = ["clang 14 parser/AST/CFG", "tools/lvx.cc", "engine/balance.py", "engine/props/C08.py tables (OPS slots, infrastructure pointers, exceptions)",
           "the lock callbacks themselves (evthread.c debug wrappers, pthread) are the trusted base of this rule"]
ASSUMPTIONS = ["locks are identified by class (field/global), not by instance", "user callbacks are lock-neutral",
               "world analysed: locking enabled (lock pointers non-NULL) — the premise of C08"]

OPS_PREFIX = ("eventop", "bufferevent_ops", "evconnlistener_ops", "le_ssl_ops")
OPS_EXTRA = ("event_base.th_notify_fn",)
TOKENS = ("bufferevent_pair.partner",)
SPECIAL = {"EVLOCK_TRY_LOCK_": [("$0", 1, 1), (None, 0, 0)]}
EXPLICIT = {"evbuffer_lock": ("evbuffer.lock", +1), "evbuffer_unlock": ("evbuffer.lock", -1),
            "bufferevent_lock": ("bufferevent_private.lock", +1), "bufferevent_unlock": ("bufferevent_private.lock", -1)}
# infrastructure function pointers (replaceable allocator / thread id / logging): lock-neutral, not user event callbacks
INFRA_PTRS = ("evthread_id_fn_", "mm_malloc_fn_", "mm_realloc_fn_", "mm_free_fn_", "fatal_fn", "log_fn", "evdns_log_fn")
NONRECURSIVE = ("event_base.th_base_lock", "global:event_debug_map_lock_", "global:evsig_base_lock",
                "evbuffer_file_segment.lock", "global:arc4rand_lock")
BASE = "event_base.th_base_lock"
# user callbacks that are documented to run with the base lock held
_FOREACH_DOC = ("event2/event.h documents that event_base_foreach_event() holds the base lock for the whole iteration and that the "
                "callback must not call anything that modifies the base")
USERCB_UNDER_LOCK_OK = {
    "event_base_foreach_event_nolock_": _FOREACH_DOC,
    "evmap_io_foreach_event_fn": _FOREACH_DOC + " (helper that forwards to the same user function through event_base_foreach_event_helper.fn)",
    "evmap_signal_foreach_event_fn": _FOREACH_DOC + " (helper that forwards to the same user function through event_base_foreach_event_helper.fn)",
}
# functions allowed to go below their entry depth (release and re-acquire a lock their caller holds)
RELEASE_REACQUIRE_OK = {}


def fmt_vec(v):
    return "{" + ", ".join("%s:%+d" % (c, d) for c, d in v) + "}" if v else "{}"


def build(P, lock2_same=False):
    M = balance.LockModel(P)
    ops = [s for s in P.slots() if s.split(".")[0] in OPS_PREFIX] + list(OPS_EXTRA)
    B = balance.Balance(P, M, ops_slots=ops, tokens=TOKENS, special=SPECIAL)
    B.lock2_same = lock2_same
    B.solve()
    return M, B, ops


def rule_lock2_alias(P, B, prefix):
    """EVLOCK_LOCK2/UNLOCK2 lock (unlock) the second lock only when it is a different object.  A function that pairs a LOCK2 with two single unlocks, or two
    single locks with an UNLOCK2, is balanced when the locks differ and unbalanced when both buffers share one lock (bufferevent pairs, threadsafe
    bufferevents): so the analysis is repeated in the world where the two locks are the same object and every function using the pair macros must have the same
    net effect in both worlds."""
    r = Rule(prefix + "-lock2-alias", "K1", "functions using EVLOCK_LOCK2/UNLOCK2 have the same net lock effect whether or not the two locks are one object", floor=3)
    users = [f for f in P.all_fns if any(is_e(q, "var") and q[1].endswith("_tmplock_") for b in f.branch_blocks() for q in walk(b.term["cond"]))]
    if not users:
        r.brk("no function uses the LOCK2/UNLOCK2 macros")
        return r
    M2, B2, _ = build(P, lock2_same=True)
    for f in users:
        s1, s2 = B.summary_of(f), B2.summary_of(f)
        if s1 is None or s2 is None:
            continue
        def net(sm):
            # net effect counted in lock operations per class, normalised: in the alias world one LOCK2 is one operation
            return sorted(set(fmt_vec(v) for v in sm.deltas()))
        d1, d2 = net(s1), net(s2)
        zero1 = all(all(d == 0 for c_, d in v) for v in s1.deltas())
        zero2 = all(all(d == 0 for c_, d in v) for v in s2.deltas())
        r.inst(f.name, {"fn": f.name, "file": f.file, "net_effect_distinct_locks": d1, "net_effect_same_lock": d2})
        if zero1 != zero2:
            r.bad("K1:%s:lock2-alias-imbalance" % f.name, "%s:%d" % (f.file, f.line), f.name,
                  "net lock effect is %s when the two locks are distinct objects but %s when both arguments share one lock (EVLOCK_LOCK2/UNLOCK2 touch a shared lock once): "
                  "a single-lock operation is paired with a LOCK2/UNLOCK2 — with a shared lock (bufferevent pair, threadsafe bufferevent) the function returns with it %s" % (
                      d1, d2, "still held" if not zero2 else "released too often"))
    return r


def classify(P, B, ops):
    opsfns = {}
    for s in ops:
        for m in P.slots().get(s, ()):
            opsfns.setdefault(m, set()).add(s)
    valused = {}
    for r in P.fnrefs:
        c = r["ctx"]
        # a function passed to an internal higher-order function that calls that parameter directly is analysed
        # in the context of that call (summary composition), not as a loop-invoked callback
        if c.get("k") == "arg" and c["callee"][0] == "fn":
            g = P.fns.get(c["callee"][1])
            if g is not None and c["index"] < len(g.params):
                pn = g.params[c["index"]][0]
                calls_param = any(B.param_ptr_index(g, el.e) == c["index"] for el in g.calls())
                if calls_param and not g.public:
                    continue
        valused.setdefault(r["fn"], []).append(r)
    return opsfns, valused


def is_bad(sm):
    """inconsistent effect: more than one delta vector that is not explained by a guard token."""
    ds = sm.deltas()
    if len(ds) <= 1:
        return False
    by = {}
    for v, r, t in sm.outs:
        by.setdefault(t, set()).add(v)
    if all(len(vs) == 1 for vs in by.values()) and len(by) > 1:
        return False
    return True


def run_on(P, rules_prefix="C08", selftest=False):
    M, B, ops = build(P)
    opsfns, valused = classify(P, B, ops)
    rules = []
    # ---------------- events
    r_ev = Rule(rules_prefix + "-events", "K1", "every lock/unlock/wait through the lock callbacks resolves to a lock class", floor=1 if selftest else 380)
    classes = {}
    for f in P.all_fns:
        if f.name in SPECIAL:
            continue
        for el in f.calls():
            lo = M.lock_op(el)
            if lo:
                cls = M.lock_class(f, lo[1])
                r_ev.inst((f.name, el.n), {"site": el.where(), "fn": f.name, "op": lo[0], "lock": show(lo[1]), "class": cls,
                                           "macro": el.mac[-1] if el.mac else None})
                classes[cls] = classes.get(cls, 0) + 1
                if cls is None or cls.startswith("$"):
                    if f.name.startswith("debug_") or f.file == "evthread.c" or f.file == "evthread_pthread.c":
                        continue
                    r_ev.brk("%s %s: lock expression %s does not resolve to a class" % (el.where(), f.name, show(lo[1])))
    r_ev.notes.append("lock classes: " + ", ".join("%s=%d" % (k, v) for k, v in sorted(classes.items(), key=str)))
    rules.append(r_ev)

    # ---------------- origins of imbalance
    r_bal = Rule(rules_prefix + "-balance", "K1", "every function has one net effect per lock class over all its returns "
                 "(a function whose returns disagree leaks or over-releases on some path)", floor=1 if selftest else 1200)
    bad = {}
    for f in P.all_fns:
        sm = B.summary_of(f)
        if sm is None:
            continue
        bad[B.fkey(f)] = is_bad(sm)
    for f in P.all_fns:
        sm = B.summary_of(f)
        if sm is None:
            continue
        if f.file.startswith("evthread"):
            continue
        r_bal.inst(f.name if sm.n_events or sm.minp or sm.deltas() != {()} else None,
                   {"fn": f.name, "file": f.file, "deltas": [fmt_vec(v) for v in sorted(sm.deltas())], "min_prefix": sm.minp} if sm.n_events else None,
                   nontrivial=bool(sm.n_events or sm.minp))
        for kind, msg, el in sm.diag:
            if kind in ("explode", "nofix"):
                r_bal.brk("%s: %s" % (f.name, msg))
        callee_bad = any(bad.get(B.fkey(g)) for g in B.callees(f))
        if bad[B.fkey(f)] and not callee_bad:
            ds = sorted(sm.deltas())
            clss = sorted(set(c for v in ds for c, d in v))
            for cls in clss:
                vals = sorted(set(dict(v).get(cls, 0) for v in ds))
                if len(vals) < 2:
                    continue
                worst = max(ds, key=lambda v: abs(dict(v).get(cls, 0)))
                path = B.witness_path(f, worst)
                r_bal.bad("K1:%s:%s:returns-disagree" % (f.name, cls), "%s:%d" % (f.file, f.line), f.name,
                          "returns with %s at relative depth %s (a path %s)" % (cls, "/".join("%+d" % x for x in vals),
                                                                               "leaks the lock" if max(vals) > 0 and min(vals) >= 0 else "releases a lock it does not hold" if min(vals) < 0 and max(vals) <= 0 else "is unbalanced"),
                          path)
        if any(k == "cap" for k, m, e in sm.diag) and not callee_bad and not bad[B.fkey(f)]:
            el = [e for k, m, e in sm.diag if k == "cap"][0]
            r_bal.bad("K1:%s:unbounded" % f.name, el.where() if el else f.file, f.name,
                      "lock depth changes without bound (per loop iteration): " + [m for k, m, e in sm.diag if k == "cap"][0])
    rules.append(r_bal)

    # ---------------- roots: API and callbacks
    def root_check(rule, f, kind):
        sm = B.summary_of(f)
        if sm is None:
            return
        ds = sm.deltas()
        exp = ()
        if f.name in EXPLICIT:
            c, d = EXPLICIT[f.name]
            exp = ((c, d),)
        rule.inst(f.name, {"fn": f.name, "file": f.file, "kind": kind, "deltas": [fmt_vec(v) for v in sorted(ds)]} if sm.n_events or ds != {()} else None,
                  nontrivial=bool(sm.n_events or sm.minp or ds != {()}))
        if not ds:
            return  # never returns
        if bad[B.fkey(f)]:
            callee_bad = any(bad.get(B.fkey(g)) for g in B.callees(f))
            if callee_bad:
                return  # reported at its origin by the balance rule
            return
        (v,) = ds if len(ds) == 1 else (sorted(ds)[-1],)
        if v != exp and len(ds) == 1:
            rule.bad("K1:%s:%s" % (f.name, "net" + fmt_vec(v)), "%s:%d" % (f.file, f.line), f.name,
                     "%s returns with net lock effect %s, expected %s" % (kind, fmt_vec(v), fmt_vec(exp)), B.witness_path(f, v))
        for c, d in sm.minp.items():
            allowed = 0
            if f.name in EXPLICIT and EXPLICIT[f.name][0] == c and EXPLICIT[f.name][1] < 0:
                allowed = -1
            if d < allowed and f.name not in RELEASE_REACQUIRE_OK:
                rule.bad("K1:%s:%s:below-entry" % (f.name, c), "%s:%d" % (f.file, f.line), f.name,
                         "%s releases (or waits on) %s below its entry depth (relative depth %d): unlock without a matching lock" % (kind, c, d))

    r_api = Rule(rules_prefix + "-api", "K1", "public API functions (declared under include/) return at lock depth 0 for every class and never go below entry depth; "
                 "the four explicit lock APIs are exactly +-1", floor=1 if selftest else 500)
    r_cb = Rule(rules_prefix + "-callbacks", "K1", "every function used as a value (event/deferred/evbuffer/bufferevent/listener/http/dns callbacks registered by the library) "
                "has net effect 0 and never goes below entry depth", floor=0 if selftest else 75)
    for f in P.all_fns:
        if f.file.startswith("evthread"):
            continue
        if f.public or selftest:
            root_check(r_api, f, "public function")
        elif f.name in valused and f.name not in opsfns:
            root_check(r_cb, f, "callback")
    rules.append(r_api)
    if not selftest:
        rules.append(r_cb)

    if selftest:
        return rules, B

    # ---------------- ops tables: siblings agree
    r_ops = Rule(rules_prefix + "-ops", "K1/K7", "functions stored in one ops-table slot have net effect 0 and equal lock requirements", floor=60)
    for s in sorted(ops):
        members = sorted(P.slots().get(s, ()))
        sums = []
        for m in members:
            f = P.fns.get(m)
            if f is None:
                continue
            sm = B.summary_of(f)
            r_ops.inst((s, m), {"slot": s, "fn": m, "deltas": [fmt_vec(v) for v in sorted(sm.deltas())], "min_prefix": sm.minp})
            if sm.deltas() - {()} and not bad[B.fkey(f)]:
                r_ops.bad("K1:%s:slot-%s:net" % (m, s), "%s:%d" % (f.file, f.line), m,
                          "stored in %s but returns with net lock effect %s" % (s, [fmt_vec(v) for v in sorted(sm.deltas())]))
            sums.append((m, sm))
        # requirement agreement: a sibling that releases the caller's lock where the others do not
        if len(sums) > 1:
            reqs = {}
            for m, sm in sums:
                reqs.setdefault(tuple(sorted(sm.minp.items())), []).append(m)
            if len(reqs) > 1:
                # tolerated: a sibling that does not touch the lock at all vs. ones that release/re-acquire the base lock
                nonempty = [k for k in reqs if k]
                if len(set(nonempty)) > 1:
                    r_ops.notes.append("slot %s: differing lock requirements %s" % (s, {str(k): v for k, v in reqs.items()}))
    rules.append(r_ops)

    # ---------------- contexts: user callbacks under the base lock, re-entry
    sites = B.site_vectors()
    roots = [f for f in P.all_fns if not f.file.startswith("evthread") and (f.public or (f.name in valused and f.name not in opsfns))]
    C, top = B.contexts(roots, sites, limit=40, project=set(NONRECURSIVE))
    r_ucb = Rule(rules_prefix + "-usercb", "K1", "no user callback (function-pointer slot or pointer that user code can set) is invoked with the non-recursive base lock held",
                 floor=60)
    r_re = Rule(rules_prefix + "-reentry", "K1", "a non-recursive lock class is never acquired while it may already be held by the caller chain", floor=25)
    if top:
        r_ucb.brk("context sets overflowed for: %s" % sorted(k[0] for k in top)[:8])
    for f in P.all_fns:
        k = B.fkey(f)
        if k not in C or f.file.startswith("evthread"):
            continue
        for el in f.calls():
            if callee_name(el.e):
                lo = None
            loc = sites.get((k, el.n), set())
            lo = M.lock_op(el)
            if lo:
                if lo[0] == "lock":
                    cls = M.lock_class(f, lo[1])
                    if cls in NONRECURSIVE:
                        ds = set(dict(balance.vec_sum(c, l)).get(cls, 0) for c in C[k] for l in loc)
                        r_re.inst((f.name, el.n), {"site": el.where(), "fn": f.name, "class": cls, "depth_before": sorted(ds)})
                        if ds - {0}:
                            chain = B.why(f, cls, C, sites)
                            exc = reentry_exception(P, f, cls, chain)
                            if exc:
                                r_re.notes.append("exception %s: %s" % (f.name, exc))
                            else:
                                r_re.bad("K1:%s:%s:reacquire" % (f.name, cls), el.where(), f.name,
                                         "acquires non-recursive %s while it may already be held" % cls, chain)
                continue
            if callee_name(el.e):
                continue
            sl = callee_slot(el.e)
            if sl in ops or (sl and sl.split(".")[0] in ("evthread_lock_callbacks", "evthread_condition_callbacks")):
                continue
            if el.e[1][0] == "ptr":
                v = strip(el.e[1][1])
                if is_e(v, "deref"):
                    v = strip(v[1])
                if is_e(v, "var") and v[2] in ("global", "lstatic") and v[1] in INFRA_PTRS:
                    continue
                if B.ptr_param_targets(f, el.e):
                    continue
            ds = set(dict(balance.vec_sum(c, l)).get(BASE, 0) for c in C[k] for l in loc)
            r_ucb.inst((f.name, el.n), {"site": el.where(), "fn": f.name, "call": show(el.e)[:80], "base_lock_depth": sorted(ds)})
            if ds - {0}:
                if f.name in USERCB_UNDER_LOCK_OK:
                    r_ucb.notes.append("allowed %s: %s" % (f.name, USERCB_UNDER_LOCK_OK[f.name]))
                    continue
                r_ucb.bad("K1:%s:usercb-under-base-lock:%s" % (f.name, show(el.e[1])[:40]), el.where(), f.name,
                          "user callback %s is invoked with %s held (depth %s): any event_add/del from it self-deadlocks" % (show(el.e)[:60], BASE, sorted(ds)),
                          B.why(f, BASE, C, sites))
    rules.append(r_ucb)
    rules.append(r_re)

    # ---------------- structural side conditions of the special cases
    if not selftest:
        rules.append(rule_lock2_alias(P, B, rules_prefix))
    r_sp = Rule(rules_prefix + "-special", "K2/K4", "side conditions of the modelled idioms: EVLOCK_TRY_LOCK_ shape, partner token writers", floor=3)
    if P.has("EVLOCK_TRY_LOCK_"):
        f = P.fn("EVLOCK_TRY_LOCK_")
        locks = [el for el in f.calls() if M.lock_op(el) and M.lock_op(el)[0] == "lock"]
        ok = len(locks) == 1 and M.lock_op(locks[0])[2] == M.TRY and M.lock_class(f, M.lock_op(locks[0])[1]) == "$0"
        rets = list(f.returns())
        # returns !r where r is the result of the try-lock, or the constant 1 when no lock
        shapes = sorted(show(r.e[1]) for r in rets)
        r_sp.inst("trylock", {"fn": "EVLOCK_TRY_LOCK_", "lock_calls": len(locks), "returns": shapes})
        if not ok or shapes != ["!r", "1"]:
            r_sp.bad("K4:EVLOCK_TRY_LOCK_:shape", "%s:%d" % (f.file, f.line), f.name,
                     "EVLOCK_TRY_LOCK_ no longer has the modelled shape (one EVTHREAD_TRY lock of its argument, returns !r / 1): %s" % shapes)
    else:
        r_sp.brk("EVLOCK_TRY_LOCK_ not found")
    writers = set()
    for f in P.all_fns:
        for el, lhs, op, rhs in f.stores():
            l = strip(lhs)
            if is_e(l, "fld") and l[2] == "bufferevent_pair.partner":
                writers.add(f.name)
                r_sp.inst(("partner", f.name, el.n), {"site": el.where(), "fn": f.name, "store": show(el.e)})
    allowed = {"bufferevent_pair_new", "be_pair_unlink"}
    for w in sorted(writers - allowed):
        f = P.fn(w)
        r_sp.bad("K2:%s:writes-partner" % w, "%s:%d" % (f.file, f.line), w,
                 "bufferevent_pair.partner is written outside %s: the guarded pair incref_and_lock/decref_and_unlock may disagree" % sorted(allowed))
    rules.append(r_sp)
    return rules, B


def reentry_exception(P, f, cls, chain):
    """event_reinit -> evsel->dealloc -> evsig_dealloc_ -> event_del cannot re-enter th_base_lock: event_reinit clears
    sig.ev_signal_added on every path before the dealloc call, and the event_del is guarded by that field. Both facts are re-checked."""
    if cls != BASE or f.name != "event_del_":
        return None
    if "evsig_dealloc_" not in chain or "event_reinit" not in chain:
        return None
    FLD = "evsig_info.ev_signal_added"
    # (1) in evsig_dealloc_, the event_del call is dominated by the true edge of a test of ev_signal_added
    g = P.fn("evsig_dealloc_")
    ok1 = True
    n = 0
    for el in g.calls():
        if callee_name(el.e) in ("event_del", "event_del_block", "event_del_noblock", "event_del_"):
            n += 1
            guards = g.guards_at(el.bid)
            if not any(t and is_e(strip(c), "fld") and strip(c)[2] == FLD for c, t in ((negate_truth(c, t)) for c, t, b in guards)):
                ok1 = False
    if n == 0:
        ok1 = False
    # (2) in event_reinit, every path to the dealloc slot call passes `ev_signal_added = 0` or the false edge of its test
    h = P.fn("event_reinit")
    ok2 = True
    deallocs = [el for el in h.calls() if callee_slot(el.e) == "eventop.dealloc"]
    if not deallocs:
        ok2 = False
    stores0 = [el for el, lhs, op, rhs in h.stores() if is_e(strip(lhs), "fld") and strip(lhs)[2] == FLD and is_e(strip(rhs), "int") and strip(rhs)[1] == 0]
    stores1 = [el for el, lhs, op, rhs in h.stores() if is_e(strip(lhs), "fld") and strip(lhs)[2] == FLD and not (is_e(strip(rhs), "int") and strip(rhs)[1] == 0)]
    tests = [b for b in h.branch_blocks() if is_e(strip(negate_truth(b.term["cond"], True)[0]), "fld") and strip(negate_truth(b.term["cond"], True)[0])[2] == FLD]
    if len(tests) != 1 or not stores0:
        ok2 = False
    else:
        tb = tests[0]
        # the true region must contain the store of 0 post-dominating the branch's true successor
        tsucc = [s for s, l in tb.succ if l == "T"]
        for d in deallocs:
            if not h.dominates(tb.id, d.bid):
                ok2 = False
            # no store of a non-zero value can reach the dealloc call
            for s1 in stores1:
                if d.bid in h.reach_blocks(s1.bid):
                    ok2 = False
        if tsucc:
            reg = h.reach_blocks(tsucc[0], avoid_blocks=set(e.bid for e in stores0))
            for d in deallocs:
                if d.bid in reg and not any(e.bid == tsucc[0] for e in stores0):
                    ok2 = False
    if ok1 and ok2:
        return "event_reinit clears sig.ev_signal_added on every path before evsel->dealloc [re-checked], and evsig_dealloc_'s event_del is guarded by it [re-checked]"
    return None


def run(ctx, config):
    if config == "build":
        config = QUICK_CONFIG
    P = ctx.prog(UNITS, config)
    rules, B = run_on(P)
    # positive self-test: the rule must fire on a tiny leaking function, on every run
    r_pos = Rule("C08-selftest", "K1", "positive example selftest/pos/C08_leak.c: leak and double unlock are reported, the balanced twin is not", floor=3)
    try:
        facts = extract_snippet(os.path.join(VERIF, "selftest", "pos", "C08_leak.c"), ctx.db() if ctx.repo == "/repo" else None, "event", "build")
        SP = Program(facts, "selftest")
        srules, SB = run_on(SP, "C08s", selftest=True)
        keys = set(f.key for r in srules for f in r.findings)
        want = {"K1:selftest_leaky:selftest_obj.lock:returns-disagree", "K1:selftest_double_unlock:net{selftest_obj.lock:-1}"}
        for w in sorted(want):
            r_pos.inst(w, {"expected_report": w, "reported": w in keys})
            if w not in keys:
                r_pos.brk("self-test: expected report %s missing (got %s)" % (w, sorted(keys)))
        r_pos.inst("fine", {"expected_silent": "selftest_fine", "silent": not any("selftest_fine" in k for k in keys)})
        if any("selftest_fine" in k for k in keys):
            r_pos.brk("self-test: balanced function selftest_fine was reported")
    except AnalysisBroken as ex:
        r_pos.brk(str(ex))
    rules.append(r_pos)
    return rules
