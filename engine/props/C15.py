"""C15 — references and file segments: cleanup exactly once, immutable memory never written, no dangling owner fields."""
from ..core import Rule
from ..prog import *
from ..facts import AnalysisBroken
from .. import bufmodel

UNITS = ["buffer"]
LEVEL = "other"
EXPLANATION = ("(a) K2/K3: the reference cleanup slot (evbuffer_chain_reference.cleanupfn) and the file-segment cleanup slot "
               "(evbuffer_file_segment.cleanup_cb) are each invoked at exactly one site, dominated by 'reference count reached zero' (and 'not pinned' for "
               "chains) and followed on every path by the release of the owner. (b) K4: every in-place write into chain memory in buffer.c — memcpy/memmove/"
               "vsnprintf destinations and iovec base pointers derived from chain->buffer (+off) — is justified by one of: chain allocated in the same "
               "function; dominated by an EVBUFFER_IMMUTABLE==0 test of the same chain; dominated by a CHAIN_SPACE_LEN test of the same chain (0 for "
               "immutable chains); length operand taken from CHAIN_SPACE_LEN of the same chain; a value guard whose non-zero definitions are under such a "
               "test; chain obtained from a writable-space provider; helper whose every call site is justified. A free-space test on buffer_len alone is "
               "not accepted (multicast chains are immutable and inherit buffer_len). (c) K11: after an owning chain pointer field of an evbuffer is "
               "released while the evbuffer stays live, the field is overwritten before any use. Decides these structural clauses; byte equality "
               "through every read path is declined.")
ASSUMPTIONS = ["EVBUFFER_IMMUTABLE marks every chain whose memory is shared or not owned (references, file segments, multicast)"]
CONFIGS = ["build", "assert"]

BUF = "evbuffer_chain.buffer"
FLAGS = "evbuffer_chain.flags"
IMMUTABLE = 0x0008
PROVIDERS = ("evbuffer_expand_singlechain", "evbuffer_chain_insert_new", "evbuffer_chain_new", "evbuffer_chain_new_membuf")
WRITERS = {"memcpy": 0, "memmove": 0, "evutil_vsnprintf": 0, "vsnprintf": 0, "read": 1, "recv": 1, "pread": 1}


def chain_base(e):
    """the chain expression X in `X->buffer ...`, or None"""
    for s in walk(e):
        if is_e(s, "fld") and s[2] == BUF:
            return strip(s[1])
    return None


def is_csl(e, X):
    """e contains CHAIN_SPACE_LEN(X): (X->flags & IMMUTABLE ? 0 : ...)"""
    for s in walk(e):
        if is_e(s, "cond"):
            t = strip(s[1])
            if is_e(t, "bin") and t[1] == "&" and is_e(strip(t[2]), "fld") and strip(t[2])[2] == FLAGS and is_e(strip(t[3]), "int") and strip(t[3])[1] & IMMUTABLE:
                if is_e(strip(s[2]), "int") and strip(s[2])[1] == 0 and (X is None or eq(strip(t[2])[1], X)):
                    return True
    return False


def var_stores(fn, name):
    return [(el, rhs) for el, lhs, op, rhs in fn.stores() if is_e(strip(lhs), "var") and strip(lhs)[1] == name]


def stored_between(fn, name, from_bid, to_el):
    """is local `name` stored on some path from block from_bid to element to_el (excluding to_el and later)?"""
    mid = fn.between_blocks(from_bid, to_el.bid)
    for el, rhs in var_stores(fn, name):
        if el.bid in mid:
            if el.bid == to_el.bid and el.idx >= to_el.idx:
                continue
            if el.bid == from_bid:
                continue
            return True
    return False


def reaching_defs(fn, name, el):
    """definitions of local `name` that reach element el (no other definition of it on the way)."""
    defs = var_stores(fn, name)
    dset = set(id(d) for d, _ in defs)
    out = []
    for d, rhs in defs:
        if d is el:
            continue
        w = fn.path_avoiding(d.pos(), lambda x: x is el, lambda x: id(x) in dset and x is not d and x is not el)
        if w is not None:
            out.append((d, rhs))
    return out


def justify(fn, M, el, X, size=None, depth=0):
    """-> justification string or None for a write through chain expression X at element el."""
    rv = root_var(X)
    xname = rv[1] if rv is not None and is_e(strip(X), "var") else None
    # J1 / J7: fresh or provided
    if xname and rv[2] == "local":
        defs = reaching_defs(fn, xname, el)
        srcs = []
        for d, rhs in defs:
            r = strip(rhs)
            if is_e(r, "asg"):
                r = strip(r[3])
            srcs.append(r)
        live = [r for r in srcs if not (is_e(r, "int") and r[1] == 0)]
        if live and all(is_e(r, "call") and callee_name(r) in PROVIDERS for r in live):
            names = sorted(set(callee_name(r) for r in live))
            return "J1/J7: %s only ever holds the result of %s" % (xname, names)
    guards = [(negate_truth(c, t), b) for c, t, b in fn.guards_at(el.bid)]
    for (c, t), b in guards:
        c = strip(c)
        # J2
        if is_e(c, "bin") and c[1] == "&" and is_e(strip(c[2]), "fld") and strip(c[2])[2] == FLAGS and is_e(strip(c[3]), "int") and (strip(c[3])[1] & IMMUTABLE) and not t:
            if eq(strip(c[2])[1], X) and not (xname and stored_between(fn, xname, b.id, el)):
                return "J2: dominated by (%s->flags & %s) == 0 at line %d" % (show(X), show(strip(c[3])), b.term["loc"][0])
        # J3
        if is_csl(c, X) and not (xname and stored_between(fn, xname, b.id, el)):
            ok = False
            if is_e(c, "bin") and c[1] in ("<", "<=", ">", ">=", "==", "!="):
                left_csl = is_csl(c[2], X)
                op = c[1]
                if left_csl:
                    ok = (op in ("<", "<=") and not t) or (op in (">", ">=") and t) or (op == "==" and not t) or (op == "!=" and t)
                else:
                    ok = (op in (">", ">=") and not t) or (op in ("<", "<=") and t)
            elif is_e(c, "cond"):
                ok = t
            if ok:
                return "J3: dominated by a CHAIN_SPACE_LEN(%s) test at line %d (space is 0 for immutable chains)" % (show(X), b.term["loc"][0])
    # J4: length operand from CHAIN_SPACE_LEN(X)
    if size is not None:
        s = strip(size)
        if is_csl(s, X):
            return "J4: length is CHAIN_SPACE_LEN(%s)" % show(X)
        if is_e(s, "var") and s[2] == "local":
            ds = var_stores(fn, s[1])
            if ds and all(is_csl(rhs, X) or (is_e(strip(rhs), "bin") and strip(rhs)[1] == "-") for d, rhs in ds) and any(is_csl(rhs, X) for d, rhs in ds):
                return "J4: length variable %s is defined from CHAIN_SPACE_LEN(%s) (only ever reduced)" % (s[1], show(X))
    # J5: value guard
    for (c, t), b in guards:
        c = strip(c)
        if t and is_e(c, "var") and c[2] == "local":
            ds = var_stores(fn, c[1])
            nz = [(d, rhs) for d, rhs in ds if not (is_e(strip(rhs), "int") and strip(rhs)[1] == 0)]
            if nz and all(justify(fn, M, d, X, None, depth + 1) for d, rhs in nz if depth < 2) and depth < 2:
                return "J5: guarded by `%s` whose non-zero definitions are all under an immutability test of %s" % (c[1], show(X))
    return None


def write_sites(fn):
    """[(elem, X, size_expr, what)]"""
    out = []
    for el in fn.calls():
        n = callee_name(el.e)
        if n in WRITERS and len(el.e[2]) > WRITERS[n]:
            dest = el.e[2][WRITERS[n]]
            size = el.e[2][WRITERS[n] + 1] if n in ("evutil_vsnprintf", "vsnprintf") and len(el.e[2]) > WRITERS[n] + 1 else None
            X = chain_base(dest)
            if X is not None:
                out.append((el, X, size, "%s into %s" % (n, show(dest)[:50])))
            else:
                d = strip(dest)
                if is_e(d, "var") and d[2] == "local":
                    for st, rhs in var_stores(fn, d[1]):
                        X2 = chain_base(rhs)
                        if X2 is not None:
                            out.append((st, X2, size, "%s through %s = %s" % (n, d[1], show(rhs)[:50])))
    for el, lhs, op, rhs in fn.stores():
        l = strip(lhs)
        if is_e(l, "fld") and l[2].split(".")[-1] in ("iov_base", "buf"):
            X = chain_base(rhs)
            if X is not None and any(is_e(s, "fld") and s[2] == "evbuffer_chain.off" for s in walk(rhs)):
                # the sibling length store in the same block
                size = None
                for e2, l2, o2, r2 in fn.stores():
                    if e2.bid == el.bid and is_e(strip(l2), "fld") and strip(l2)[2].split(".")[-1] in ("iov_len", "len") and eq(strip(strip(l2)[1]), strip(l[1])):
                        size = r2
                out.append((el, X, size, "write pointer exposed: %s" % show(el.e)[:60]))
    return out


def run(ctx, config):
    P = ctx.prog(UNITS, config)
    M = bufmodel.BufModel(P)
    rules = []

    # ------------------------------------------------ (a) cleanup slots
    r = Rule("C15-cleanup", "K2/K3", "each cleanup slot is invoked at exactly one site, after the last reference is dropped, and the owner is then released", floor=6)
    for slot, owner_fn, refd in (("evbuffer_chain_reference.cleanupfn", "evbuffer_chain_free", "evbuffer_chain.refcnt"),
                                 ("evbuffer_file_segment.cleanup_cb", "evbuffer_file_segment_free", "evbuffer_file_segment.refcnt")):
        sites = [(f, el) for f in M.fns for el in f.calls(slot=slot)]
        r.inst(("sites", slot), {"slot": slot, "invocations": [e.where() for _, e in sites]})
        if len(sites) != 1:
            r.bad("K2:%s:invocation-sites" % slot, "buffer.c", slot, "cleanup slot is invoked at %d sites, expected exactly one" % len(sites))
            continue
        f, el = sites[0]
        if f.name != owner_fn:
            r.bad("K2:%s:invoked-outside-owner" % slot, el.where(), f.name, "cleanup is invoked in %s, not in %s" % (f.name, owner_fn))
        # dominated by "refcount reached zero": a branch on the decremented count whose >0 edge returns
        gs = [(negate_truth(c, t), b) for c, t, b in f.guards_at(el.bid)]
        dec = [e2 for e2, lhs, op, rhs in f.stores() if op == "--" and is_e(strip(lhs), "fld") and strip(lhs)[2] == refd]
        okz = False
        for (c, t), b in gs:
            c = strip(c)
            if is_e(c, "bin") and c[1] == ">" and is_e(strip(c[3]), "int") and strip(c[3])[1] == 0 and not t:
                l = strip(c[2])
                if (is_e(l, "incdec") and l[1] == "--" and is_e(strip(l[3]), "fld") and strip(l[3])[2] == refd) or \
                   (is_e(l, "var") and any(any(is_e(q, "incdec") and q[1] == "--" and is_e(strip(q[3]), "fld") and strip(q[3])[2] == refd for q in walk(rhs)) for d, rhs in var_stores(f, l[1]))):
                    okz = True
                # the decrement as a statement of its own, the count tested afterwards: the decrement dominates the test and nothing stores the count in between
                bid_ = b.id if hasattr(b, "id") else b
                if is_e(l, "fld") and l[2] == refd and len(dec) == 1 and f.dominates(dec[0].bid, bid_):
                    other = [e3 for e3, lh, o3, r3 in f.stores() if e3 is not dec[0] and is_e(strip(lh), "fld") and strip(lh)[2] == refd]
                    # another store of the count matters only if the test can still be reached from it (the re-increment on the "pinned" path returns)
                    between = [o for o in other if (o.bid == bid_ and o.idx > dec[0].idx) or (o.bid != bid_ and bid_ in f.reach_blocks(o.bid))]
                    if not between:
                        okz = True
        r.inst(("zero", slot), {"site": el.where(), "dominated_by_refcount_zero": okz, "decrements": [d.where() for d in dec]})
        if not okz or len(dec) != 1:
            r.bad("K3:%s:not-after-last-reference" % slot, el.where(), f.name,
                  "cleanup is not dominated by the false edge of `--%s > 0` (it could run while references remain, or twice)" % refd.split(".")[-1])
        if slot.startswith("evbuffer_chain_reference"):
            okp = any(is_e(strip(c), "bin") and any(is_e(q, "int") and "PINNED" in (q[2] if len(q) > 2 else "") for q in walk(c)) and not t for (c, t), b in gs)
            r.inst(("pinned", slot), {"site": el.where(), "dominated_by_not_pinned": okp})
            if not okp:
                r.bad("K3:%s:while-pinned" % slot, el.where(), f.name, "cleanup can run while the chain is pinned by an in-flight I/O")
        # the owner is freed afterwards on every path to exit
        owner = f.params[0][0]
        def frees(x):
            return x.e[0] == "call" and callee_name(x.e) in ("event_mm_free_", "free") and eq(x.e[2][0], ["var", owner, "param"])
        w = f.exit_reachable_avoiding(el.pos(), frees)
        r.inst(("release", slot), {"site": el.where(), "owner_freed_on_every_path": w is None})
        if w is not None:
            r.bad("K3:%s:owner-not-released" % slot, el.where(), f.name, "after the cleanup callback a path reaches the exit without freeing %s" % owner)
        if slot.startswith("evbuffer_file_segment"):
            nulls = [e2 for e2, lhs, op, rhs in f.stores() if is_e(strip(lhs), "fld") and strip(lhs)[2] == slot and is_e(strip(rhs), "int") and strip(rhs)[1] == 0]
            if not nulls or not all(f.pos_dominates(el.pos(), n.pos()) for n in nulls):
                r.bad("K3:%s:not-cleared" % slot, el.where(), f.name, "cleanup_cb is not cleared after it ran")
    rules.append(r)

    # ------------------------------------------------ (b) writes into chain memory
    r2 = Rule("C15-immutable", "K4", "every in-place write into chain memory is justified against EVBUFFER_IMMUTABLE", floor=16)
    helpers = {}
    for f in M.fns:
        seen_sites = set()
        for el, X, size, what in write_sites(f):
            if (el.n, key(X)) in seen_sites:
                continue
            seen_sites.add((el.n, key(X)))
            j = justify(f, M, el, X, size)
            rv = root_var(X)
            if j is None and rv is not None and rv[2] == "param" and is_e(strip(X), "var"):
                helpers.setdefault(f.name, []).append((el, X, what))
                continue
            r2.inst((f.name, el.n), {"fn": f.name, "site": el.where(), "write": what, "chain": show(X), "justification": j})
            if j is None:
                r2.bad("K4:%s:write-into-possibly-immutable-chain:%s" % (f.name, show(X)), el.where(), f.name,
                       "%s: no immutability test of %s dominates this write (a free-space test on buffer_len alone is not enough: multicast chains are "
                       "immutable and inherit the source's buffer_len)" % (what, show(X)))
    for hname, sites in sorted(helpers.items()):
        hf = M.byname[hname]
        for el, X, what in sites:
            idx = [i for i, (n, t) in enumerate(hf.params) if n == strip(X)[1]][0]
            callers = [(cf, cel) for cf in M.fns for cel in cf.calls(hname)]
            if not callers:
                r2.inst((hname, el.n), {"fn": hname, "site": el.where(), "write": what, "justification": "J6: helper without callers"})
            for cf, cel in callers:
                arg = strip(cel.e[2][idx])
                j = justify(cf, M, cel, arg, None)
                if j is None:
                    # asserted precondition inside the helper counts when asserts are compiled in
                    pass
                r2.inst((hname, el.n, cf.name, cel.n), {"fn": cf.name, "site": cel.where(), "write": "%s via %s(%s)" % (what, hname, show(arg)), "justification": ("J6: " + j) if j else None})
                if j is None:
                    r2.bad("K4:%s:helper-%s-on-possibly-immutable-chain" % (cf.name, hname), cel.where(), cf.name,
                           "%s(%s) writes into the chain (%s) but no immutability test of %s dominates the call" % (hname, show(arg), what, show(arg)))
    rules.append(r2)

    # ------------------------------------------------ (a2) reference-holding fields: one reference taken per pointer stored, one dropped per release
    r1b = Rule("C15-refs", "K1", "every pointer stored into a reference-holding chain field takes exactly one reference, tied to the store; the chain's release drops exactly one", floor=6)
    HOLD = {
        "evbuffer_multicast_parent.source": ("call", "evbuffer_incref_", "evbuffer_decref_and_unlock_"),
        "evbuffer_multicast_parent.parent": ("call", "evbuffer_chain_incref", "evbuffer_chain_free"),
        "evbuffer_chain_file_segment.segment": ("incr", "evbuffer_file_segment.refcnt", "evbuffer_file_segment_free"),
    }
    relf = P.fn("evbuffer_chain_free")
    for fld, (kind, acq, rel) in HOLD.items():
        stores = [(f, el, rhs) for f in M.fns for el, lhs, op, rhs in f.stores() if is_e(strip(lhs), "fld") and strip(lhs)[2] == fld and op == "="]
        if not stores:
            r1b.brk("no store into %s found" % fld)
        for f, el, rhs in stores:
            v = strip(rhs)
            if is_e(v, "int") and v[1] == 0:
                continue
            if kind == "call":
                acqs = [x for x in f.calls(acq) if eq(strip(x.e[2][0]), v)]
            else:
                acqs = [x for x, lhs2, op2, rhs2 in f.stores() if op2 == "++" and is_e(strip(lhs2), "fld") and strip(lhs2)[2] == acq and eq(strip(strip(lhs2)[1]), v)]
            tied = [x for x in acqs if f.tied(x, el)]
            r1b.inst((fld, f.name, el.n), {"fn": f.name, "site": el.where(), "store": show(el.e)[:60], "reference_taken_at": [x.where() for x in tied],
                                          "other_acquires": [x.where() for x in acqs if x not in tied]})
            if len(tied) != 1:
                r1b.bad("K1:%s:%s:reference-not-tied-to-store" % (f.name, fld), el.where(), f.name,
                        "%s is stored into %s %s a matching reference being taken with it (%d tied, %d elsewhere): the chain's release will drop one "
                        "reference per chain, so the counts drift" % (show(v), fld, "without" if not tied else "with more than", len(tied), len(acqs) - len(tied)))
        rels = [x for x in relf.calls(rel) if is_e(strip(x.e[2][0]), "fld") and strip(x.e[2][0])[2] == fld]
        r1b.inst((fld, "release"), {"field": fld, "released_in_evbuffer_chain_free": [x.where() for x in rels]})
        if len(rels) != 1:
            r1b.bad("K1:evbuffer_chain_free:%s:release-count" % fld, "%s:%d" % (relf.file, relf.line), relf.name,
                    "the reference held in %s is released %d times when its chain is freed (expected once)" % (fld, len(rels)))
    rules.append(r1b)

    # ------------------------------------------------ (c) dangling owner fields
    r3 = Rule("C15-dangling", "K11", "an owning chain pointer field released while its evbuffer stays live is overwritten before any use", floor=3)
    OWN = ("evbuffer.first",)
    RELEASERS = ("evbuffer_free_all_chains", "evbuffer_chain_free")
    def overwrites(fn, x, owner):
        """does element x (re)define owner->first? directly, or through a callee that stores it before reading it"""
        e = x.e
        if e[0] == "asg":
            l = strip(e[2])
            if is_e(l, "fld") and l[2] in OWN and eq(strip(l[1]), owner):
                return True
            # chained assignment a = b = c
            for q in walk(e[3]):
                if is_e(q, "asg") and is_e(strip(q[2]), "fld") and strip(q[2])[2] in OWN and eq(strip(strip(q[2])[1]), owner):
                    return True
        if e[0] == "call" and callee_name(e) in M.byname:
            g = M.byname[callee_name(e)]
            for i, a in enumerate(e[2]):
                if eq(strip(a), owner) and i < len(g.params):
                    pn = g.params[i][0]
                    # g stores pn->first on every path before reading it?
                    st = [y for y, lhs, op, rhs in g.stores() if is_e(strip(lhs), "fld") and strip(lhs)[2] in OWN and eq(strip(strip(lhs)[1]), ["var", pn, "param"])]
                    if not st:
                        continue
                    def reads(y):
                        if y in st:
                            return False
                        for q in walk(y.e):
                            if is_e(q, "fld") and q[2] in OWN + ("evbuffer.last_with_datap",) and eq(strip(q[1]), ["var", pn, "param"]):
                                # a store's own lhs is not a read
                                if y.e[0] == "asg" and strip(y.e[2]) is q:
                                    continue
                                return True
                        return False
                    # every path from entry reaches a store before a read
                    first_read = g.path_avoiding((g.entry, -1), reads, lambda y: y in st)
                    if first_read is None:
                        return True
        return False
    def uses(fn, x, owner):
        for q in walk(x.e):
            if is_e(q, "fld") and q[2] in OWN and eq(strip(q[1]), owner):
                return True
            if is_e(q, "deref") and is_e(strip(q[1]), "fld") and strip(q[1])[2] == "evbuffer.last_with_datap" and eq(strip(strip(q[1])[1]), owner):
                return True
        if x.e[0] == "call" and callee_name(x.e) in M.byname and any(eq(strip(a), owner) for a in x.e[2]):
            return touches_chains(callee_name(x.e))   # a callee that gets the evbuffer and (itself or through its callees) looks at the chain fields (overwrites() is asked first)
        return False
    _touch = {}

    def touches_chains(name, depth=0):
        if name in _touch:
            return _touch[name]
        _touch[name] = True          # recursion: assume it does
        g = M.byname.get(name)
        res = False
        if g is None or depth > 6:
            res = True
        else:
            for x2 in g.elems():
                if any(is_e(q, "fld") and (q[2] in OWN or q[2] == "evbuffer.last_with_datap") for q in walk(x2.e)):
                    res = True
                    break
                if x2.e[0] == "call" and callee_name(x2.e) in M.byname and callee_name(x2.e) != name and touches_chains(callee_name(x2.e), depth + 1):
                    res = True
                    break
            if not res:
                for b2 in g.branch_blocks():
                    if any(is_e(q, "fld") and (q[2] in OWN or q[2] == "evbuffer.last_with_datap") for q in walk(b2.term["cond"])):
                        res = True
                        break
        _touch[name] = res
        return res
    for f in M.fns:
        for el in f.calls():
            if callee_name(el.e) not in RELEASERS or not el.e[2]:
                continue
            a = strip(el.e[2][0])
            if not (is_e(a, "fld") and a[2] in OWN):
                continue
            owner = strip(a[1])
            # the evbuffer itself is freed afterwards? (destructor) then nothing to check
            def ow(x):
                return overwrites(f, x, owner)
            def freed_owner(x):
                return x.e[0] == "call" and callee_name(x.e) in ("event_mm_free_", "free") and eq(strip(x.e[2][0]), owner)
            w = f.path_avoiding(el.pos(), lambda x: uses(f, x, owner) and not ow(x), lambda x: ow(x) or freed_owner(x))
            r3.inst((f.name, el.n), {"fn": f.name, "site": el.where(), "released": show(a), "use_before_overwrite": repr(w) if w else None})
            if w is not None:
                r3.bad("K11:%s:%s:dangling-after-release" % (f.name, a[2]), el.where(), f.name,
                       "%s is released here and %s still points to it when `%s` (line %d) uses the buffer: use-after-free / double free"
                       % (show(a), show(a), show(w.e)[:60], w.line))
    rules.append(r3)
    # ---- immutability is for the life of the chain
    r5 = Rule("C15-immutable-sticky", "K2", "no store clears EVBUFFER_IMMUTABLE from a chain's flags: memory the buffer does not own stays read-only until the chain is released", floor=3)
    IMM = None
    for f in P.fns_in("buffer.c"):
        for el, lhs, op, rhs in f.stores():
            if fields_of(lhs)[-1:] != ["evbuffer_chain.flags"]:
                continue
            for q in walk(rhs):
                if is_e(q, "int") and len(q) > 2 and q[2] == "EVBUFFER_IMMUTABLE":
                    IMM = q[1]
    if IMM is None:
        r5.brk("EVBUFFER_IMMUTABLE is not set anywhere in buffer.c")
    else:
        for f in P.fns_in("buffer.c"):
            for el, lhs, op, rhs in f.stores():
                if fields_of(lhs)[-1:] != ["evbuffer_chain.flags"]:
                    continue
                clears = None
                if op == "&=":
                    try:
                        m = evalx(rhs, {}, P)
                        clears = isinstance(m, int) and not (m & IMM)
                    except EvalError:
                        clears = None
                r5.inst((f.name, el.n), {"fn": f.name, "site": el.where(), "store": show(el.e)[:70], "clears_immutable": clears}, nontrivial=(op in ("&=", "|=")))
                if clears:
                    r5.bad("K2:%s:clears-immutable" % f.name, el.where(), f.name,
                           "`%s` removes EVBUFFER_IMMUTABLE from a chain: if the chain refers to memory the buffer does not own (evbuffer_add_reference, a file segment, another buffer's chain) later adds/prepends/realigns write into that memory" % show(el.e)[:60])
    rules.append(r5)
    return rules
