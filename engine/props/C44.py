"""C44 — a listener hands every accepted connection to its callback exactly once (K11 fd typestate, K3, K4, K1)."""
from ..core import Rule
from ..prog import *
from ..facts import AnalysisBroken
from ..typestate import exactly_once

UNITS = ["listener"]
LEVEL = "other"
EXPLANATION = ("In the function registered as the listener's accept callback (found through the event_assign registration in evconnlistener_new, "
               "not by name): K11 — every descriptor returned by evutil_accept4_ is, on every path until the next accept or the exit, either passed once "
               "to the user callback (the local loaded from lev->cb) or closed once, never both and never neither; K1 — the temporary reference taken "
               "around the user callback is dropped exactly once on every path; K3 — after the user callback no path reaches the next accept without "
               "passing the `enabled` test on its enabled edge; a non-retriable accept error reaches the error callback when one is set; K4 — the only "
               "close of the listening descriptor is dominated by LEV_OPT_CLOSE_ON_FREE. Decides these on all syntactic paths of the accept loop; "
               "'accepts nothing while disabled' across loop iterations is declined.")
ASSUMPTIONS = ["the user callback takes ownership of the descriptor it is given"]
CONFIGS = ["build", "assert"]


def rule_peer(P, fname="listener_read_cb"):
    """the peer's address: accept(2) reads the length argument as the room it may fill and writes the address length back, so the length handed to every accept must be the size of the
    address buffer again, and the callback must get that buffer and that length"""
    r = Rule("C44-peer", "K1/K8", "every accept is given the full size of the address buffer (the in/out length is set again between two accepts) and the callback gets that buffer and the length accept wrote", floor=2)
    f = P.fn(fname)
    accs = [el for el in f.calls() if callee_name(el.e) in ("evutil_accept4_", "accept", "accept4")]
    if not accs:
        r.brk("no accept call in listener_read_cb")
        return r
    for el in accs:
        a = el.e[2]
        lenarg = strip(a[2]) if len(a) > 2 else None
        bufarg = None
        for q in walk(a[1]):
            if is_e(q, "addr") and is_e(strip(q[1]), "var"):
                bufarg = strip(q[1])
        if not (is_e(lenarg, "addr") and is_e(strip(lenarg[1]), "var")) or bufarg is None:
            r.brk("accept call %s: address/length arguments not recognised" % show(el.e)[:60])
            return r
        lv = strip(lenarg[1])

        def sets_full(x):
            e = x.e
            rhs = None
            if e[0] == "decl" and e[1] == lv[1] and len(e) > 3:
                rhs = e[3]
            elif e[0] == "asg" and e[1] == "=" and eq(strip(e[2]), lv):
                rhs = e[3]
            if rhs is None:
                return False
            return any(is_e(q, "sizeof") for q in walk(rhs)) or (is_e(strip(rhs), "int") and strip(rhs)[1] >= 128)
        # (a) set before the first accept
        first = f.path_avoiding((f.entry, -1), lambda x: x is el, sets_full)
        # (b) set again on every way from one accept to the next
        again = f.path_avoiding(el.pos(), lambda x: x is el, sets_full)
        r.inst(("len", el.n), {"site": el.where(), "call": show(el.e)[:70], "length_variable": lv[1], "full_size_before_first": first is None, "full_size_again_before_next": again is None})
        if first is not None:
            r.bad("K1:listener_read_cb:accept-length-unset", el.where(), f.name, "accept is reached without %s having been set to the size of the address buffer" % lv[1])
        if again is not None:
            r.bad("K1:listener_read_cb:accept-length-stale", el.where(), f.name,
                  "from one accept to the next %s is not set to the size of the address buffer again: it still holds the previous peer's address length, and a longer address is truncated to it (the callback is told the wrong peer)" % lv[1])
        # (c) the callback gets that buffer and that length
        for c in f.calls():
            if isinstance(c.e[1], list) and c.e[1] and c.e[1][0] in ("ptr", "slot") and len(c.e[2]) == 5:
                args = c.e[2]
                if len(args) >= 4:
                    okb = any(is_e(q, "var") and q[1] == bufarg[1] for q in walk(args[2]))
                    okl = any(is_e(q, "var") and q[1] == lv[1] for q in walk(args[3]))
                    r.inst(("cb", c.n), {"site": c.where(), "call": show(c.e)[:80], "address_is_accept_buffer": okb, "length_is_accept_length": okl})
                    if not (okb and okl):
                        r.bad("K8:listener_read_cb:callback-address", c.where(), f.name, "the callback is not given the buffer and length accept filled: %s" % show(c.e)[:80])
    return r


def run(ctx, config):
    P = ctx.prog(UNITS, config)
    rules = []
    # anchor: the function passed to event_assign in evconnlistener_new
    cbs = [r["fn"] for r in P.fnrefs if r["ctx"].get("k") == "arg" and r.get("in") == "evconnlistener_new" and r["ctx"]["callee"][0] == "fn"
           and r["ctx"]["callee"][1] == "event_assign"]
    if len(cbs) != 1:
        raise AnalysisBroken("cannot identify the listener's accept callback (event_assign in evconnlistener_new): %s" % cbs)
    f = P.fn(cbs[0])
    r = Rule("C44-fd", "K11", "each accepted descriptor is handed to the user callback once or closed once on every path", floor=1)
    acc = list(f.calls("evutil_accept4_"))
    if len(acc) != 1:
        r.brk("expected one evutil_accept4_ call in %s" % f.name)
        return [r]
    a = acc[0]
    # result variable and its failure test
    fdv = None
    for nx in f.blocks[a.bid].elems[a.idx + 1:a.idx + 2]:
        if nx.e[0] in ("decl", "asg"):
            fdv = ["var", nx.e[1], "local"] if nx.e[0] == "decl" else strip(nx.e[2])
    if fdv is None:
        r.brk("accept result is not stored")
        return [r]
    test = None
    for b in f.branch_blocks():
        c = strip(b.term["cond"])
        if is_e(c, "bin") and c[1] == "<" and eq(c[2], fdv) and is_e(strip(c[3]), "int") and strip(c[3])[1] == 0 and f.dominates(a.bid, b.id):
            test = b
    if test is None:
        r.brk("no `fd < 0` test of the accept result")
        return [r]
    ok_succ = [s for s, l in test.succ if l == "F"][0]
    # the user callback: a call through a local whose reaching definition is lev->cb
    def user_cb_call(el):
        if el.e[0] != "call" or el.e[1][0] != "ptr":
            return False
        v = strip(el.e[1][1])
        if not is_e(v, "var"):
            return False
        return any(is_e(strip(rhs), "fld") and strip(rhs)[2] == "evconnlistener.cb" for d, rhs in f.var_stores(v[1]))
    def consume(el):
        if el.e[0] != "call":
            return False
        if callee_name(el.e) == "evutil_closesocket" and eq(el.e[2][0], fdv):
            return True
        if user_cb_call(el) and len(el.e[2]) > 1 and eq(el.e[2][1], fdv):
            return True
        return False
    res = exactly_once(f, (ok_succ, -1), consume, lambda el: el is a)
    ncons = sum(1 for el in f.elems() if consume(el))
    r.inst("fd", {"fn": f.name, "acquire": a.where(), "fd": show(fdv), "consume_sites": [el.where() for el in f.elems() if consume(el)],
                  "leaks": [getattr(x, "line", x) for x in res["leaks"]], "doubles": [x.line for x in res["doubles"]]})
    for w in res["leaks"]:
        r.bad("K11:%s:accepted-fd:leak" % f.name, w.where() if hasattr(w, "where") else f.file, f.name,
              "an accepted descriptor reaches %s without being closed or handed to the user callback" % ("the next accept" if w is a else "a return"))
    for w in res["doubles"]:
        r.bad("K11:%s:accepted-fd:double-consume" % f.name, w.where(), f.name, "an accepted descriptor is closed/handed over twice on one path (%s)" % show(w.e)[:60])
    if ncons < 2:
        r.brk("expected at least one close and one hand-over of the accepted descriptor")
    rules.append(r)

    r2 = Rule("C44-ref", "K1", "the reference taken around each user callback is dropped exactly once on every path", floor=2)
    incs = [el for el, lhs, op, rhs in f.stores() if op == "++" and is_e(strip(lhs), "fld") and strip(lhs)[2] == "evconnlistener.refcnt"]
    def dec(el):
        if el.e[0] == "incdec" and el.e[1] == "--" and is_e(strip(el.e[3]), "fld") and strip(el.e[3])[2] == "evconnlistener.refcnt":
            return True
        return el.e[0] == "call" and callee_name(el.e) == "listener_decref_and_unlock"
    for inc in incs:
        res = exactly_once(f, inc.pos(), dec, lambda el: el in incs)
        r2.inst(("ref", inc.n), {"site": inc.where(), "leaks": [getattr(x, "line", x) for x in res["leaks"]], "doubles": [x.line for x in res["doubles"]]})
        for w in res["leaks"]:
            r2.bad("K1:%s:refcnt:not-dropped" % f.name, inc.where(), f.name, "the reference taken at line %d is not dropped on a path to %s" % (inc.line, getattr(w, "line", w)))
        for w in res["doubles"]:
            r2.bad("K1:%s:refcnt:dropped-twice" % f.name, w.where(), f.name, "the reference taken at line %d is dropped twice" % inc.line)
    # a bare `--refcnt` never releases the listener: it is only right where the count is known to stay positive, i.e. under the failed edge of the
    # "is this the last reference" test taken after the user callback (the callback may have called evconnlistener_free)
    for g in P.fns_in("listener.c"):
        if g.name == "listener_decref_and_unlock":
            continue
        for el in g.elems():
            if not (el.e[0] == "incdec" and el.e[1] == "--" and is_e(strip(el.e[3]), "fld") and strip(el.e[3])[2] == "evconnlistener.refcnt"):
                continue
            tests = [b for b in g.branch_blocks() if is_e(strip(b.term["cond"]), "bin") and strip(b.term["cond"])[1] == "==" and
                     is_e(strip(strip(b.term["cond"])[2]), "fld") and strip(strip(b.term["cond"])[2])[2] == "evconnlistener.refcnt" and
                     is_e(strip(strip(b.term["cond"])[3]), "int") and strip(strip(b.term["cond"])[3])[1] == 1]
            ok = False
            for b in tests:
                fs = [s_ for s_, l in b.succ if l == "F"]
                if not fs or not g.dominates(fs[0], el.bid):
                    continue
                # no user callback between the test and the decrement
                stale = g.path_avoiding((fs[0], -1), lambda x: x is el, lambda x: False)
                cb_between = g.path_avoiding((fs[0], -1), lambda x: user_cb_call(x), lambda x: x is el)
                if cb_between is None or not g.dominates(fs[0], cb_between.bid) or g.path_avoiding(cb_between.pos(), lambda x: x is el, lambda x: False) is None:
                    ok = True
            r2.inst(("raw", g.name, el.n), {"fn": g.name, "site": el.where(), "under_not_last_reference_test": ok})
            if not ok:
                r2.bad("K4:%s:refcnt:bare-decrement-may-be-last" % g.name, el.where(), g.name,
                       "--refcnt without having established that another reference remains (refcnt == 1 must have failed since the last user callback): if the callback freed the listener this drops the last reference without destroying it — the socket and the listener leak")
    rules.append(r2)

    r3 = Rule("C44-order", "K3/K4", "enabled is re-tested after each user callback; non-retriable errors reach errorcb; listening fd closed only under CLOSE_ON_FREE", floor=4)
    cbcalls = [el for el in f.elems() if user_cb_call(el)]
    en_blocks = [b for b in f.branch_blocks() if any(is_e(q, "fld") and q[2] == "evconnlistener.enabled" for q in walk(b.term["cond"]))]
    for c in cbcalls:
        reach = f.reach_blocks(c.bid, avoid_blocks=set(b.id for b in en_blocks))
        # reach from the *continuation* of the call: if accept is in the same block before the call, it does not count
        bad = a.bid in (reach - {c.bid}) or (a.bid == c.bid and a.idx > c.idx)
        r3.inst(("enabled", c.n), {"site": c.where(), "enabled_tests": ["%s:%d" % (f.file, b.term["loc"][0]) for b in en_blocks], "accept_reachable_without_test": bad})
        if bad or not en_blocks:
            r3.bad("K3:%s:accept-after-callback-without-enabled-test" % f.name, c.where(), f.name,
                   "after the user callback the loop can reach the next accept without testing lev->enabled (a callback that disabled the listener would still get connections)")
    for b in en_blocks:
        c, t = negate_truth(b.term["cond"], True)
        # edge on which enabled is false must not reach accept
        lab_disabled = "T" if not t else "F"
        s = [x for x, l in b.succ if l == lab_disabled]
        if s and a.bid in f.reach_blocks(s[0]):
            r3.bad("K3:%s:disabled-edge-reaches-accept" % f.name, "%s:%d" % (f.file, b.term["loc"][0]), f.name, "the `not enabled` edge continues accepting")
    # error callback
    def err_cb_call(el):
        if el.e[0] != "call" or el.e[1][0] != "ptr":
            return False
        v = strip(el.e[1][1])
        return is_e(v, "var") and any(is_e(strip(rhs), "fld") and strip(rhs)[2] == "evconnlistener.errorcb" for d, rhs in f.var_stores(v[1]))
    fail_succ = [s for s, l in test.succ if l == "T"][0]
    ecalls = [el for el in f.elems() if err_cb_call(el)]
    r3.inst("errorcb", {"calls": [e.where() for e in ecalls]})
    if not ecalls:
        r3.bad("K3:%s:errorcb-never-invoked" % f.name, "%s:%d" % (f.file, f.line), f.name, "no invocation of the error callback")
    else:
        # from the accept-failed edge, a path to exit that avoids errorcb must pass the retriable test's true edge or the errorcb==NULL edge
        retri = [b for b in f.branch_blocks() if b.id in f.reach_blocks(fail_succ) and b.term.get("mac") and any("RETRIABLE" in m for m in b.term["mac"])]
        nullt = [b for b in f.branch_blocks() if any(is_e(q, "fld") and q[2] == "evconnlistener.errorcb" for q in walk(b.term["cond"]))]
        cut = set()
        for b in nullt:
            c, t = negate_truth(b.term["cond"], True)
            lab_null = "F" if t else "T"
            cut |= set((b.id, s) for s, l in b.succ if l == lab_null)
        for b in retri:
            # whichever edge returns immediately is the retriable one: cut edges whose target cannot reach an errorcb call
            for s, l in b.succ:
                if not any(e.bid in f.reach_blocks(s) for e in ecalls):
                    cut.add((b.id, s))
        reach = f.reach_blocks(fail_succ, avoid_blocks=set(e.bid for e in ecalls), avoid_edges=cut)
        bad = f.exit in reach
        reachable_cb = any(e.bid in f.reach_blocks(fail_succ) for e in ecalls)
        r3.inst("error-path", {"retriable_tests": len(retri), "null_tests": len(nullt), "exit_reachable_without_errorcb": bad, "errorcb_reachable_from_failed_accept": reachable_cb})
        if bad or not retri or not reachable_cb:
            r3.bad("K3:%s:error-not-reported" % f.name, "%s:%d" % (f.file, test.term["loc"][0]), f.name,
                   "a non-retriable accept error can reach the exit without invoking a non-NULL error callback")
    # closes of the listening descriptor
    for g in P.fns_in("listener.c"):
        for el in g.calls("evutil_closesocket"):
            arg = strip(el.e[2][0])
            if g is f and eq(arg, fdv):
                continue
            gs = [negate_truth(c, t) for c, t, _ in g.guards_at(el.bid)]
            ok = any(t and is_e(strip(c), "bin") and strip(c)[1] == "&" and is_e(strip(strip(c)[3]), "int") and "CLOSE_ON_FREE" in (strip(strip(c)[3])[2] if len(strip(strip(c)[3])) > 2 else "") for c, t in gs)
            in_ctor = g.name.startswith("evconnlistener_new")
            r3.inst(("close", g.name, el.n), {"fn": g.name, "site": el.where(), "closes": show(arg), "under_CLOSE_ON_FREE": ok, "constructor_error_path": in_ctor})
            if not ok and not in_ctor:
                r3.bad("K4:%s:listening-fd-closed-unconditionally" % g.name, el.where(), g.name, "closes %s without the LEV_OPT_CLOSE_ON_FREE test" % show(arg))
    rules.append(r3)
    rules.append(rule_peer(P, f.name))
    return rules
