"""C14 — failed evbuffer operations leave the buffer unchanged (K5 ATOMIC + K12 ERRPROP over buffer.c)."""
from ..core import Rule
from ..prog import *
from ..facts import AnalysisBroken
from .. import bufmodel
from .. import evbmodel

UNITS = ["buffer"]
LEVEL = "other"
EXPLANATION = ("K5/K12 over every function of buffer.c. The set of allocation-fallible functions is inferred by fixpoint from the allocator roots "
               "(event_mm_malloc_/calloc_/realloc_/strdup_): a function is fallible when the failure edge of a fallible callee reaches a return of a "
               "failure value (constant propagation along that edge). For every call site of a fallible function: (M3) its result is tested or returned; "
               "(M1) if the failure edge leads to a failure return, no content-visible commit — a store to total_len, n_add_for_cb, n_del_for_cb or a live "
               "chain's off, directly or through a committing callee — can execute before the call on any path (objects allocated in the same function are not "
               "live; a frozen list of benign callees such as inserting an empty chain is excluded); (M2) the failure edge returns a failure value, and a void "
               "helper must not swallow an allocation failure after committing. Decides all-or-nothing on allocation-failure paths for all syntactic paths; "
               "does not decide 'no inconsistency later' nor failures other than allocation/frozen/overflow rejections.")
ASSUMPTIONS = ["the only fallible primitives are the mm_* allocator entry points and what propagates them",
               "a store to a commit field of an object allocated in the same function is not content-visible"]
CONFIGS = ["build", "assert", "nomm"]

# partial-progress APIs: report exactly how much was added instead of failing (documented), so commits before a later failure are fine
PARTIAL_PROGRESS_OK = {
    "evbuffer_add_iovec": "returns the number of bytes successfully written (event2/buffer.h); `res` counts only completed adds",
}


def run(ctx, config):
    P = ctx.prog(UNITS, config)
    B = bufmodel.BufModel(P)
    F = B.F
    rules = []
    r1 = Rule("C14-atomic", "K5", "no content-visible commit precedes a fallible call whose failure is reported as failure", floor=30)
    r2 = Rule("C14-failvalue", "K5", "every allocation-failure edge returns the function's failure value; void helpers do not swallow failures after committing", floor=30)
    r3 = Rule("C14-checked", "K12", "the result of every fallible call is tested or returned", floor=38)
    for (fname, n), site in sorted(F.sites.items()):
        fn, c = site["fn"], site["call"]
        callee = callee_name(c.e)
        rets = F.failure_returns(fn, site["block"], site["label"])
        isptr = fn.ret.strip().endswith("*")
        isvoid = fn.ret.strip() == "void"
        vals = [(r_, v, e_) for r_, v, e_ in rets]
        fail_ret = [x for x in vals if x[1] is not None and ((isptr and x[1] == 0) or (not isptr and x[1] < 0))]
        succ_ret = [x for x in vals if x[1] is not None and not ((isptr and x[1] == 0) or (not isptr and x[1] < 0))]
        pre = []
        for el, why in B.commits_in(fn):
            if el is c:
                continue
            if fn.path_avoiding(el.pos(), lambda x: x is c, lambda x: False) is not None:
                if el.bid != c.bid and fn.contradictory(el.bid, c.bid):
                    continue   # e.g. commit under `tmp != NULL`, call under `tmp == NULL`, tmp not reassigned in between
                pre.append((el, why))
        sample = {"fn": fname, "site": c.where(), "callee": callee, "failure_edge": "%s of `%s`" % (site["label"], show(site["block"].term["cond"])[:50]),
                  "failure_returns": sorted(set(str(v) for _, v, _ in vals)), "commits_before": [(e.line, w) for e, w in pre][:4]}
        r1.inst((fname, c.n), sample)
        r2.inst((fname, c.n), sample)
        r3.inst((fname, c.n), {"fn": fname, "site": c.where(), "callee": callee, "tested_at": "%s:%d" % (fn.file, site["block"].term["loc"][0])})
        if pre and fail_ret and fname not in PARTIAL_PROGRESS_OK:
            el, why = pre[0]
            r1.bad("K5:%s:commit-before-fallible:%s" % (fname, callee), c.where(), fname,
                   "%s at line %d (and %d more) can execute before %s fails; the failure edge returns %s with the buffer already modified"
                   % (why, el.line, len(pre) - 1, callee, sorted(set(v for _, v, _ in fail_ret))),
                   "entry -> %s@%d -> %s fails@%d -> return@%d" % (why, el.line, callee, c.line, fail_ret[0][0].line))
        if isvoid:
            if pre or any(True for el, why in B.commits_in(fn)):
                # a void function with an allocation failure edge that simply returns: callers cannot know
                early = [x for x in vals]
                if early or True:
                    r2.bad("K5:%s:alloc-failure-swallowed" % fname, c.where(), fname,
                           "%s fails inside a void helper that commits content (%s): the failure cannot be reported, callers account and return success"
                           % (callee, [w for _, w in B.commits_in(fn)][:2]))
        elif succ_ret and not fail_ret and fname not in PARTIAL_PROGRESS_OK:
            r2.bad("K5:%s:failure-reported-as-success:%s" % (fname, callee), c.where(), fname,
                   "the failure edge of %s returns %s (a success value)" % (callee, sorted(set(v for _, v, _ in succ_ret))))
    for (fname, n), el in sorted(F.unchecked.items()):
        r3.inst((fname, el.n), {"fn": fname, "site": el.where(), "callee": callee_name(el.e), "tested_at": None})
        fn = B.byname[fname]
        # is a later commit dependent on it? report any ignored fallible result in a committing function
        r3.bad("K12:%s:unchecked:%s" % (fname, callee_name(el.e)), el.where(), fname,
               "result of fallible %s is ignored; the function goes on as if it had succeeded" % callee_name(el.e))
    for k in sorted(F.propagated):
        r3.inst(k, None)
    # ---- after releasing chains inside a loop every exit re-links the list (also on the failure exits)
    r4 = Rule("C14-relink", "K11", "after chains were released every path to an exit repairs the link that pointed to them", floor=4)
    for fn in B.fns:
        if fn.name in ("evbuffer_chain_free", "evbuffer_free_all_chains", "evbuffer_decref_and_unlock_"):
            continue
        for el in fn.calls():
            if callee_name(el.e) not in B.RELEASERS:
                continue
            arg = strip(el.e[2][0]) if el.e[2] else None
            # already unlinked: the link was repaired earlier in the same block, or the chain is a DANGLING (off-list) one
            before = any(B.is_link_repair(x) for x in fn.blocks[el.bid].elems[:el.idx])
            dangling = any(t and any(is_e(q, "int") and "DANGLING" in (q[2] if len(q) > 2 else "") for q in walk(c))
                           for c, t in (negate_truth(c2, t2) for c2, t2, _ in fn.guards_at(el.bid)))
            if before or dangling:
                r4.inst((fn.name, el.n), {"fn": fn.name, "site": el.where(), "released": show(arg),
                                          "already_unlinked": "link repaired earlier in the block" if before else "EVBUFFER_DANGLING chain is off the list"})
                continue
            w = fn.exit_reachable_avoiding(el.pos(), B.is_link_repair)
            r4.inst((fn.name, el.n), {"fn": fn.name, "site": el.where(), "released": show(arg), "repaired_on_every_exit": w is None,
                                      "witness": getattr(w, "line", None)})
            if w is not None:
                r4.bad("K11:%s:link-not-repaired-after-release" % fn.name, el.where(), fn.name,
                       "%s is released here but the path returning at line %s never re-links or resets the list: a `next`/`first` pointer keeps "
                       "pointing at freed memory" % (show(arg), getattr(w, "line", "end")))
    rules.append(r4)
    r1.notes.append("fallible functions inferred: %s" % sorted(k for k in F.fallible if k in B.byname))
    r1.notes.append("committing functions inferred: %s" % sorted(B.committing))
    rules += [r1, r2, r3]
    rules.append(evbmodel.rule_oom(P, "C14-alloc-failure"))
    return rules
