"""C38 — asynchronous getaddrinfo: source precedence and callback/return agreement by evaluation of evdns_getaddrinfo (K6/K3), port stamping of copied answers (K3)."""
import re
from ..core import Rule
from ..prog import *
from ..facts import AnalysisBroken
from ..interp import normx, nkey, run_all

UNITS = ["evdns"]
LEVEL = "other"
CONFIGS = ["build", "assert"]
EXPLANATION = (
    "A1: evdns_getaddrinfo is evaluated from its extracted CFG on every combination of (base given / default / none, AI_NUMERICHOST, outcome of the literal/NULL-node "
    "resolution, hosts-file outcome, cache enabled and its outcome, allocation failure, address family hint, whether each launched query could be started): the "
    "sources are consulted in the documented order — numeric-host shortcut, then literal/NULL node (never reaches a query), then the hosts file (a hit answers and "
    "returns), then the cache unless disabled, and only then queries: an A query iff the family is not PF_INET6, an AAAA query iff it is not PF_INET; the user "
    "callback runs exactly once when NULL is returned and not at all when a request handle is returned, with the documented error codes (FAIL without a base or when "
    "nothing could be started, MEMORY on allocation failure, the source's own result otherwise). A2: every address copied out of the hosts file or the cache is stamped "
    "with the request's port on every path before it is appended to the answer (port 0 included: cached/host entries carry the port of whoever stored them). "
    "Declined: the returned address sets, canonical names and TTL-bounded cache contents as data.")
ASSUMPTIONS = ["evutil_getaddrinfo_common_ returns EVUTIL_EAI_NEED_RESOLVE exactly when a network lookup is required"]

NEED = -90002        # EVUTIL_EAI_NEED_RESOLVE
NUMERICHOST = 0x0004


def rule_precedence(P):
    r = Rule("C38-precedence", "K6/K3", "evdns_getaddrinfo: source order, query launch by family, exactly-one callback iff NULL returned", floor=50)
    f = P.fn("evdns_getaddrinfo")
    enumv = {}
    for e in P.enums.values():
        for n, v in e["items"]:
            enumv[n] = v
    basep = f.params[0][0]
    hin = ["var", f.params[3][0], "param"]
    kflags_in = nkey(["fld", hin, "addrinfo.ai_flags", "->"])
    hints = ["var", "hints", "local"]
    kfam = nkey(["fld", hints, "addrinfo.ai_family", "."])
    kfl = nkey(["fld", hints, "addrinfo.ai_flags", "."])
    kdis = None
    data = ["var", "data", "local"]
    k4 = nkey(["fld", ["fld", data, "evdns_getaddrinfo_request.ipv4_request", "->"], "getaddrinfo_subrequest.r", "."])
    k6 = nkey(["fld", ["fld", data, "evdns_getaddrinfo_request.ipv6_request", "->"], "getaddrinfo_subrequest.r", "."])
    # find NEED_RESOLVE constant as spelled in the function
    need = None
    for b in f.branch_blocks():
        for q in walk(b.term["cond"]):
            if is_e(q, "int") and len(q) > 2 and q[2] and "NEED_RESOLVE" in q[2]:
                need = q[1]
    if need is None:
        r.brk("EVUTIL_EAI_NEED_RESOLVE test not found in evdns_getaddrinfo")
        return r
    PF_INET, PF_INET6, PF_UNSPEC = 2, 10, 0
    ADDRFAMILY = None
    for b in f.branch_blocks():
        for q in walk(b.term["cond"]):
            if is_e(q, "int") and len(q) > 2 and q[2] and "ADDRFAMILY" in q[2]:
                ADDRFAMILY = q[1]
    nbad = 0
    combos = []
    for base in ("given", "default", "none"):
        for numeric in (0, 1):
            for common in ("need", 0, -2):
                for hosts in (-1, 0, "af"):
                    for cache_on in (0, 1):
                        for cache in (-1, 0):
                            for fam in (PF_UNSPEC, PF_INET, PF_INET6):
                                for alloc_ok in (1, 0):
                                    for start in ((1, 1), (0, 0), (1, 0)):
                                        combos.append((base, numeric, common, hosts, cache_on, cache, fam, alloc_ok, start))
    # prune irrelevant dimensions to keep the run short: vary later dimensions only when the earlier ones let the flow get there
    seen = set()
    for (base, numeric, common, hosts, cache_on, cache, fam, alloc_ok, start) in combos:
        if base == "none":
            k_ = ("none",)
        elif numeric:
            k_ = (base, "numeric")
        elif common != "need":
            k_ = (base, "common", common)
        elif hosts != -1:
            k_ = (base, "hosts", hosts)
        elif cache_on and cache != -1:
            k_ = (base, "cache", cache)
        elif not alloc_ok:
            k_ = (base, "alloc", cache_on)
        else:
            k_ = (base, "query", cache_on, fam, start)
        if k_ in seen:
            continue
        seen.add(k_)
        env = {basep: 0 if base != "given" else 1, "current_base": 1 if base == "default" else 0, f.params[1][0]: 1, f.params[2][0]: 1, hin[1]: 1, kflags_in: NUMERICHOST if numeric else 0,
               kfam: fam, kfl: 0, f.params[4][0]: 1, f.params[5][0]: 1, k4: 0, k6: 0}
        for root in (["var", basep, "param"],):
            env[nkey(["fld", root, "evdns_base.disable_cache", "->"])] = 0 if cache_on else 1
            env[nkey(["fld", root, "evdns_base.lock", "->"])] = 0
        def hook(el, e_):
            n = callee_name(el.e)
            tag = None
            if el.e[1][0] == "ptr" and is_e(strip(el.e[1][1]), "var") and strip(el.e[1][1])[1] == f.params[4][0]:
                try:
                    err = evalx(normx(el.e[2][0]), e_, P)
                except EvalError:
                    err = "?"
                e_["#cb"] = e_.get("#cb", ()) + (err,)
                return 0
            if n == "evutil_getaddrinfo":
                tag = "numeric"
                e_["#seq"] = e_.get("#seq", ()) + (tag,)
                return 0
            if n == "evutil_getaddrinfo_common_":
                e_["#seq"] = e_.get("#seq", ()) + ("common",)
                return need if common == "need" else common
            if n == "evdns_getaddrinfo_fromhosts":
                e_["#seq"] = e_.get("#seq", ()) + ("hosts",)
                return ADDRFAMILY if hosts == "af" else hosts
            if n == "evdns_cache_lookup":
                e_["#seq"] = e_.get("#seq", ()) + ("cache",)
                return cache
            if n == "event_mm_calloc_":
                return 1 if alloc_ok else 0
            if n == "event_mm_strdup_":
                return 1
            if n == "evdns_base_resolve_ipv4":
                e_["#seq"] = e_.get("#seq", ()) + ("A",)
                return 1 if start[0] else 0
            if n == "evdns_base_resolve_ipv6":
                e_["#seq"] = e_.get("#seq", ()) + ("AAAA",)
                return 1 if start[1] else 0
            if n == "free_getaddrinfo_request":
                e_["#freed"] = 1
                return 0
            if n in ("memcpy", "memset", "__builtin_memcpy", "__builtin___memcpy_chk", "__builtin___memset_chk", "evutil_adjust_hints_for_addrconfig_", "evdns_log_", "event_assign"):
                return 0
            return None
        outs = run_all(f, (f.entry, 0), env, lambda el: False, P, hook, max_steps=2500)
        for o in outs:
            if o.kind == "exit" and o.why == "noreturn":
                continue
            if o.kind != "ret":
                r.brk("evdns_getaddrinfo %s: %s %s" % (k_, o.kind, o.why))
                return r
            try:
                ret = evalx(normx(o.at.e[1]), o.env, P)
            except EvalError:
                ret = "handle" if is_e(strip(o.at.e[1]), "var") else None
            if ret not in (0, None, "handle"):
                ret = "handle"
            seq = list(o.env.get("#seq", ()))
            cbs = list(o.env.get("#cb", ()))
            # model
            FAIL = enumv.get("EVUTIL_EAI_FAIL")
            if base == "none":
                wseq, wcb, wret = [], ["FAIL"], 0
            elif numeric:
                wseq, wcb, wret = ["numeric"], [0], 0
            elif common != "need":
                wseq, wcb, wret = ["common"], [common], 0
            elif hosts != -1:
                wseq, wcb, wret = ["common", "hosts"], [ADDRFAMILY if hosts == "af" else 0], 0
            elif cache_on and cache != -1:
                wseq, wcb, wret = ["common", "hosts", "cache"], [0], 0
            else:
                wseq = ["common", "hosts"] + (["cache"] if cache_on else [])
                if not alloc_ok:
                    wcb, wret = ["MEMORY"], 0
                else:
                    q = []
                    started = False
                    if fam != PF_INET6:
                        q.append("A")
                        started = started or bool(start[0])
                    if fam != PF_INET:
                        q.append("AAAA")
                        started = started or bool(start[1])
                    wseq = wseq + q
                    if started:
                        wcb, wret = [], "handle"
                    else:
                        wcb, wret = ["FAIL"], 0
            def cbok(got, want):
                if len(got) != len(want):
                    return False
                for g_, w_ in zip(got, want):
                    if w_ in ("FAIL", "MEMORY"):
                        if not isinstance(g_, int) or g_ >= 0:
                            return False
                    elif g_ != w_:
                        return False
                return True
            r.inst(k_, {"case": [str(x) for x in k_], "sequence": seq, "callback_errors": cbs, "returns": ret})
            if (seq != wseq or not cbok(cbs, wcb) or ret != wret) and nbad < 4:
                nbad += 1
                r.bad("K6:evdns_getaddrinfo:precedence", "%s:%d" % (f.file, f.line), f.name,
                      "case %s: consults %s, callback invoked with %s, returns %s; documented %s, callback %s, returns %s" % (list(k_), seq, cbs, ret, wseq, wcb, wret))
    return r


def rule_port(P):
    r = Rule("C38-port", "K3", "every copied hosts/cache address is stamped with the request's port before it is appended", floor=2)
    for name in ("evdns_cache_lookup", "evdns_getaddrinfo_fromhosts"):
        f = P.fn(name)
        portp = [n for n, t in f.params if n == "port"]
        news = [el for el in f.calls("evutil_new_addrinfo_")]
        apps = [el for el in f.calls("evutil_addrinfo_append_")]
        sets = [el for el in f.calls("sockaddr_setport") if portp and eq(strip(el.e[2][1]), ["var", portp[0], "param"])]
        if not news or not apps:
            r.brk("%s: evutil_new_addrinfo_/evutil_addrinfo_append_ not found" % name)
            continue
        for nw in news:
            for ap in apps:
                if f.path_avoiding(nw.pos(), lambda x: x is ap, lambda x: False) is None:
                    continue
                w = f.path_avoiding(nw.pos(), lambda x: x is ap, lambda x: x in sets)
                r.inst((name, nw.n, ap.n), {"fn": name, "created": nw.where(), "appended": ap.where(), "setport_sites": [s.where() for s in sets], "append_reachable_without_setport": bool(w)})
                if w is not None or not sets:
                    r.bad("K3:%s:port-not-stamped" % name, ap.where(), name,
                          "an address copied from the %s can be appended to the answer without sockaddr_setport(.., port) on some path: it keeps the port of whoever stored it (e.g. a later request with port 0 gets the earlier request's port)" % ("cache" if "cache" in name else "hosts file"))
    return r


def rule_cachettl(P):
    r = Rule("C38-cachettl", "K3/K8", "every store of addresses into a cache entry is followed by arming that entry's expiry timer with the answer's TTL", floor=1)
    f = P.fn("evdns_cache_write")
    ttlp = [n for n, t in f.params if n == "ttl"]
    sts = [el for el, lhs, op, rhs in f.stores() if fields_of(lhs)[-1:] == ["evdns_cache.ai"]]
    adds = [el for el in f.calls() if callee_name(el.e) in ("event_add", "evtimer_add") and any(is_e(q, "fld") and q[2] == "evdns_cache.ev_timeout" for q in walk(el.e[2][0]))]
    for st in sts:
        w = f.exit_reachable_avoiding(st.pos(), lambda x: x in adds)
        tv_ok = False
        for a in adds:
            tv = strip(a.e[2][1])
            tvv = strip(tv[1]) if is_e(tv, "addr") else tv
            if is_e(tvv, "var") and ttlp:
                tv_ok = tv_ok or any(op == "=" and root_var(lhs) is not None and root_var(lhs)[1] == tvv[1] and fields_of(lhs)[-1:] == ["timeval.tv_sec"] and eq(strip(rhs), ["var", ttlp[0], "param"])
                                     for el, lhs, op, rhs in f.stores())
        r.inst(("store", st.n), {"site": st.where(), "timer_armed_after": [a.where() for a in adds], "exit_without_arming": bool(w), "with_answer_ttl": tv_ok})
        if w is not None or not adds or not tv_ok:
            r.bad("K3:evdns_cache_write:entry-without-expiry", st.where(), f.name,
                  "addresses are stored into a cache entry on a path that does not (re-)arm the entry's expiry timer with this answer's TTL: the entry outlives the TTL of what it holds")
    if not sts:
        r.brk("no store to evdns_cache.ai in evdns_cache_write")
    return r


def rule_union(P):
    """evdns_getaddrinfo_gotresolve as a decision table: which sub-request answered x what it answered x the state of the other one.  The user hears the union of both families:
    nothing is reported (and the other request is left alone) while the other family is still out; the answers are kept, in A-before-AAAA order; an error of one family is dropped
    when the other has answers; what is cached lives no longer than the shorter of the two TTLs."""
    r = Rule("C38-union", "K6", "getaddrinfo merge: no report and no cancellation while the other family is pending; union of both answers, A first; an error yields to answers; cache TTL = the shorter of the two", floor=40)
    f = P.fn("evdns_getaddrinfo_gotresolve")
    C = {}
    for g in P.fns_in("evdns.c"):
        for x in [el.e for el in g.elems()] + [b.term["cond"] for b in g.branch_blocks()]:
            for q in walk(x):
                if is_e(q, "int") and len(q) > 2 and isinstance(q[2], str) and re.match(r"^(DNS_ERR_|DNS_IPv|EVUTIL_EAI_)", q[2]):
                    C.setdefault(q[2], q[1])
    for e in P.enums.values():
        for n, v in e["items"]:
            C.setdefault(n, v)
    need = ("DNS_ERR_NONE", "DNS_ERR_NOTEXIST", "DNS_ERR_SERVERFAILED", "DNS_IPv4_A", "DNS_IPv6_AAAA", "EVUTIL_EAI_NODATA")
    if any(n not in C for n in need):
        r.brk("constants not found: %s" % [n for n in need if n not in C])
        return r
    result_p, type_p, count_p, ttl_p, addr_p, arg_p = [x[0] for x in f.params]
    reqv, othv, datav = ["var", "req", "local"], ["var", "other_req", "local"], ["var", "data", "local"]
    K = lambda v, fl: nkey(["fld", v, fl, "->"])
    base_lock = nkey(["fld", ["fld", datav, "evdns_getaddrinfo_request.evdns_base", "->"], "evdns_base.lock", "->"])
    nocache = nkey(["fld", ["fld", datav, "evdns_getaddrinfo_request.evdns_base", "->"], "evdns_base.disable_cache", "->"])
    answers = [("answer", C["DNS_ERR_NONE"], 2), ("nodata", C["DNS_ERR_NONE"], 0), ("nxdomain", C["DNS_ERR_NOTEXIST"], 0), ("servfail", C["DNS_ERR_SERVERFAILED"], 0)]
    others = [("pending", 5, 0, 0), ("never-started-or-done-empty", 0, 0, 0), ("done-with-answers", 0, 800, 0), ("done-with-error", 0, 0, C["EVUTIL_EAI_NODATA"])]
    for typ in ("DNS_IPv4_A", "DNS_IPv6_AAAA"):
        for aname, result, count in answers:
            for oname, other_r, pend_res, pend_err in others:
                for ttl, pttl in ((60, 300), (300, 60)):
                    env = {"#typed": 1, "event_debug_logging_mask_": 0, result_p: result, type_p: C[typ], count_p: count, ttl_p: ttl, addr_p: 70, arg_p: 7, "#ops": (),
                           K(reqv, "getaddrinfo_subrequest.type"): C[typ], K(othv, "getaddrinfo_subrequest.r"): other_r, K(datav, "evdns_getaddrinfo_request.user_canceled"): 0,
                           K(datav, "evdns_getaddrinfo_request.user_cb"): 9, K(datav, "evdns_getaddrinfo_request.pending_result"): pend_res, K(datav, "evdns_getaddrinfo_request.pending_error"): pend_err,
                           K(datav, "evdns_getaddrinfo_request.pending_result_ttl"): pttl, K(datav, "evdns_getaddrinfo_request.evdns_base"): 3, base_lock: 0, nocache: 0,
                           K(datav, "evdns_getaddrinfo_request.port"): 80, K(datav, "evdns_getaddrinfo_request.user_data"): 0, K(datav, "evdns_getaddrinfo_request.nodename"): 0}

                    def hook(el, e_):
                        n = callee_name(el.e)
                        a = el.e[2]
                        sl = el.e[1][1].split(".")[-1] if isinstance(el.e[1], list) and el.e[1] and el.e[1][0] == "slot" else None
                        def op(x):
                            e_["#ops"] = e_["#ops"] + (x,)
                        try:
                            if sl == "user_cb":
                                op(("user_cb", evalx(normx(a[0]), e_, P), evalx(normx(a[1]), e_, P)))
                                return 0
                            if sl in ("lock", "unlock"):
                                return 0
                            if n in ("evdns_err_to_getaddrinfo_err", "getaddrinfo_merge_err", "evdns_result_is_answer"):
                                return "inline"
                            if n == "evdns_cancel_request":
                                op(("cancel-other",))
                                return 0
                            if n == "evdns_getaddrinfo_set_timeout":
                                op(("wait",))
                                return 0
                            if n == "free_getaddrinfo_request":
                                op(("free",))
                                return 0
                            if n == "evdns_cache_write":
                                op(("cache", evalx(normx(a[2]), e_, P), evalx(normx(a[3]), e_, P)))
                                return 0
                            if n == "evutil_new_addrinfo_":
                                return 500
                            if n == "evutil_addrinfo_append_":
                                x, y = evalx(normx(a[0]), e_, P), evalx(normx(a[1]), e_, P)
                                if y == 500:
                                    return 700          # this family's own list
                                return ("merged", x, y)
                            if n in ("memcpy", "memset", "add_cname_to_reply", "evutil_freeaddrinfo", "__builtin_memcpy", "__builtin_memset", "__builtin___memcpy_chk", "__builtin___memset_chk"):
                                return 0
                            if n in ("htons", "__bswap_16"):
                                return evalx(normx(a[0]), e_, P)
                        except EvalError as ex:
                            e_["#err"] = str(ex)
                            return "impure"
                        return None
                    outs = [o for o in run_all(f, (f.entry, 0), env, lambda el: False, P, hook, max_steps=3000) if not (o.kind == "exit" and o.why == "noreturn")]
                    for o in outs:
                        if o.kind == "unknown":
                            r.brk("evdns_getaddrinfo_gotresolve(%s %s, other %s): %s %s" % (typ, aname, oname, o.why, o.env.get("#err", "")))
                            return r
                        ops = list(o.env["#ops"])
                        cbs = [x for x in ops if x[0] == "user_cb"]
                        r.inst((typ, aname, oname, ttl, pttl), {"answered": typ, "with": aname, "other_family": oname, "ttl": ttl, "pending_ttl": pttl, "actions": [[str(y) for y in x] for x in ops]})
                        bad = None
                        mine = 700 if aname == "answer" else None
                        if oname == "pending":
                            if cbs or ("cancel-other",) in ops:
                                bad = ("reported-early", "the other family is still out, yet: %s (its answer could still arrive: the union would lose it)" % ops)
                            elif ("wait",) not in ops:
                                bad = ("no-wait", "nothing waits for the other family: %s" % ops)
                            elif mine and o.env.get(K(datav, "evdns_getaddrinfo_request.pending_result")) != 700:
                                bad = ("answers-not-kept", "this family's answers are not kept for the merge")
                        else:
                            if len(cbs) != 1:
                                bad = ("callbacks", "%d user callbacks: %s" % (len(cbs), ops))
                            else:
                                _, err, res = cbs[0]
                                have = [x for x in ((700 if mine else None), (800 if pend_res else None)) if x]
                                if have:
                                    if len(have) == 2:
                                        want = ("merged", 700, 800) if typ == "DNS_IPv4_A" else ("merged", 800, 700)
                                    else:
                                        want = have[0]
                                    if err != 0 or res != want:
                                        bad = ("union", "reports error %r, list %r; expected success with %r (both families' answers, A first)" % (err, res, want))
                                    else:
                                        cw = [x for x in ops if x[0] == "cache"]
                                        lim = min(ttl, pttl) if len(have) == 2 else (ttl if mine else pttl)
                                        if not cw or cw[0][1] != want:
                                            bad = ("cache", "the reported list is not what is cached: %s" % cw)
                                        elif cw[0][2] > lim:
                                            bad = ("cache-ttl", "the merged answer is cached for %d s; the shorter of the two TTLs is %d s (a cached answer would outlive the TTL of part of it)" % (cw[0][2], lim))
                                elif err == 0 or res not in (0, None):
                                    bad = ("error", "no family answered, yet reports %r with list %r" % (err, res))
                        if bad:
                            r.bad("K6:evdns_getaddrinfo_gotresolve:%s" % bad[0], "%s:%d" % (f.file, f.line), f.name, "%s answers %s (ttl %d), other family %s (ttl %d): %s" % (typ, aname, ttl, oname, pttl, bad[1]))
    seen, uniq = set(), []
    for f_ in r.findings:
        if f_.key not in seen:
            seen.add(f_.key)
            uniq.append(f_)
    r.findings = uniq
    return r


def rule_hosts_eval(P):
    """what the hosts table says about a name, by evaluation: a name that is in the table never goes to DNS - if none of its addresses has the wanted family the answer is an address-family
    error at once, not 'not in hosts'"""
    from ..interp import normx, nkey, run_all
    r = Rule("C38-hosts-eval", "K6", "evdns_getaddrinfo_fromhosts: not in the table -> -1 (go on to cache/DNS); in the table -> exactly the entries of the wanted family, or an address-family "
             "error when there is none; an allocation failure -> -1 with nothing handed out", floor=25)
    f = P.fn("evdns_getaddrinfo_fromhosts")
    base, node, hints, port, res = [p[0] for p in f.params]
    for fams in ((), (2,), (10,), (2, 10), (10, 2), (10, 10), (2, 2, 10)):
        for want in (0, 2, 10):
            for failat in (None, 0):
                env = {base: PPtr("base"), ("@", "base", "#zero"): 1, node: 5, hints: PPtr("hints"), ("@", "hints", "#zero"): 1, ("@", "hints", "addrinfo.ai_family"): want, port: 80,
                       res: PRef(None, "#res"), "#res": 0, "#made": (), "#list": ()}
                for i, fam in enumerate(fams):
                    env[("@", "e%d" % i, "#zero")] = 1
                    env[("@", "e%d" % i, "hosts_entry.addr")] = PPtr("a%d" % i)
                    env[("@", "a%d" % i, "hosts_entry::addr.sa")] = PPtr("s%d" % i)
                    env[("@", "s%d" % i, "sockaddr.sa_family")] = fam
                    env[("@", "s%d" % i, "#zero")] = 1
                    env[("@", "a%d" % i, "#zero")] = 1

                def hook(el, e_):
                    n = callee_name(el.e)
                    a = el.e[2]
                    if n == "find_hosts_entry":
                        try:
                            prev = evalx(normx(a[2]), e_, P)
                        except EvalError:
                            return "impure"
                        k = 0 if not isinstance(prev, PPtr) else int(prev.id[1:]) + 1
                        return PPtr("e%d" % k) if k < len(fams) else 0
                    if n == "evutil_new_addrinfo_":
                        k = len(e_["#made"])
                        try:
                            sa = evalx(normx(a[0]), e_, P)
                        except EvalError:
                            sa = None
                        e_["#made"] = e_["#made"] + (repr(sa),)
                        if failat is not None and k == failat:
                            return 0
                        obj = "ai%d" % k
                        e_[("@", obj, "#zero")] = 1
                        return PPtr(obj)
                    if n == "evutil_addrinfo_append_":
                        try:
                            first, new = evalx(normx(a[0]), e_, P), evalx(normx(a[1]), e_, P)
                        except EvalError:
                            return "impure"
                        e_["#list"] = e_["#list"] + (repr(new),)
                        return first if first else new
                    if n in ("sockaddr_setport",):
                        return 0
                    if n == "evutil_freeaddrinfo":
                        e_["#list"] = ()
                        return 0
                    return None
                outs = [o for o in run_all(f, (f.entry, 0), env, lambda el: False, P, hook, max_steps=800) if not (o.kind == "exit" and o.why == "noreturn")]
                match = [i for i, fam in enumerate(fams) if not ((fam == 2 and want == 10) or (fam == 10 and want == 2))]
                for o in outs:
                    if o.kind != "ret":
                        r.brk("evdns_getaddrinfo_fromhosts(%s, family %d): %s %s" % (fams, want, o.kind, o.why))
                        return r
                    try:
                        val = evalx(normx(o.at.e[1]), o.env, P)
                    except EvalError:
                        val = None
                    handed = o.env.get("#res")
                    nlist = len(o.env["#list"])
                    r.inst((fams, want, failat), {"hosts_entries_families": list(fams), "wanted_family": want, "allocation_fails": failat is not None, "returns": val, "result_set": bool(handed), "addresses": nlist})
                    bad = None
                    if not fams:
                        if val != -1 or handed:
                            bad = "the name is not in the table: returns %r (expected -1)" % val
                    elif failat is not None and match:
                        if val != -1 or handed:
                            bad = "an allocation fails: returns %r with a result %s (expected -1 and nothing handed out)" % (val, "set" if handed else "not set")
                    elif not match:
                        if val in (0, -1) or handed:
                            bad = ("the name is in the table, but with no address of the wanted family: returns %r (expected the address-family error; -1 means 'not in hosts' and sends the "
                                   "lookup on to the cache and to DNS - the hosts table no longer shadows DNS for this name)" % val)
                    else:
                        if val != 0 or not handed or nlist != len(match):
                            bad = "returns %r with %d address(es), expected 0 with %d" % (val, nlist, len(match))
                    if bad:
                        r.bad("K6:evdns_getaddrinfo_fromhosts:hosts-answer", "%s:%d" % (f.file, f.line), f.name, "hosts entries of families %s, wanted family %d: %s" % (list(fams), want, bad))
    seen, uniq = set(), []
    for f_ in r.findings:
        if f_.key not in seen:
            seen.add(f_.key)
            uniq.append(f_)
    r.findings = uniq
    return r


def run(ctx, config):
    P = ctx.prog(UNITS, config)
    return [rule_precedence(P), rule_port(P), rule_cachettl(P), rule_union(P), rule_hosts_eval(P)]
