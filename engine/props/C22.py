"""C22 — rate-limited bufferevents: charge-what-you-transfer structure (K8/K3/K7/K10/K4)."""
from ..core import Rule
from ..prog import *
from ..facts import AnalysisBroken
from ..interp import normx, nkey, run_all

UNITS = ["bufferevent_ratelim", "bufferevent_sock", "bufferevent_ssl", "bufferevent_openssl", "bufferevent_mbedtls"]
LEVEL = "other"
EXPLANATION = ("K4: bufferevent_get_rlim_max_ only ever lowers its accumulator after initialising it with the per-operation maximum (every later store is "
               "a clamp `if (acc > x) acc = x` or the final `< 0 -> 0`), so max_single_read/write, the bucket and the group share all bound the result. "
               "K8: the size handed to every transport transfer (evbuffer_read / evbuffer_write_atmost in the socket callbacks, the TLS read/write loops) "
               "data-depends on bufferevent_get_read_max_/write_max_. K3: every successful socket transfer is followed on all paths by the matching "
               "bufferevent_decrement_*_buckets_ with the transferred amount; TLS transfers are followed by a call of slot le_ssl_ops.decrement_buckets. "
               "K10/K7: every function stored in that slot reaches both decrement functions; the read and write decrement functions are identical modulo the "
               "read<->write renaming. Decides who is charged what on every path; bytes per window of ticks and progress within a tick are declined.")
ASSUMPTIONS = []
CONFIGS = ["build", "assert"]


def rename_rw(x, own="read"):
    """rename the function's own channel to <A> and the other channel to <B>, so that twins compare equal only if each uses
    its own channel where the other uses its own"""
    if isinstance(x, str):
        import re
        other = "write" if own == "read" else "read"
        forms = {"read": r"(?<![A-Za-z])(reading|read)(?![a-z])", "write": r"(?<![A-Za-z])(writing|written|write)(?![a-z])"}
        x = re.sub(forms[own], "<A>", x)
        x = re.sub(forms[other], "<B>", x)
        return x
    if isinstance(x, list):
        return [rename_rw(y, own) for y in x]
    return x


def run(ctx, config):
    P = ctx.prog(UNITS, config)
    rules = []
    # ---- K4 accumulator only lowered
    r = Rule("C22-clamp", "K4", "bufferevent_get_rlim_max_: the accumulator starts at the per-operation maximum and is only ever clamped down", floor=3)
    f = P.fn("bufferevent_get_rlim_max_")
    rets = list(f.returns())
    acc = None
    for rt in rets:
        v = strip(rt.e[1])
        if is_e(v, "var"):
            acc = v[1]
    if acc is None:
        r.brk("accumulator not recognised")
    else:
        for el, rhs in f.var_stores(acc):
            rr = strip(rhs)
            if el.e[0] == "decl":
                ok = any(is_e(q, "fld") and q[2].endswith("max_single_read") for q in walk(rr)) and any(is_e(q, "fld") and q[2].endswith("max_single_write") for q in walk(rr))
                r.inst(("init", el.n), {"site": el.where(), "init": show(el.e)[:80], "is_per_operation_maximum": ok})
                if not ok:
                    r.bad("K4:bufferevent_get_rlim_max_:init", el.where(), f.name, "the accumulator is not initialised with max_single_read/max_single_write")
                continue
            gs = [negate_truth(c, t) for c, t, _ in f.guards_at(el.bid)]
            clamp = any(t and is_e(strip(c), "bin") and strip(c)[1] == ">" and eq(strip(c)[2], ["var", acc, "local"]) and eq(strip(c)[3], rr) for c, t in gs)
            floor0 = is_e(rr, "int") and rr[1] == 0 and any(t and is_e(strip(c), "bin") and strip(c)[1] == "<" and eq(strip(c)[2], ["var", acc, "local"]) for c, t in gs)
            r.inst(("store", el.n), {"site": el.where(), "store": show(el.e)[:70], "is_clamp": clamp, "is_floor_at_zero": floor0})
            if not (clamp or floor0):
                r.bad("K4:bufferevent_get_rlim_max_:accumulator-overwritten", el.where(), f.name,
                      "`%s` replaces the maximum computed so far instead of lowering it: limits established earlier (max_single_read/write) are lost" % show(el.e)[:60])
    rules.append(r)

    # ---- K8 / K3 socket transfers
    r2 = Rule("C22-transfer", "K8/K3", "transfer sizes derive from the rate-limit maximum; successful transfers are charged with the transferred amount", floor=6)
    for fname, getter, xfer, argi, dec in (("bufferevent_readcb", "bufferevent_get_read_max_", "evbuffer_read", 2, "bufferevent_decrement_read_buckets_"),
                                           ("bufferevent_writecb", "bufferevent_get_write_max_", "evbuffer_write_atmost", 2, "bufferevent_decrement_write_buckets_")):
        g = P.fn(fname)
        gets = list(g.calls(getter))
        xs = list(g.calls(xfer))
        ds = list(g.calls(dec))
        if len(gets) != 1 or len(xs) != 1 or len(ds) != 1:
            r2.brk("%s: expected one %s, one %s and one %s" % (fname, getter, xfer, dec))
            continue
        x = xs[0]
        gv = None
        for nx in g.blocks[gets[0].bid].elems[gets[0].idx + 1:gets[0].idx + 2]:
            if nx.e[0] == "asg" and eq(strip(nx.e[3]), gets[0].e):
                gv = strip(nx.e[2])[1]
        dep = gv is not None and g.depends_on(x.e[2][argi], {gv}, x)
        r2.inst((fname, "size"), {"fn": fname, "transfer": show(x.e)[:70], "limit_variable": gv, "size_depends_on_limit": dep})
        if not dep:
            r2.bad("K8:%s:transfer-size-not-limited" % fname, x.where(), fname, "the size given to %s does not depend on %s" % (xfer, getter))
        else:
            # the size is never raised above the limit: stores to the size variable after the getter are `= limit` under a comparison or smaller
            sv = strip(x.e[2][argi])
            if is_e(sv, "var") and sv[1] != gv:
                for d, rhs in g.var_stores(sv[1]):
                    if g.path_avoiding(gets[0].pos(), lambda y, d=d: y is d, lambda y: False) is not None and not eq(strip(rhs), ["var", gv, "local"]):
                        r2.bad("K8:%s:size-reassigned-after-limit" % fname, d.where(), fname, "%s is reassigned (%s) after the limit was computed" % (sv[1], show(rhs)[:40]))
        # result variable
        rv = None
        for nx in g.blocks[x.bid].elems[x.idx + 1:x.idx + 2]:
            if nx.e[0] == "asg" and eq(strip(nx.e[3]), x.e):
                rv = strip(nx.e[2])
        d = ds[0]
        amt_ok = rv is not None and eq(strip(d.e[2][1]), rv)
        # every path from a successful transfer (res > 0 edge) reaches the decrement: take the block(s) guarded by res>0 / not res<=0
        succ_ok = False
        gs = [negate_truth(c, t) for c, t, _ in g.guards_at(d.bid)]
        pos = any((t and is_e(strip(c), "bin") and strip(c)[1] == ">" and rv is not None and eq(strip(c)[2], rv)) or
                  ((not t) and is_e(strip(c), "bin") and strip(c)[1] == "<=" and rv is not None and eq(strip(c)[2], rv)) for c, t in gs)
        # conversely no path from the transfer to the user trigger avoids the decrement
        trig = lambda y: y.e[0] == "call" and callee_name(y.e) in ("bufferevent_trigger_nolock_",)
        w = g.path_avoiding(x.pos(), trig, lambda y: y is d)
        r2.inst((fname, "charge"), {"fn": fname, "decrement": show(d.e), "amount_is_transfer_result": amt_ok, "only_when_positive": pos, "trigger_without_charge": repr(w) if w else None})
        if not amt_ok:
            r2.bad("K8:%s:charged-amount" % fname, d.where(), fname, "the bucket is charged with %s, not with the transfer's result" % show(d.e[2][1]))
        if w is not None:
            r2.bad("K3:%s:transfer-not-charged" % fname, x.where(), fname, "data can be delivered after a transfer without the bucket having been charged")
    # TLS
    sslf = P.fns_in("bufferevent_ssl.c")
    for g in sslf:
        for x in g.elems():
            if x.e[0] == "call" and callee_slot(x.e) in ("le_ssl_ops.read", "le_ssl_ops.write"):
                which = callee_slot(x.e).split(".")[-1]
                getter = "bufferevent_get_%s_max_" % which
                gets = list(g.calls(getter))
                charged = g.exit_reachable_avoiding(x.pos(), lambda y: y.e[0] == "call" and callee_slot(y.e) == "le_ssl_ops.decrement_buckets",
                                                    exit_pred=None)
                # a charge must exist in the function and be reachable after the transfer
                has = any(callee_slot(y.e) == "le_ssl_ops.decrement_buckets" and g.path_avoiding(x.pos(), lambda z, y=y: z is y, lambda z: False) is not None
                          for y in g.elems() if y.e[0] == "call")
                r2.inst((g.name, x.n), {"fn": g.name, "site": x.where(), "tls_transfer": which, "limit_fetched_in_function": bool(gets), "charge_reachable_after": has})
                if not gets:
                    r2.bad("K8:%s:tls-%s-unlimited" % (g.name, which), x.where(), g.name, "TLS %s without consulting %s" % (which, getter))
                if not has:
                    r2.bad("K3:%s:tls-%s-not-charged" % (g.name, which), x.where(), g.name, "TLS %s is never followed by ssl_ops->decrement_buckets" % which)
    rules.append(r2)

    # ---- K10: slot members
    r3 = Rule("C22-slot", "K10/K7", "every implementation of le_ssl_ops.decrement_buckets charges both buckets; read/write decrement twins agree", floor=3)
    members = sorted(P.slots().get("le_ssl_ops.decrement_buckets", ()))
    if len(members) < 2:
        r3.brk("expected the OpenSSL and the mbed TLS implementation of le_ssl_ops.decrement_buckets, found %s" % members)
    for m in members:
        g = P.fns.get(m)
        if g is None:
            r3.brk("%s not found" % m)
            continue
        reach = set()
        seen = set()
        st = [g]
        while st:
            h = st.pop()
            if h.name in seen:
                continue
            seen.add(h.name)
            for el in h.calls():
                n = callee_name(el.e)
                if n in ("bufferevent_decrement_read_buckets_", "bufferevent_decrement_write_buckets_"):
                    reach.add(n)
                elif n in P.fns and len(seen) < 30:
                    st.append(P.fns[n])
        ok = reach == {"bufferevent_decrement_read_buckets_", "bufferevent_decrement_write_buckets_"}
        r3.inst(("slot", m), {"slot": "le_ssl_ops.decrement_buckets", "implementation": m, "file": g.file, "reaches": sorted(reach)})
        if not ok:
            r3.bad("K10:%s:slot-decrement_buckets-charges-nothing" % m, "%s:%d" % (g.file, g.line), m,
                   "%s is stored in le_ssl_ops.decrement_buckets but reaches %s: bufferevents of this TLS backend are never charged, so their rate limits are not enforced"
                   % (m, sorted(reach) or "neither decrement function"))
    a, b = P.fn("bufferevent_decrement_read_buckets_"), P.fn("bufferevent_decrement_write_buckets_")
    sa = [key(rename_rw(el.e, "read")) for bb in a.rpo() for el in a.blocks[bb].elems]
    sb = [key(rename_rw(el.e, "write")) for bb in b.rpo() for el in b.blocks[bb].elems]
    # the two flags cross-reference each other (read tests write_suspended and vice versa): after renaming both become <W>
    same = sa == sb
    r3.inst("twins", {"functions": [a.name, b.name], "elements": [len(sa), len(sb)], "identical_modulo_renaming": same})
    if not same:
        diff = next((i for i, (x, y) in enumerate(zip(sa, sb)) if x != y), min(len(sa), len(sb)))
        r3.bad("K7:bufferevent_decrement_buckets:twins-differ", "%s:%d" % (b.file, b.line), b.name,
               "read and write decrement differ beyond the read<->write renaming at element %d" % diff)
    rules.append(r3)
    rules.append(rule_clip_eval(P))
    rules.append(rule_share_eval(P))
    rules.append(rule_leave_group(P, ctx, config))
    return rules


def rule_leave_group(P, ctx, config):
    """leaving a group without lifting the group's suspension is only right when the bufferevent is being destroyed: anywhere else the BEV_SUSPEND_BW_GROUP
    flag would outlive the membership and nothing would ever clear it (the new group only un-suspends when IT was suspended)"""
    r = Rule("C22-leave-group", "K2", "a bufferevent leaves a rate-limit group with its group suspension lifted, except on destruction", floor=2)
    P2 = ctx.prog(UNITS + ["bufferevent"], config)
    for f in P2.all_fns:
        for el in f.calls("bufferevent_remove_from_rate_limit_group_internal_"):
            a = strip(el.e[2][1])
            keep = is_e(a, "int") and a[1] == 0
            # destruction: the same function releases the rate_limiting record afterwards
            frees = [x for x in f.calls() if callee_name(x.e) == "event_mm_free_" and any(is_e(q, "fld") and q[2] == "bufferevent_private.rate_limiting" for q in walk(x.e[2][0]))]
            destroying = bool(frees) and f.exit_reachable_avoiding(el.pos(), lambda x: x in frees) is None
            r.inst((f.name, el.n), {"fn": f.name, "site": el.where(), "unsuspend_argument": show(a), "destroys_rate_limiting_afterwards": destroying})
            if (keep or not is_e(a, "int")) and not destroying:
                r.bad("K2:%s:leaves-group-still-suspended" % f.name, el.where(), f.name,
                      "the bufferevent leaves its group with unsuspend=%s outside destruction: a suspension imposed by the old group stays on the bufferevent and no later refill lifts it (no progress although budget is available)" % show(a))
    return r


def rule_share_eval(P, rid="C22-share-eval"):
    """what one read/write may move for a member of a group: typed evaluation of bufferevent_get_rlim_max_ on group level x members x share floor, with a configured floor that differs
    from the clipped one"""
    r = Rule(rid, "K6", "bufferevent_get_rlim_max_ for a group member: min(per-operation maximum, max(group level / members, the group's CLIPPED minimum share)), zero while the group is "
             "suspended, never negative", floor=150)
    f = P.fn("bufferevent_get_rlim_max_")
    bev = ["var", f.params[0][0], "param"]
    isw = f.params[1][0]
    RL, G = PPtr("rl"), PPtr("grp")
    nb = 0
    for w in (0, 1):
        ch, oth = ("write", "read") if w else ("read", "write")
        for susp in (0, 1):
            for lim in (-48, 0, 16, 160, 6400):
                for n in (1, 4):
                    for ms, cms in ((16, 64), (16, 200), (64, 64), (1, 64)):
                        for single in (1000, 10):
                            env = {"#typed": 1, bev[1]: PPtr("bev"), isw: w, ("@", "bev", "#zero"): 1, ("@", "rl", "#zero"): 1, ("@", "grp", "#zero"): 1,
                                   ("@", "bev", "bufferevent_private.max_single_%s" % ch): single, ("@", "bev", "bufferevent_private.max_single_%s" % oth): 7,
                                   ("@", "bev", "bufferevent_private.rate_limiting"): RL, ("@", "rl", "bufferevent_rate_limit.cfg"): 0, ("@", "rl", "bufferevent_rate_limit.group"): G,
                                   ("@", "grp", "bufferevent_rate_limit_group.%s_suspended" % ch): susp, ("@", "grp", "bufferevent_rate_limit_group.%s_suspended" % oth): 1 - susp,
                                   ("@", "grp", "bufferevent_rate_limit_group.rate_limit"): PPtr("gb"),        # the embedded bucket, addressed as an object of its own
                                   ("@", "gb", "ev_token_bucket.%s_limit" % ch): lim, ("@", "gb", "ev_token_bucket.%s_limit" % oth): 3,
                                   ("@", "grp", "bufferevent_rate_limit_group.n_members"): n, ("@", "grp", "bufferevent_rate_limit_group.min_share"): ms,
                                   ("@", "grp", "bufferevent_rate_limit_group.configured_min_share"): cms, ("@", "grp", "bufferevent_rate_limit_group.lock"): 0, "#susp": ()}

                            def hook(el, e_):
                                nme = callee_name(el.e)
                                if nme in ("bufferevent_suspend_read_", "bufferevent_suspend_write_"):
                                    e_["#susp"] = e_["#susp"] + (nme,)
                                    return 0
                                if nme == "bufferevent_update_buckets":
                                    return 0
                                return None
                            outs = [o for o in run_all(f, (f.entry, 0), env, lambda el: False, P, hook, max_steps=400) if not (o.kind == "exit" and o.why == "noreturn")]
                            for o in outs:
                                if o.kind != "ret":
                                    r.brk("bufferevent_get_rlim_max_: %s %s" % (o.kind, o.why))
                                    return r
                                try:
                                    val = tevalx(normx(o.at.e[1]), o.env, P, f)
                                except Exception:
                                    val = None
                                if isinstance(val, int) and val >= 1 << 63:
                                    val -= 1 << 64
                                q = abs(lim) // n * (1 if lim >= 0 else -1)        # C division truncates toward zero
                                want = 0 if susp else max(0, min(single, max(q, ms)))
                                r.inst((w, susp, lim, n, ms, cms, single), {"direction": ch, "group_suspended": susp, "group_level": lim, "members": n, "min_share": ms, "configured_min_share": cms,
                                                                          "per_operation_maximum": single, "granted": val})
                                if val != want and nb < 4:
                                    nb += 1
                                    r.bad("K6:bufferevent_get_rlim_max_:group-share", "%s:%d" % (f.file, f.line), f.name,
                                          "%s: group level %d, %d member(s), minimum share %d (configured %d, clipped to the rate), per-operation maximum %d, group %ssuspended: grants %r bytes, "
                                          "expected %d (a share floor above the group's rate lets the members together move more than burst + k*rate)" % (ch, lim, n, ms, cms, single, "" if susp else "not ", val, want))
    return r


def rule_clip_eval(P, rid="C22-reconfigure"):
    """re-configuration never forgives debt: bucket levels are only ever clipped DOWN to the new burst (typed evaluation: signed/unsigned conversions matter)"""
    r = Rule(rid, "K6", "set_cfg / re-initialisation clip a bucket to min(level, new maximum): a negative level (debt) survives reconfiguration", floor=40)
    MAXV = (1 << 63) - 1
    sites = []
    g = P.fn("bufferevent_rate_limit_group_set_cfg")
    gp = ["var", g.params[0][0], "param"]
    cp = ["var", g.params[1][0], "param"]
    def glim(ch):
        return nkey(["fld", ["fld", gp, "bufferevent_rate_limit_group.rate_limit", "->"], "ev_token_bucket.%s_limit" % ch, "."])
    def cfgk(base, fld):
        return nkey(["fld", base, "ev_token_bucket_cfg.%s" % fld, "->"])
    sites.append(("bufferevent_rate_limit_group_set_cfg", g, gp, cp, glim, {}))
    h = P.fn("ev_token_bucket_init_")
    hb = ["var", h.params[0][0], "param"]
    hc = ["var", h.params[1][0], "param"]
    def hlim(ch):
        return nkey(["fld", hb, "ev_token_bucket.%s_limit" % ch, "->"])
    sites.append(("ev_token_bucket_init_ (reinitialize)", h, hb, hc, hlim, {h.params[3][0]: 1, h.params[2][0]: 9}))
    nb = 0
    for title, f, base, cfg, limk, extra in sites:
        for mx in (300, MAXV):
            for lvl in (-(1 << 62), -4900, -1, 0, 100, mx, min(MAXV, mx + 100)):
                for ch in ("read", "write"):
                    oth = "write" if ch == "read" else "read"
                    env = {"#typed": 1, base[1]: 1, cfg[1]: 2, limk(ch): lvl, limk(oth): 5,
                           cfgk(cfg, ch + "_maximum"): mx, cfgk(cfg, oth + "_maximum"): 1000, cfgk(cfg, ch + "_rate"): 10, cfgk(cfg, oth + "_rate"): 10}
                    env.update(extra)
                    def hook(el, e_):
                        n = callee_name(el.e)
                        if n in ("memcpy", "__builtin___memcpy_chk", "__builtin_memcpy", "event_add", "bufferevent_rate_limit_group_set_min_share", "evthread_is_debug_lock_held_"):
                            return 0
                        return None
                    outs = [o for o in run_all(f, (f.entry, 0), env, lambda el: False, P, hook, max_steps=300) if not (o.kind == "exit" and o.why == "noreturn")]
                    vals = set()
                    for o in outs:
                        if o.kind != "ret":
                            r.brk("%s not evaluable: %s %s" % (f.name, o.kind, o.why))
                            return r
                        vals.add((o.env.get(limk(ch)), o.env.get(limk(oth))))
                    want = (min(lvl, mx), 5)
                    r.inst((f.name, mx, lvl, ch), {"fn": title, "channel": ch, "new_maximum": mx, "level_before": lvl, "level_after": sorted(v[0] for v in vals if v[0] is not None), "exact": want[0]})
                    if vals != {want} and nb < 6:
                        nb += 1
                        r.bad("K6:%s:%s:reconfigure-clip" % (f.name, ch), "%s:%d" % (f.file, f.line), f.name,
                              "%s: %s level %d with new maximum %d becomes %s; it must become %d (only ever clipped down: a negative level is debt that later ticks still have to repay)" % (
                                  title, ch, lvl, mx, sorted(vals), want[0]))
    return r
