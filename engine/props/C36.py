"""C36 — DNS queries on the wire are well-formed and ask for the requested name: builder bounds, header constants, error propagation."""
from ..core import Rule
from ..prog import *
from ..facts import AnalysisBroken
from .. import dnsenc as E
from ..dnsparse import linear
from ..interp import normx, nkey, run_all
from ..prog import PStr, PPtr, HEAP_BASE

UNITS = ["evdns", "evutil"]
LEVEL = "other"
EXPLANATION = ("K4: every write into the request buffer in evdns_request_data_build and dnsname_to_labels is dominated by a capacity test covering it; the "
               "single unguarded byte (the root name of the OPT record) is accepted only through a re-checked argument about its sole caller: the buffer is "
               "allocated with evdns_request_len(), whose constant part exceeds the fixed part of a query. K6: the header words are the standard-query "
               "constants (flags 0x0100, QDCOUNT 1, ANCOUNT/NSCOUNT 0) in order after the transaction id, and the question carries the caller's type/class. "
               "K12/K8: a negative builder result fails request_new, the built length is what is sent, and the name given to the builder is the one the "
               "request was created for. Search-list order and decoding equivalence are declined.")
ASSUMPTIONS = []
CONFIGS = ["build", "assert"]


def opt_root_exception(P):
    """buf[j++] = 0 (OPT owner name) in evdns_request_data_build: sole caller allocates evdns_request_len(name_len) bytes."""
    callers = P.callers().get("evdns_request_data_build", [])
    if len(callers) != 1:
        return None
    cf, cel = callers[0]
    cap = strip(cel.e[2][7])
    if not is_e(cap, "var"):
        return None
    defs = cf.var_stores(cap[1])
    if len(defs) != 1 or not (is_e(strip(defs[0][1]), "call") and callee_name(strip(defs[0][1])) == "evdns_request_len"):
        return None
    g = P.fn("evdns_request_len")
    rets = list(g.returns())
    if len(rets) != 1:
        return None
    lin = linear(rets[0].e[1])
    const = lin.get("const", 0)
    has_name = any(isinstance(k, tuple) and k[:2] == ("var", g.params[1][0]) for k in lin)
    # fixed part of a query: 12 header + 2 (first length byte + root) + 4 (type,class) + 11 (OPT) = 29
    if const >= 29 and has_name:
        return "sole caller %s allocates evdns_request_len() = name_len + %d (+OPT) bytes >= name_len + 29 needed [re-checked]" % (cf.name, const)
    return None


def rule_name_format(P):
    """names the resolver formats itself (reverse lookups) into fixed local buffers: the longest text the conversions can produce, NUL included, must fit - evutil_snprintf truncates
    silently and the query would go out for another name"""
    import re
    r = Rule("C36-name-format", "K4", "every evutil_snprintf into a fixed local buffer in evdns.c fits in the worst case of its conversions (ranges taken from casts and masks of the arguments)", floor=2)

    def width(arg, conv):
        a = arg
        lo_bits = None
        while True:
            a = strip(a)
            if is_e(a, "cast"):
                ty = a[1] if isinstance(a[1], str) else ""
                if re.search(r"\b(u8|uint8_t|ev_uint8_t|unsigned char)\b", ty):
                    lo_bits = 8 if lo_bits is None else min(lo_bits, 8)
                a = a[-1]
                continue
            break
        if is_e(a, "bin") and a[1] == "&" and is_e(strip(a[3]), "int") and strip(a[3])[1] >= 0:
            m = strip(a[3])[1].bit_length()
            lo_bits = m if lo_bits is None else min(lo_bits, m)
        if lo_bits is None:
            return None
        top = (1 << lo_bits) - 1
        return len("%d" % top) if conv in "diu" else len("%x" % top)
    for f in P.fns_in("evdns.c"):
        for el in f.calls("evutil_snprintf"):
            a = el.e[2]
            dst = strip(a[0])
            fmt = strip(a[2])
            if not (is_e(dst, "var") and is_e(fmt, "str")):
                continue
            m = re.search(r"\[(\d+)\]", f.var_type(dst[1]) or "")
            if not m:
                continue
            cap = int(m.group(1))
            try:
                size = evalx(a[1], {}, P)
            except Exception:
                size = None
            text = fmt[1].decode("latin-1") if isinstance(fmt[1], bytes) else str(fmt[1])
            worst, k, ok = 0, 0, True
            i = 0
            while i < len(text):
                if text[i] != "%":
                    worst += 1
                    i += 1
                    continue
                mm = re.match(r"%([-+ #0]*)(\d*)(hh|h|ll|l|z)?([diuxXc%s])", text[i:])
                if not mm or mm.group(4) == "s":
                    ok = False
                    break
                conv = mm.group(4)
                if conv == "%":
                    worst += 1
                elif conv == "c":
                    worst += 1
                    k += 1
                else:
                    w = width(a[3 + k], conv) if 3 + k < len(a) else None
                    if w is None:
                        w = 20 if mm.group(3) in ("l", "ll", "z") else 11
                    if mm.group(2):
                        w = max(w, int(mm.group(2)))
                    worst += w
                    k += 1
                i += mm.end()
            if not ok:
                continue        # a %s conversion: not a name built from numbers
            r.inst((f.name, el.n), {"fn": f.name, "site": el.where(), "format": text, "buffer": "%s[%d]" % (dst[1], cap), "size_argument": size, "worst_case_with_nul": worst + 1})
            if worst + 1 > cap or (isinstance(size, int) and size > cap):
                r.bad("K4:%s:formatted-name-truncated" % f.name, el.where(), f.name,
                      "\"%s\" can produce %d characters plus the terminator, the buffer %s holds %d: evutil_snprintf cuts the name short and the query asks for a different name "
                      "(for the reverse name of an address whose every component has the full number of digits)" % (text, worst, dst[1], cap))
    return r


def run(ctx, config):
    P = ctx.prog(UNITS, config)
    rules = []
    rules.append(E.rule_output(P, [("dnsname_to_labels", "buf", ["buf_len"]), ("evdns_request_data_build", "buf", ["buf_len"])], "C36-output", floor=15,
                               exceptions={("evdns_request_data_build", "buf[j++]"): opt_root_exception}))
    rules.append(E.rule_labels(P, "C36-labels"))
    rules.append(E.rule_errprop(P, ["evdns_request_data_build"], "C36-errprop"))
    r = Rule("C36-header", "K6/K8", "header constants of a standard query; question type/class and name are the caller's; failures propagate", floor=3)
    f = P.fn("evdns_request_data_build")
    # APPEND16 values in order: the htons argument stores `t_ = htons(x)`
    vals = []
    for b in f.rpo():
        for el in f.blocks[b].elems:
            if el.e[0] == "asg" and is_e(strip(el.e[2]), "var") and strip(el.e[2])[1] == "t_" and el.mac and "APPEND16" in el.mac:
                inner = [q for q in walk(el.e[3]) if is_e(q, "var") or is_e(q, "int") or is_e(q, "cond") or is_e(q, "fld")]
                vals.append((el, el.mtext))
    texts = [t for _, t in vals]
    r.inst("words", {"append16_sequence": texts[:8]})
    want_prefix = ["APPEND16(trans_id)", "APPEND16(0x0100)", "APPEND16(1)", "APPEND16(0)", "APPEND16(0)"]
    got = [t.replace(" ", "") for t in texts[:5]]
    if got != want_prefix:
        r.bad("K6:evdns_request_data_build:header-words", "%s:%d" % (f.file, f.line), f.name,
              "header is %s, a standard query needs id, 0x0100, QDCOUNT 1, ANCOUNT 0, NSCOUNT 0" % texts[:5])
    tq = [t.replace(" ", "") for t in texts]
    if "APPEND16(type)" not in tq or "APPEND16(class)" not in tq or tq.index("APPEND16(type)") > tq.index("APPEND16(class)"):
        r.bad("K6:evdns_request_data_build:question-words", "%s:%d" % (f.file, f.line), f.name, "question does not carry the caller's type then class")
    enc = list(f.calls("dnsname_to_labels"))
    okn = len(enc) == 1 and eq(strip(enc[0].e[2][3]), ["var", f.params[1][0], "param"]) and eq(strip(enc[0].e[2][4]), ["var", f.params[2][0], "param"])
    r.inst("name", {"encoder_call": show(enc[0].e)[:80] if enc else None, "encodes_callers_name": okn})
    if not okn:
        r.bad("K8:evdns_request_data_build:name", "%s:%d" % (f.file, f.line), f.name, "the encoded name is not the builder's name argument")
    # request_new: result checked, length stored
    g = P.fn("request_new")
    c = list(g.calls("evdns_request_data_build"))
    okc = False
    if len(c) == 1:
        from .. import effects
        F = effects.Fail(P, [g], roots={"evdns_request_data_build": "int"})
        site = F.sites.get((g.name, c[0].n))
        okc = site is not None
        # the name argument is request_new's own name parameter (possibly case-randomised copy)
        r.inst("request_new", {"site": c[0].where(), "result_tested": okc, "name_arg": show(c[0].e[2][1])})
        # request_len field receives the result variable
        stores = [el for el, lhs, op, rhs in g.stores() if is_e(strip(lhs), "fld") and strip(lhs)[2] == "request.request_len"]
        if not stores:
            r.bad("K8:request_new:length-not-recorded", c[0].where(), g.name, "the built length is not stored as request_len")
    if not okc:
        r.bad("K12:request_new:unchecked:evdns_request_data_build", "%s:%d" % (g.file, g.line), g.name, "a failed build is not detected")
    rules.append(r)
    rules.append(rule_case(P))
    rules.append(rule_encode(P))
    rules.append(rule_search_name(P))
    rules.append(rule_name_format(P))
    return rules


OUTBUF = 8000000


def _mem_hook(P, extra=None):
    def hook(el, e_):
        n = callee_name(el.e)
        a = el.e[2]
        if extra is not None:
            v = extra(el, e_)
            if v is not None:
                return v
        try:
            if n in ("memcpy", "__builtin_memcpy", "__builtin___memcpy_chk", "memmove"):
                d, s_, cnt = evalx(normx(a[0]), e_, P), evalx(normx(a[1]), e_, P), evalx(normx(a[2]), e_, P)
                if not isinstance(d, int) or not isinstance(cnt, int) or cnt < 0 or cnt > 5000:
                    e_["#err"] = "memcpy(%r, %r, %r)" % (d, s_, cnt)
                    return "impure"
                if isinstance(s_, PStr):
                    data = [s_.at(k) for k in range(cnt)]
                elif isinstance(s_, int):
                    data = [e_[("m", s_ + k)] for k in range(cnt)]
                elif is_e(strip(a[1]), "addr"):
                    v = evalx(normx(strip(a[1])[1]), e_, P)
                    data = list(int(v).to_bytes(cnt, "little"))
                else:
                    e_["#err"] = "memcpy source %r" % (s_,)
                    return "impure"
                for k, bv in enumerate(data):
                    e_[("m", d + k)] = bv
                e_["#hi"] = max(e_.get("#hi", 0), d + cnt)
                return d
            if n in ("htons", "__bswap_16"):
                v = evalx(normx(a[0]), e_, P)
                return ((v & 0xff) << 8) | ((v >> 8) & 0xff)
        except (EvalError, KeyError) as ex:
            e_["#err"] = str(ex)
            return "impure"
        return None
    return hook


def wire_name(name):
    """reference encoding of a textual domain name: -> bytes or None when the name has an empty interior label / a label over 63 bytes / is over 255 bytes"""
    if len(name) > 255:
        return None
    if name == b"":
        return b"\0"
    labels = name.split(b".")
    if labels[-1] == b"":
        labels = labels[:-1]
    out = b""
    for lb in labels:
        if not (1 <= len(lb) <= 63):
            return None
        out += bytes([len(lb)]) + lb
    return out + b"\0"


def rule_encode(P):
    """dnsname_to_labels evaluated on name forms: valid names give exactly the wire encoding, names with an empty label or an oversized label/name make it fail"""
    r = Rule("C36-encode", "K6", "dnsname_to_labels: the bytes written are the wire form of the name; a name that has no wire form fails instead of being encoded malformed", floor=14)
    f = P.fn("dnsname_to_labels")
    names = [b"a", b"a.b", b"www.example.com", b"a.b.", b"host.", b"x" * 63 + b".com", b"x" * 64 + b".com", b".".join([b"y" * 50] * 5), b".".join([b"y" * 50] * 5) + b".zz",
             b"a..b", b".a", b"a.b..", b"..", b"a. .b", b"caf\xc3\xa9.example", b"", b"1.2.3.4.in-addr.arpa"]
    nb = 0
    for nm in names:
        env = {"#typed": 1, "#bytemem": 1, f.params[0][0]: OUTBUF, f.params[1][0]: 400, f.params[2][0]: 12, f.params[3][0]: PStr(nm), f.params[4][0]: len(nm), f.params[5][0]: 0}
        outs = [o for o in run_all(f, (f.entry, 0), env, lambda el: False, P, _mem_hook(P), max_steps=3000) if not (o.kind == "exit" and o.why == "noreturn")]
        want = wire_name(nm)
        for o in outs:
            if o.kind != "ret":
                r.brk("dnsname_to_labels(%r): %s %s %s" % (nm, o.kind, o.why, o.env.get("#err", "")))
                return r
            try:
                rv = tevalx(normx(o.at.e[1]), o.env, P, f)
            except EvalError as ex:
                r.brk("dnsname_to_labels(%r): return value %s" % (nm, ex))
                return r
            got = None
            if isinstance(rv, int) and rv >= 12:
                got = bytes(o.env.get(("m", OUTBUF + k), 0xEE) for k in range(12, rv))
            ok = (want is None and isinstance(rv, int) and rv < 0) or (want is not None and got == want)
            r.inst(nm, {"name": nm.decode("latin-1")[:80], "returns": rv, "wire": got.hex() if got else None, "reference": want.hex() if want else None})
            if not ok and nb < 6:
                nb += 1
                kind = "malformed-name-encoded" if want is None else "wrong-encoding"
                r.bad("K6:dnsname_to_labels:%s" % kind, "%s:%d" % (f.file, f.line), f.name,
                      "name %r: returns %r and writes %s; %s" % (nm[:60], rv, got.hex() if got else None,
                                                                  "the name has an empty or oversized label and has no wire form: the request must fail, the bytes written end the name early and the rest of the packet is garbage" if want is None else "the wire form is %s" % want.hex()))
    return r


def rule_search_name(P):
    """search_make_new evaluated on abstract strings: the candidate is <base without a trailing dot>.<search domain>"""
    r = Rule("C36-search-name", "K6", "search-list candidates are the base name (without a trailing dot) joined to the search domain by exactly one dot", floor=6)
    f = P.fn("search_make_new")
    NEW = 9000000
    POST = HEAP_BASE * 20            # PPtr(("n", 0)) + k: the bytes behind the search_domain header
    nb = 0
    for base in (b"host", b"host.", b"a.b", b"a.b.", b"x"):
        for dom in (b"example.com", b"lan"):
            env = {"#typed": 1, "#bytemem": 1, "event_debug_logging_mask_": 0, f.params[0][0]: PPtr("st"), f.params[1][0]: 0, f.params[2][0]: PStr(base),
                   ("@", "st", "search_state.head"): PPtr(("n", 0)), ("@", ("n", 0), "search_domain.len"): len(dom), ("@", ("n", 0), "search_domain.next"): 0}
            for k, bv in enumerate(dom):
                env[("m", POST + k)] = bv

            def extra(el, e_):
                n = callee_name(el.e)
                if n == "event_mm_malloc_":
                    e_["#cap"] = evalx(normx(el.e[2][0]), e_, P)
                    return NEW
                if n in ("evutil_snprintf", "snprintf"):
                    # the formats a name is assembled with: %s and %.*s and literal characters
                    a = el.e[2]
                    try:
                        d, cap, fmt = evalx(normx(a[0]), e_, P), evalx(normx(a[1]), e_, P), evalx(normx(a[2]), e_, P).text()
                        args = list(a[3:])
                        out = b""
                        i = 0
                        while i < len(fmt):
                            if fmt[i:i + 2] == b"%s":
                                out += evalx(normx(args.pop(0)), e_, P).text()
                                i += 2
                            elif fmt[i:i + 4] == b"%.*s":
                                ln = evalx(normx(args.pop(0)), e_, P)
                                p = evalx(normx(args.pop(0)), e_, P)
                                out += (p.text()[:ln] if isinstance(p, PStr) else bytes(e_[("m", p + k)] for k in range(ln)))
                                i += 4
                            elif fmt[i:i + 1] == b"%":
                                return "impure"
                            else:
                                out += fmt[i:i + 1]
                                i += 1
                        out = out[:max(cap - 1, 0)] + b"\0"
                        for k, bv in enumerate(out):
                            e_[("m", d + k)] = bv
                        return len(out) - 1
                    except (EvalError, KeyError, IndexError) as ex:
                        e_["#err"] = str(ex)
                        return "impure"
                return None
            outs = [o for o in run_all(f, (f.entry, 0), env, lambda el: False, P, _mem_hook(P, extra), max_steps=1500) if not (o.kind == "exit" and o.why == "noreturn")]
            want = base.rstrip(b".") + b"." + dom
            for o in outs:
                if o.kind != "ret":
                    r.brk("search_make_new(%r + %r): %s %s %s" % (base, dom, o.kind, o.why, o.env.get("#err", "")))
                    return r
                rv = evalx(normx(o.at.e[1]), o.env, P)
                got = None
                if rv == NEW:
                    bs = []
                    for k in range(600):
                        bv = o.env.get(("m", NEW + k))
                        if bv is None or bv == 0:
                            break
                        bs.append(bv)
                    got = bytes(bs)
                    cap = o.env.get("#cap")
                    if cap is not None and len(got) + 1 > cap:
                        got = b"<overflows its allocation> " + got
                r.inst((base, dom), {"base": base.decode(), "domain": dom.decode(), "candidate": got.decode("latin-1") if got else None})
                if got != want and nb < 4:
                    nb += 1
                    r.bad("K6:search_make_new:candidate", "%s:%d" % (f.file, f.line), f.name,
                          "base name %r with search domain %r gives %r; the candidate to try is %r" % (base, dom, got, want))
    return r


def rule_case(P):
    """0x20 randomisation may change nothing but the case bit of ASCII letters: evaluated for every byte value"""
    r = Rule("C36-case", "K6", "case randomisation in request_new alters only the case of ASCII letters (all 256 byte values x both random bits)", floor=512)
    f = P.fn("request_new")
    sts = [(el, lhs, op) for el, lhs, op, rhs in f.stores() if op in ("|=", "&=", "^=", "=") and is_e(strip(lhs), "idx") and is_e(strip(strip(lhs)[1]), "var") and strip(strip(lhs)[1])[1] == "namebuf"]
    if not sts:
        r.brk("request_new: no store into namebuf[] found (case randomisation moved?)")
        return r
    iv = strip(strip(sts[0][1])[2])
    if not is_e(iv, "var"):
        r.brk("request_new: namebuf index is not a variable")
        return r
    # loop header: the `for` branch that dominates the stores and tests the index variable
    hdr = [b for b in f.branch_blocks() if b.term.get("k") == "for" and any(eq(strip(q), iv) for q in walk(b.term["cond"])) and all(f.dominates(b.id, el.bid) for el, _, _ in sts)]
    if len(hdr) != 1:
        r.brk("request_new: randomisation loop not recognised")
        return r
    body = [s_ for s_, l in hdr[0].succ if l == "T"][0]
    arr = ["var", "namebuf", "local"]
    I = 3
    kc = nkey(["idx", arr, ["int", I]])
    nb = 0
    for c in range(256):
        sc = c if c < 128 else c - 256
        letter = (65 <= c <= 90) or (97 <= c <= 122)
        for bits in (0x00, 0xff):
            env = {"#typed": 1, iv[1]: I, "name_len": 8, kc: sc, nkey(["idx", ["var", "randbits", "local"], ["int", 0]]): bits}
            outs = run_all(f, (body, 0), env, lambda el: el.e[0] == "incdec" and eq(strip(el.e[3]), iv), P, lambda el, e_: None, max_steps=60)
            for o in outs:
                if o.kind != "stop":
                    r.brk("request_new: loop body not evaluable for byte %#x: %s %s" % (c, o.kind, o.why))
                    return r
                got = o.env.get(kc)
                got = None if got is None else got & 0xff
                if letter:
                    ok = got == ((c | 0x20) if bits else (c & ~0x20))
                else:
                    ok = got == c
                r.inst((c, bits), {"byte": c, "random_bit": 1 if bits else 0, "result": got}, nontrivial=letter)
                if not ok and nb < 6:
                    nb += 1
                    r.bad("K6:request_new:case-randomisation-alters-non-letter" if not letter else "K6:request_new:case-randomisation-letter", "%s:%d" % (f.file, sts[0][0].line), f.name,
                          "byte %#04x %s with random bit %d becomes %s: %s" % (c, "(an ASCII letter)" if letter else "(not an ASCII letter)", 1 if bits else 0, hex(got) if got is not None else None,
                                                                               "only the case of ASCII letters may change; the question on the wire would ask for a different name" if not letter else "the letter's case must follow the random bit and nothing else may change"))
    return r
