"""C36 — DNS queries on the wire are well-formed and ask for the requested name: builder bounds, header constants, error propagation."""
from ..core import Rule
from ..prog import *
from ..facts import AnalysisBroken
from .. import dnsenc as E
from ..dnsparse import linear
from ..interp import normx, nkey, run_all

UNITS = ["evdns", "evutil"]
LEVEL = "other"
EXPLANATION = ("K4: every write into the request buffer in evdns_request_data_build and dnsname_to_labels is dominated by a capacity test covering it; the "
               "single unguarded byte (the root name of the OPT record) is accepted only through a re-checked argument about its sole caller: the buffer is "
               "allocated with evdns_request_len(), whose constant part exceeds the fixed part of a query. K6: the header words are the standard-query "
               "constants (flags 0x0100, QDCOUNT 1, ANCOUNT/NSCOUNT 0) in order after the transaction id, and the question carries the caller's type/class. "
               "K12/K8: a negative builder result fails request_new, the built length is what is sent, and the name given to the builder is the one the "
               "request was created for. Search-list order and decoding equivalence are declined.")
ASSUMPTIONS = []
CONFIGS = ["build", "assert"]


def opt_root_exception(P):
    """buf[j++] = 0 (OPT owner name) in evdns_request_data_build: sole caller allocates evdns_request_len(name_len) bytes."""
    callers = P.callers().get("evdns_request_data_build", [])
    if len(callers) != 1:
        return None
    cf, cel = callers[0]
    cap = strip(cel.e[2][7])
    if not is_e(cap, "var"):
        return None
    defs = cf.var_stores(cap[1])
    if len(defs) != 1 or not (is_e(strip(defs[0][1]), "call") and callee_name(strip(defs[0][1])) == "evdns_request_len"):
        return None
    g = P.fn("evdns_request_len")
    rets = list(g.returns())
    if len(rets) != 1:
        return None
    lin = linear(rets[0].e[1])
    const = lin.get("const", 0)
    has_name = any(isinstance(k, tuple) and k[:2] == ("var", g.params[1][0]) for k in lin)
    # fixed part of a query: 12 header + 2 (first length byte + root) + 4 (type,class) + 11 (OPT) = 29
    if const >= 29 and has_name:
        return "sole caller %s allocates evdns_request_len() = name_len + %d (+OPT) bytes >= name_len + 29 needed [re-checked]" % (cf.name, const)
    return None


def run(ctx, config):
    P = ctx.prog(UNITS, config)
    rules = []
    rules.append(E.rule_output(P, [("dnsname_to_labels", "buf", ["buf_len"]), ("evdns_request_data_build", "buf", ["buf_len"])], "C36-output", floor=15,
                               exceptions={("evdns_request_data_build", "buf[j++]"): opt_root_exception}))
    rules.append(E.rule_labels(P, "C36-labels"))
    rules.append(E.rule_errprop(P, ["evdns_request_data_build"], "C36-errprop"))
    r = Rule("C36-header", "K6/K8", "header constants of a standard query; question type/class and name are the caller's; failures propagate", floor=3)
    f = P.fn("evdns_request_data_build")
    # APPEND16 values in order: the htons argument stores `t_ = htons(x)`
    vals = []
    for b in f.rpo():
        for el in f.blocks[b].elems:
            if el.e[0] == "asg" and is_e(strip(el.e[2]), "var") and strip(el.e[2])[1] == "t_" and el.mac and "APPEND16" in el.mac:
                inner = [q for q in walk(el.e[3]) if is_e(q, "var") or is_e(q, "int") or is_e(q, "cond") or is_e(q, "fld")]
                vals.append((el, el.mtext))
    texts = [t for _, t in vals]
    r.inst("words", {"append16_sequence": texts[:8]})
    want_prefix = ["APPEND16(trans_id)", "APPEND16(0x0100)", "APPEND16(1)", "APPEND16(0)", "APPEND16(0)"]
    got = [t.replace(" ", "") for t in texts[:5]]
    if got != want_prefix:
        r.bad("K6:evdns_request_data_build:header-words", "%s:%d" % (f.file, f.line), f.name,
              "header is %s, a standard query needs id, 0x0100, QDCOUNT 1, ANCOUNT 0, NSCOUNT 0" % texts[:5])
    tq = [t.replace(" ", "") for t in texts]
    if "APPEND16(type)" not in tq or "APPEND16(class)" not in tq or tq.index("APPEND16(type)") > tq.index("APPEND16(class)"):
        r.bad("K6:evdns_request_data_build:question-words", "%s:%d" % (f.file, f.line), f.name, "question does not carry the caller's type then class")
    enc = list(f.calls("dnsname_to_labels"))
    okn = len(enc) == 1 and eq(strip(enc[0].e[2][3]), ["var", f.params[1][0], "param"]) and eq(strip(enc[0].e[2][4]), ["var", f.params[2][0], "param"])
    r.inst("name", {"encoder_call": show(enc[0].e)[:80] if enc else None, "encodes_callers_name": okn})
    if not okn:
        r.bad("K8:evdns_request_data_build:name", "%s:%d" % (f.file, f.line), f.name, "the encoded name is not the builder's name argument")
    # request_new: result checked, length stored
    g = P.fn("request_new")
    c = list(g.calls("evdns_request_data_build"))
    okc = False
    if len(c) == 1:
        from .. import effects
        F = effects.Fail(P, [g], roots={"evdns_request_data_build": "int"})
        site = F.sites.get((g.name, c[0].n))
        okc = site is not None
        # the name argument is request_new's own name parameter (possibly case-randomised copy)
        r.inst("request_new", {"site": c[0].where(), "result_tested": okc, "name_arg": show(c[0].e[2][1])})
        # request_len field receives the result variable
        stores = [el for el, lhs, op, rhs in g.stores() if is_e(strip(lhs), "fld") and strip(lhs)[2] == "request.request_len"]
        if not stores:
            r.bad("K8:request_new:length-not-recorded", c[0].where(), g.name, "the built length is not stored as request_len")
    if not okc:
        r.bad("K12:request_new:unchecked:evdns_request_data_build", "%s:%d" % (g.file, g.line), g.name, "a failed build is not detected")
    rules.append(r)
    rules.append(rule_case(P))
    return rules


def rule_case(P):
    """0x20 randomisation may change nothing but the case bit of ASCII letters: evaluated for every byte value"""
    r = Rule("C36-case", "K6", "case randomisation in request_new alters only the case of ASCII letters (all 256 byte values x both random bits)", floor=512)
    f = P.fn("request_new")
    sts = [(el, lhs, op) for el, lhs, op, rhs in f.stores() if op in ("|=", "&=", "^=", "=") and is_e(strip(lhs), "idx") and is_e(strip(strip(lhs)[1]), "var") and strip(strip(lhs)[1])[1] == "namebuf"]
    if not sts:
        r.brk("request_new: no store into namebuf[] found (case randomisation moved?)")
        return r
    iv = strip(strip(sts[0][1])[2])
    if not is_e(iv, "var"):
        r.brk("request_new: namebuf index is not a variable")
        return r
    # loop header: the `for` branch that dominates the stores and tests the index variable
    hdr = [b for b in f.branch_blocks() if b.term.get("k") == "for" and any(eq(strip(q), iv) for q in walk(b.term["cond"])) and all(f.dominates(b.id, el.bid) for el, _, _ in sts)]
    if len(hdr) != 1:
        r.brk("request_new: randomisation loop not recognised")
        return r
    body = [s_ for s_, l in hdr[0].succ if l == "T"][0]
    arr = ["var", "namebuf", "local"]
    I = 3
    kc = nkey(["idx", arr, ["int", I]])
    nb = 0
    for c in range(256):
        sc = c if c < 128 else c - 256
        letter = (65 <= c <= 90) or (97 <= c <= 122)
        for bits in (0x00, 0xff):
            env = {"#typed": 1, iv[1]: I, "name_len": 8, kc: sc, nkey(["idx", ["var", "randbits", "local"], ["int", 0]]): bits}
            outs = run_all(f, (body, 0), env, lambda el: el.e[0] == "incdec" and eq(strip(el.e[3]), iv), P, lambda el, e_: None, max_steps=60)
            for o in outs:
                if o.kind != "stop":
                    r.brk("request_new: loop body not evaluable for byte %#x: %s %s" % (c, o.kind, o.why))
                    return r
                got = o.env.get(kc)
                got = None if got is None else got & 0xff
                if letter:
                    ok = got == ((c | 0x20) if bits else (c & ~0x20))
                else:
                    ok = got == c
                r.inst((c, bits), {"byte": c, "random_bit": 1 if bits else 0, "result": got}, nontrivial=letter)
                if not ok and nb < 6:
                    nb += 1
                    r.bad("K6:request_new:case-randomisation-alters-non-letter" if not letter else "K6:request_new:case-randomisation-letter", "%s:%d" % (f.file, sts[0][0].line), f.name,
                          "byte %#04x %s with random bit %d becomes %s: %s" % (c, "(an ASCII letter)" if letter else "(not an ASCII letter)", 1 if bits else 0, hex(got) if got is not None else None,
                                                                               "only the case of ASCII letters may change; the question on the wire would ask for a different name" if not letter else "the letter's case must follow the random bit and nothing else may change"))
    return r
