"""C36 — DNS queries on the wire are well-formed and ask for the requested name: builder bounds, header constants, error propagation."""
from ..core import Rule
from ..prog import *
from ..facts import AnalysisBroken
from .. import dnsenc as E
from ..dnsparse import linear

UNITS = ["evdns"]
LEVEL = "other"
EXPLANATION = ("K4: every write into the request buffer in evdns_request_data_build and dnsname_to_labels is dominated by a capacity test covering it; the "
               "single unguarded byte (the root name of the OPT record) is accepted only through a re-checked argument about its sole caller: the buffer is "
               "allocated with evdns_request_len(), whose constant part exceeds the fixed part of a query. K6: the header words are the standard-query "
               "constants (flags 0x0100, QDCOUNT 1, ANCOUNT/NSCOUNT 0) in order after the transaction id, and the question carries the caller's type/class. "
               "K12/K8: a negative builder result fails request_new, the built length is what is sent, and the name given to the builder is the one the "
               "request was created for. Search-list order and decoding equivalence are declined.")
ASSUMPTIONS = []
CONFIGS = ["build", "assert"]


def opt_root_exception(P):
    """buf[j++] = 0 (OPT owner name) in evdns_request_data_build: sole caller allocates evdns_request_len(name_len) bytes."""
    callers = P.callers().get("evdns_request_data_build", [])
    if len(callers) != 1:
        return None
    cf, cel = callers[0]
    cap = strip(cel.e[2][7])
    if not is_e(cap, "var"):
        return None
    defs = cf.var_stores(cap[1])
    if len(defs) != 1 or not (is_e(strip(defs[0][1]), "call") and callee_name(strip(defs[0][1])) == "evdns_request_len"):
        return None
    g = P.fn("evdns_request_len")
    rets = list(g.returns())
    if len(rets) != 1:
        return None
    lin = linear(rets[0].e[1])
    const = lin.get("const", 0)
    has_name = any(isinstance(k, tuple) and k[:2] == ("var", g.params[1][0]) for k in lin)
    # fixed part of a query: 12 header + 2 (first length byte + root) + 4 (type,class) + 11 (OPT) = 29
    if const >= 29 and has_name:
        return "sole caller %s allocates evdns_request_len() = name_len + %d (+OPT) bytes >= name_len + 29 needed [re-checked]" % (cf.name, const)
    return None


def run(ctx, config):
    P = ctx.prog(UNITS, config)
    rules = []
    rules.append(E.rule_output(P, [("dnsname_to_labels", "buf", ["buf_len"]), ("evdns_request_data_build", "buf", ["buf_len"])], "C36-output", floor=15,
                               exceptions={("evdns_request_data_build", "buf[j++]"): opt_root_exception}))
    rules.append(E.rule_labels(P, "C36-labels"))
    rules.append(E.rule_errprop(P, ["evdns_request_data_build"], "C36-errprop"))
    r = Rule("C36-header", "K6/K8", "header constants of a standard query; question type/class and name are the caller's; failures propagate", floor=3)
    f = P.fn("evdns_request_data_build")
    # APPEND16 values in order: the htons argument stores `t_ = htons(x)`
    vals = []
    for b in f.rpo():
        for el in f.blocks[b].elems:
            if el.e[0] == "asg" and is_e(strip(el.e[2]), "var") and strip(el.e[2])[1] == "t_" and el.mac and "APPEND16" in el.mac:
                inner = [q for q in walk(el.e[3]) if is_e(q, "var") or is_e(q, "int") or is_e(q, "cond") or is_e(q, "fld")]
                vals.append((el, el.mtext))
    texts = [t for _, t in vals]
    r.inst("words", {"append16_sequence": texts[:8]})
    want_prefix = ["APPEND16(trans_id)", "APPEND16(0x0100)", "APPEND16(1)", "APPEND16(0)", "APPEND16(0)"]
    got = [t.replace(" ", "") for t in texts[:5]]
    if got != want_prefix:
        r.bad("K6:evdns_request_data_build:header-words", "%s:%d" % (f.file, f.line), f.name,
              "header is %s, a standard query needs id, 0x0100, QDCOUNT 1, ANCOUNT 0, NSCOUNT 0" % texts[:5])
    tq = [t.replace(" ", "") for t in texts]
    if "APPEND16(type)" not in tq or "APPEND16(class)" not in tq or tq.index("APPEND16(type)") > tq.index("APPEND16(class)"):
        r.bad("K6:evdns_request_data_build:question-words", "%s:%d" % (f.file, f.line), f.name, "question does not carry the caller's type then class")
    enc = list(f.calls("dnsname_to_labels"))
    okn = len(enc) == 1 and eq(strip(enc[0].e[2][3]), ["var", f.params[1][0], "param"]) and eq(strip(enc[0].e[2][4]), ["var", f.params[2][0], "param"])
    r.inst("name", {"encoder_call": show(enc[0].e)[:80] if enc else None, "encodes_callers_name": okn})
    if not okn:
        r.bad("K8:evdns_request_data_build:name", "%s:%d" % (f.file, f.line), f.name, "the encoded name is not the builder's name argument")
    # request_new: result checked, length stored
    g = P.fn("request_new")
    c = list(g.calls("evdns_request_data_build"))
    okc = False
    if len(c) == 1:
        from .. import effects
        F = effects.Fail(P, [g], roots={"evdns_request_data_build": "int"})
        site = F.sites.get((g.name, c[0].n))
        okc = site is not None
        # the name argument is request_new's own name parameter (possibly case-randomised copy)
        r.inst("request_new", {"site": c[0].where(), "result_tested": okc, "name_arg": show(c[0].e[2][1])})
        # request_len field receives the result variable
        stores = [el for el, lhs, op, rhs in g.stores() if is_e(strip(lhs), "fld") and strip(lhs)[2] == "request.request_len"]
        if not stores:
            r.bad("K8:request_new:length-not-recorded", c[0].where(), g.name, "the built length is not stored as request_len")
    if not okc:
        r.bad("K12:request_new:unchecked:evdns_request_data_build", "%s:%d" % (g.file, g.line), g.name, "a failed build is not detected")
    rules.append(r)
    return rules
