"""C43 — RPC calls complete exactly once: a request wrapper is never released without its completion callback (K3)."""
from ..core import Rule
from ..prog import *
from ..facts import AnalysisBroken
from ..typestate import exactly_once

UNITS = ["evrpc"]
LEVEL = "other"
EXPLANATION = ("K3 over evrpc.c: every call of evrpc_request_wrapper_free(ctx) outside the pool teardown is preceded, on every path from the entry of "
               "its function, by an invocation of the user's completion callback (slot evrpc_request_wrapper.cb) — directly or through a callee that always "
               "invokes it — and no path invokes that callback twice before the release; conversely after the callback every path reaches the release "
               "(the wrapper is not leaked). The pool destructor, which discards queued requests that were never started, is the one named exception. "
               "Decides 'free is preceded by exactly one completion'; reply equality and completion under network fault sequences are declined.")
ASSUMPTIONS = ["requests discarded by evrpc_pool_free were never handed to the network (documented teardown semantics)"]
CONFIGS = ["build", "assert"]
TEARDOWN = {"evrpc_pool_free": "pool destructor: queued, never started requests are discarded"}
CB_SLOT = "evrpc_request_wrapper.cb"


def run(ctx, config):
    P = ctx.prog(UNITS, config)
    fns = P.fns_in("evrpc.c")
    rules = []
    # functions that always complete (call cb and free) their wrapper argument: inferred
    completes = set()
    changed = True
    def is_cb(f, el):
        if el.e[0] != "call":
            return False
        if callee_slot(el.e) == CB_SLOT:
            return True
        return callee_name(el.e) in completes
    def is_free(el):
        return el.e[0] == "call" and callee_name(el.e) == "evrpc_request_wrapper_free"
    while changed:
        changed = False
        for f in fns:
            if f.name in completes:
                continue
            if not any(is_cb(f, el) for el in f.elems()):
                continue
            # every path entry -> exit passes a completion
            w = f.exit_reachable_avoiding((f.entry, -1), lambda el, f=f: is_cb(f, el))
            if w is None:
                completes.add(f.name)
                changed = True
    r = Rule("C43-complete", "K3", "a request wrapper is released only after its completion callback ran, exactly once", floor=4)
    r.notes.append("functions that complete their wrapper on every path: %s" % sorted(completes))
    for f in fns:
        for el in f.calls("evrpc_request_wrapper_free"):
            if f.name in TEARDOWN:
                r.inst((f.name, el.n), {"fn": f.name, "site": el.where(), "exception": TEARDOWN[f.name]}, nontrivial=False)
                continue
            w = f.path_avoiding((f.entry, -1), lambda x: x is el, lambda x, f=f: is_cb(f, x))
            r.inst((f.name, el.n), {"fn": f.name, "site": el.where(), "completion_before_free_on_every_path": w is None})
            if w is not None:
                r.bad("K3:%s:free-without-callback" % f.name, el.where(), f.name,
                      "evrpc_request_wrapper_free is reachable without the completion callback having run: the RPC is dropped silently")
        # no double completion; no leak after completion
        for el in f.elems():
            if is_cb(f, el) and callee_slot(el.e) == CB_SLOT:
                res = exactly_once(f, el.pos(), is_free)
                dbl = f.path_avoiding(el.pos(), lambda x, f=f, el=el: is_cb(f, x) and x is not el, is_free)
                r.inst((f.name, el.n, "cb"), {"fn": f.name, "site": el.where(), "freed_after": not res["leaks"], "second_completion": repr(dbl) if dbl else None})
                if res["leaks"]:
                    r.bad("K11:%s:wrapper-leak-after-callback" % f.name, el.where(), f.name, "after the completion callback a path returns without releasing the wrapper")
                if dbl is not None:
                    r.bad("K3:%s:double-completion" % f.name, dbl.where(), f.name, "the completion callback can run twice for one request")
    rules.append(r)
    return rules
