"""C43 — RPC calls complete exactly once: a request wrapper is never released without its completion callback (K3)."""
from ..core import Rule
from ..prog import *
from ..facts import AnalysisBroken
from ..typestate import exactly_once

UNITS = ["evrpc"]
LEVEL = "other"
EXPLANATION = ("K3 over evrpc.c: every call of evrpc_request_wrapper_free(ctx) outside the pool teardown is preceded, on every path from the entry of "
               "its function, by an invocation of the user's completion callback (slot evrpc_request_wrapper.cb) — directly or through a callee that always "
               "invokes it — and no path invokes that callback twice before the release; conversely after the callback every path reaches the release "
               "(the wrapper is not leaked). The pool destructor, which discards queued requests that were never started, is the one named exception. "
               "Decides 'free is preceded by exactly one completion'; reply equality and completion under network fault sequences are declined.")
ASSUMPTIONS = ["requests discarded by evrpc_pool_free were never handed to the network (documented teardown semantics)"]
CONFIGS = ["build", "assert"]
TEARDOWN = {"evrpc_pool_free": "pool destructor: queued, never started requests are discarded"}
CB_SLOT = "evrpc_request_wrapper.cb"


def run(ctx, config):
    P = ctx.prog(UNITS, config)
    fns = P.fns_in("evrpc.c")
    rules = []
    # functions that always complete (call cb and free) their wrapper argument: inferred
    completes = set()
    changed = True
    def is_cb(f, el):
        if el.e[0] != "call":
            return False
        if callee_slot(el.e) == CB_SLOT:
            return True
        return callee_name(el.e) in completes
    def is_free(el):
        return el.e[0] == "call" and callee_name(el.e) == "evrpc_request_wrapper_free"
    while changed:
        changed = False
        for f in fns:
            if f.name in completes:
                continue
            if not any(is_cb(f, el) for el in f.elems()):
                continue
            # every path entry -> exit passes a completion
            w = f.exit_reachable_avoiding((f.entry, -1), lambda el, f=f: is_cb(f, el))
            if w is None:
                completes.add(f.name)
                changed = True
    r = Rule("C43-complete", "K3", "a request wrapper is released only after its completion callback ran, exactly once", floor=4)
    r.notes.append("functions that complete their wrapper on every path: %s" % sorted(completes))
    for f in fns:
        for el in f.calls("evrpc_request_wrapper_free"):
            if f.name in TEARDOWN:
                r.inst((f.name, el.n), {"fn": f.name, "site": el.where(), "exception": TEARDOWN[f.name]}, nontrivial=False)
                continue
            w = f.path_avoiding((f.entry, -1), lambda x: x is el, lambda x, f=f: is_cb(f, x))
            r.inst((f.name, el.n), {"fn": f.name, "site": el.where(), "completion_before_free_on_every_path": w is None})
            if w is not None:
                r.bad("K3:%s:free-without-callback" % f.name, el.where(), f.name,
                      "evrpc_request_wrapper_free is reachable without the completion callback having run: the RPC is dropped silently")
        # no double completion; no leak after completion
        for el in f.elems():
            if is_cb(f, el) and callee_slot(el.e) == CB_SLOT:
                res = exactly_once(f, el.pos(), is_free)
                dbl = f.path_avoiding(el.pos(), lambda x, f=f, el=el: is_cb(f, x) and x is not el, is_free)
                r.inst((f.name, el.n, "cb"), {"fn": f.name, "site": el.where(), "freed_after": not res["leaks"], "second_completion": repr(dbl) if dbl else None})
                if res["leaks"]:
                    r.bad("K11:%s:wrapper-leak-after-callback" % f.name, el.where(), f.name, "after the completion callback a path returns without releasing the wrapper")
                if dbl is not None:
                    r.bad("K3:%s:double-completion" % f.name, dbl.where(), f.name, "the completion callback can run twice for one request")
    rules.append(r)

    # ---- the per-RPC timer never outlives / overlaps the completion
    r2 = Rule("C43-timer", "K3/K11", "the per-RPC timeout is cancelled before the reply is processed, and an armed timer is deleted before its wrapper is released", floor=2)
    TIMER = "evrpc_request_wrapper.ev_timeout"
    def is_arm(x):
        return x.e[0] == "call" and callee_name(x.e) in ("event_add", "evtimer_add") and any(is_e(q, "fld") and q[2] == TIMER for q in walk(x.e[2][0]))
    def is_del(x):
        return x.e[0] == "call" and callee_name(x.e) in ("event_del", "evtimer_del", "event_del_block", "event_del_noblock") and any(is_e(q, "fld") and q[2] == TIMER for q in walk(x.e[2][0]))
    # (i) the function registered as the http completion callback cancels the timer before anything else it does with the reply
    cbs = set(rf["fn"] for rf in P.fnrefs if rf["ctx"].get("k") == "arg" and rf["ctx"]["callee"][0] == "fn" and rf["ctx"]["callee"][1] == "evhttp_request_new" and rf["file"] == "evrpc.c")
    for name in sorted(cbs):
        g = P.fn(name)
        dels = [x for x in g.elems() if is_del(x)]
        others = [x for x in g.calls() if not is_del(x) and (callee_name(x.e) in ("evrpc_pause_request", "evrpc_reply_done_closure", "evrpc_process_hooks", "evrpc_hook_associate_meta_") or callee_slot(x.e))]
        ok = bool(dels) and all(any(g.pos_dominates(d.pos(), o.pos()) for d in dels) for o in others)
        r2.inst(("reply-cb", name), {"fn": name, "timer_cancelled_at": [d.where() for d in dels], "dominates_all_reply_processing": ok})
        if not ok:
            r2.bad("K3:%s:timer-not-cancelled-first" % name, "%s:%d" % (g.file, g.line), name,
                   "the reply is processed (hooks, pause, completion) while the request's timeout can still be pending: a paused reply can be timed out later, "
                   "failing the connection and other RPCs on it")
    if not cbs:
        r2.brk("the http completion callback of evrpc requests was not found")
    # (ii) within one function: armed, then released without a delete
    for g in fns:
        for a in [x for x in g.elems() if is_arm(x)]:
            w = g.path_avoiding(a.pos(), is_free, is_del)
            r2.inst(("arm", g.name, a.n), {"fn": g.name, "site": a.where(), "released_while_armed": repr(w) if w else None})
            if w is not None:
                r2.bad("K11:%s:armed-timer-freed" % g.name, w.where(), g.name,
                       "the wrapper is released at line %d although its timeout armed at line %d may still be pending: the timer fires on freed memory" % (w.line, a.line))
    rules.append(r2)

    # ---- pausing can fail: its result decides whether the request is parked
    r3 = Rule("C43-pause", "K12", "the result of evrpc_pause_request is tested: a request that could not be parked must still complete", floor=2)
    from .. import effects
    F = effects.Fail(P, fns)
    for g in fns:
        for el in g.calls("evrpc_pause_request"):
            site = F.sites.get((g.name, el.n))
            r3.inst((g.name, el.n), {"fn": g.name, "site": el.where(), "tested": site is not None})
            if site is None:
                r3.bad("K12:%s:unchecked:evrpc_pause_request" % g.name, el.where(), g.name,
                       "evrpc_pause_request can fail (allocation); here its result is ignored and the function returns as if the request were parked: it never completes")
    rules.append(r3)
    rules.append(rule_reschedule(P, fns))
    return rules



def rule_reschedule(P, fns):
    """liveness half of exactly-once: requests wait in pool->requests until evrpc_pool_schedule finds them a connection; every point at which a request leaves the
    system (its completion callback ran) must be followed by a look at the queue, otherwise queued requests wait for an event that may never come"""
    r = Rule("C43-reschedule", "K3", "after every client-side completion the pool's queue is looked at again (evrpc_pool_schedule), in the completing function or in every caller", floor=3)
    byname = {f.name: f for f in fns}
    sched = lambda x: x.e[0] == "call" and callee_name(x.e) == "evrpc_pool_schedule"
    used_as_value = set(rf["fn"] for rf in P.fnrefs if rf["fn"] in byname)
    indirect_callers = [(f, el) for f in fns for el in f.elems() if el.e[0] == "call" and callee_name(el.e) is None and (callee_slot(el.e) or "").startswith("evrpc_hook_ctx.")]
    for f in fns:
        for el in f.elems():
            if not (el.e[0] == "call" and callee_slot(el.e) == CB_SLOT):
                continue
            local = f.exit_reachable_avoiding(el.pos(), sched) is None
            via = []
            ok = local
            if not local:
                # every way into f must schedule after f returns
                ok = True
                callers = [(g, c) for g in fns for c in g.calls(f.name)]
                if f.name in used_as_value:
                    callers += indirect_callers
                if not callers:
                    ok = False
                for g, c in callers:
                    if g.name == "evrpc_pool_schedule":
                        # called from the scheduler itself: it must go on with the queue after a request that could not be started
                        good = g.exit_reachable_avoiding(c.pos(), lambda x: sched(x) or (x.e[0] == "call" and callee_name(x.e) == f.name and x is not c)) is None
                    else:
                        good = g.exit_reachable_avoiding(c.pos(), sched) is None
                    via.append((g.name, c.where(), good))
                    ok = ok and good
            r.inst((f.name, el.n), {"fn": f.name, "completion": el.where(), "schedules_afterwards_locally": local, "callers": via})
            if not ok:
                badc = [v for v in via if not v[2]]
                r.bad("K3:%s:completion-without-reschedule" % f.name, el.where(), f.name,
                      "a request completes here and %s: requests still queued on the pool are not given the free connection until some unrelated event looks at the queue (they may never complete)" % (
                          "neither this function nor its caller %s (%s) calls evrpc_pool_schedule afterwards" % (badc[0][0], badc[0][1]) if badc else "nothing calls evrpc_pool_schedule afterwards"))
    return r
