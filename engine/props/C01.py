"""C01 — timers: never early, not late, FIFO of common queues, heap back-pointers, encapsulation (K4/K6 order types, K2, K3, K5)."""
from ..core import Rule
from ..prog import *
from ..facts import AnalysisBroken
from ..interp import normx, nkey, run as irun
from .. import timecmp as T

UNITS = ["event"]
LEVEL = "other"
CONFIGS = ["build", "assert", "reinsert"]
EXPLANATION = (
    "Structural clauses of the timer property, decided on clang's CFG of event.c/minheap-internal.h. "
    "T1: in every function that activates the head of the timer heap / of a common-timeout queue with EV_TIMEOUT, the region between "
    "the head read and the activation is evaluated on all nine order types of (deadline, now): activation must be reached exactly when "
    "deadline <= now (never early, not one iteration late), `now` must be the value gettime() stored before the loop, and the loop must go "
    "back for the next head. T2: timeout_next waits zero exactly when deadline <= now, else deadline - now (operand order and borrow checked "
    "on representatives), NULL when the heap is empty; its out-pointer is the one handed to the backend's dispatch, and timeout_process runs "
    "after dispatch and the time-cache update on every path to callback processing. T3 (who-may): the heap and the common queues are modified "
    "only by the queue-insert/remove functions, ev_timeout only by event_add_nolock_. T4: insert_common_timeout_inorder scans from the tail and "
    "inserts after the first element whose deadline is <= the new one (FIFO among equal deadlines). T6: every store into the heap array is paired "
    "with the back-pointer store of the same index, removals reset it, and every heap comparison has the orientation its use needs. "
    "T7: the common-queue head timer is re-armed on every path of common_timeout_schedule, at the head's deadline, from both places that can change the head. "
    "T5: event_persist_closure re-arms at (previous deadline if it fired for EV_TIMEOUT else now) + interval, or now + interval when that is in the past. "
    "Declined: exactly-once-per-add over add/del histories, heap permutation correctness for all sizes, clock-jump behaviour.")
ASSUMPTIONS = ["gettime() returns a non-decreasing clock reading", "the region evaluator treats the extracted conditions as pure (checked: any unknown call or value ends as analysis-broken)"]

EV_TIMEOUT_F = "event.ev_timeout"
IDX_F = "min_heap_idx"


def _heads(P, f, X):
    """definitions of variable X that read a queue head: min_heap_top_ or TAILQ_FIRST"""
    out = []
    for d, rhs in f.var_stores(X):
        r = strip(rhs)
        if is_e(r, "call") and callee_name(r) == "min_heap_top_":
            out.append((d, "heap"))
        elif any(is_e(q, "fld") and q[2].endswith(".tqh_first") for q in walk(r)) and "common_timeout_list.events" in fields_of(r):
            out.append((d, "queue"))
    return out


def rule_expire(P):
    r = Rule("C01-expire", "K4/K6", "a queue head is activated with EV_TIMEOUT exactly when deadline <= now (order types), now = gettime before the loop, loop continues", floor=2)
    for f in P.fns_in("event.c"):
        for a in f.calls("event_active_nolock_"):
            if len(a.e[2]) < 2 or not (is_e(strip(a.e[2][1]), "int") and strip(a.e[2][1])[1] == 1):
                continue
            X = strip(a.e[2][0])
            if not is_e(X, "var"):
                continue
            heads = _heads(P, f, X[1])
            if not heads:
                continue   # not a queue head (event_base_once, active_by_fd)
            # now = local passed by address to gettime
            nowv = None
            g = None
            for c in f.calls("gettime"):
                v = strip(c.e[2][1])
                if is_e(v, "addr") and is_e(strip(v[1]), "var"):
                    nowv, g = strip(v[1]), c
            if nowv is None:
                continue   # no clock reading: an unconditional activation API (event_base_active_by_fd), not an expiry test
            for d, kind in heads:
                A = ["fld", X, EV_TIMEOUT_F, "->"]
                hi = 0x50000000 if kind == "queue" else 0   # common-timeout magic bits sit above MICROSECONDS_MASK
                flagleaf = {}
                extra = []
                for fl in (0, 8, 32):
                    e = {X[1]: 1}
                    for fn_ in ("event_callback.evcb_flags",):
                        e[key(["fld", ["fld", X, "event.ev_evcallback", "->"], fn_, "."])] = fl
                    extra.append(e)
                rel, detail = T.rel_of_region(f, (d.bid, d.idx + 1), lambda el: el is a, A, nowv, P, extra, lambda el, env: None, hi_a=hi)
                ok = rel == "<="
                r.inst((f.name, kind), {"fn": f.name, "head": d.where(), "kind": kind, "activation": a.where(), "activated_when_deadline": rel, "now": show(nowv)})
                if rel is None:
                    r.brk("%s: region between head read and activation is outside the pure fragment: %s" % (f.name, detail))
                elif not ok:
                    r.bad("K4:%s:expiry-test:%s" % (f.name, rel), a.where(), f.name,
                          "the %s head is activated with EV_TIMEOUT when deadline %s now; it must be exactly when deadline <= now "
                          "(%s)" % (kind, rel, "fires before its deadline" if rel in (">", ">=", "always", "!=", "mixed") else "a timer due exactly now waits for a later iteration"))
                # now is read once, before the loop, and dominates
                if not f.pos_dominates(g.pos(), d.pos()) and not f.dominates(g.bid, d.bid):
                    r.bad("K8:%s:now-not-before-loop" % f.name, g.where(), f.name, "gettime(&now) does not dominate the head read")
                if g.bid in f.loops_of(d.bid) or any(g.bid in f.natural_loop(h) for h in f.loops_of(a.bid)):
                    r.bad("K8:%s:now-reread-in-loop" % f.name, g.where(), f.name, "the clock is re-read inside the expiry loop (a timer could be judged against two different nows)")
                nst = [el for el, lhs, op, rhs in f.stores() if root_var(lhs) is not None and root_var(lhs)[1] == nowv[1] and el.e[0] != "decl"]
                if nst:
                    r.bad("K8:%s:now-overwritten" % f.name, nst[0].where(), f.name, "`%s` is modified after gettime" % nowv[1])
                # loop: from the activation the head read is reachable again
                # (a loop written with the head read in its initialiser and again in its step has two reads: the step is the one that is reached again)
                if not any(d2.bid in f.reach_blocks(a.bid) for d2, k2 in heads if k2 == kind) or not f.loops_of(a.bid):
                    r.bad("K3:%s:one-timer-per-pass" % f.name, a.where(), f.name, "after an activation the next head is not examined (other due timers wait for a later iteration)")
    return r


def rule_wait(P):
    r = Rule("C01-wait", "K4/K6/K8", "timeout_next: zero wait iff deadline <= now, else deadline - now; NULL when no timer; its pointer reaches dispatch; timeout_process after dispatch", floor=5)
    f = P.fn("timeout_next")
    tops = [d for d, k in _heads(P, f, "ev") if k == "heap"]
    if len(tops) != 1:
        r.brk("timeout_next: expected one min_heap_top_ read")
        return r
    d = tops[0]
    X = ["var", "ev", "local"]
    A = ["fld", X, EV_TIMEOUT_F, "->"]
    g = list(f.calls("gettime"))
    if len(g) != 1:
        r.brk("timeout_next: expected one gettime")
        return r
    nowv = strip(strip(g[0].e[2][1])[1])
    tvp = f.params[1][0]
    outs = [s for s in f.var_stores("tv") if True]
    cv = lambda el, env: 0 if callee_name(el.e) == "gettime" else None
    tvk_s = nkey(["fld", ["var", "tv", "local"], T.SEC, "->"])
    tvk_u = nkey(["fld", ["var", "tv", "local"], T.USEC, "->"])
    bad_orient = None
    n = 0
    for (ds, du, ns, nu) in [(ds, du, 5, 500) for ds in (4, 5, 6) for du in (499, 500, 501)] + [(6, 0, 5, 999999), (7, 1, 5, 999999), (5, 999999, 5, 0)]:
        env = {"ev": 1, key(normx(["fld", A, T.SEC, "."])): ds, key(normx(["fld", A, T.USEC, "."])): du,
               key(["fld", nowv, T.SEC, "."]): ns, key(["fld", nowv, T.USEC, "."]): nu, tvk_s: -7, tvk_u: -7}
        o = irun(f, (d.bid, d.idx + 1), env, lambda el: False, P, cv)
        n += 1
        if o.kind != "ret":
            r.brk("timeout_next: evaluation ended as %s (%s)" % (o.kind, o.why))
            return r
        got = (o.env.get(tvk_s), o.env.get(tvk_u))
        due = (ds, du) <= (ns, nu)
        if due:
            want = (0, 0)
        else:
            us = (ds - ns) * 1000000 + (du - nu)
            want = (us // 1000000, us % 1000000)
        r.inst(("eval", ds, du, ns, nu), {"deadline": [ds, du], "now": [ns, nu], "wait": list(got), "expected": list(want)}, nontrivial=True)
        if got != want:
            bad_orient = (ds, du, ns, nu, got, want)
    if bad_orient:
        ds, du, ns, nu, got, want = bad_orient
        r.bad("K4:timeout_next:wait-value", d.where(), f.name,
              "for deadline (%d,%d) and now (%d,%d) the wait handed to the backend is %s, expected %s" % (ds, du, ns, nu, got, want))
    # empty heap -> *tv_p = NULL
    o = irun(f, (d.bid, d.idx + 1), {"ev": 0}, lambda el: False, P, cv)
    pk = nkey(["deref", ["var", tvp, "param"]])
    r.inst("empty", {"heap": "empty", "*tv_p": o.env.get(pk), "kind": o.kind})
    if o.kind != "ret" or o.env.get(pk) != 0:
        r.bad("K4:timeout_next:empty-heap-not-null", d.where(), f.name, "with no timer pending the wait pointer is not set to NULL (the loop would not block)")
    # the loop: pointer to dispatch, ordering
    loopf = [x for x in P.fns_in("event.c") if any(True for _ in x.calls(slot="eventop.dispatch"))]
    if len(loopf) != 1:
        r.brk("expected exactly one caller of eventop.dispatch in event.c, found %s" % [x.name for x in loopf])
        return r
    L = loopf[0]
    disp = list(L.calls(slot="eventop.dispatch"))[0]
    tn = list(L.calls("timeout_next"))
    tp = list(L.calls("timeout_process"))
    utc = list(L.calls("update_time_cache"))
    epa = list(L.calls("event_process_active"))
    if len(tn) != 1 or len(tp) != 1 or not utc or len(epa) != 1:
        r.brk("%s: expected one timeout_next, one timeout_process, update_time_cache, one event_process_active" % L.name)
        return r
    tn, tp, epa = tn[0], tp[0], epa[0]
    a1 = strip(tn.e[2][1])
    pv = strip(a1[1]) if is_e(a1, "addr") else None
    dv = strip(disp.e[2][1])
    same = pv is not None and eq(pv, dv)
    restores = [el for el, rhs in L.var_stores(dv[1])] if is_e(dv, "var") else []
    between = [el for el in restores if L.path_avoiding(tn.pos(), lambda x: x is el, lambda x: x is disp) and L.path_avoiding(el.pos(), lambda x: x is disp, lambda x: x is tn)]
    r.inst("ptr", {"loop": L.name, "timeout_next_arg": show(a1), "dispatch_arg": show(dv), "same_pointer": same, "reassigned_between": [x.where() for x in between]})
    if not same or between:
        r.bad("K8:%s:wait-pointer" % L.name, disp.where(), L.name, "the timeout handed to the backend is not the one timeout_next computed")
    # skip of timeout_next only when callbacks are active / NONBLOCK, and then the wait is zeroed
    if not L.dominates(tn.bid, disp.bid):
        # there must be a store zeroing tv on the other branch
        zero = [el for el in L.elems() if el.mac and "evutil_timerclear" in el.mac]
        w = L.path_avoiding((L.entry, -1), lambda x: x is disp, lambda x: x is tn or x in zero)
        r.inst("skip", {"zeroing_sites": [z.where() for z in zero][:2], "dispatch_reachable_without_either": bool(w)})
        if w is not None:
            r.bad("K3:%s:wait-uninitialised" % L.name, disp.where(), L.name, "dispatch is reachable with a wait that is neither computed by timeout_next nor cleared")
    # ordering after dispatch: update_time_cache and timeout_process before event_process_active; timeout_process on every non-error path
    w = L.path_avoiding(disp.pos(), lambda x: x is epa, lambda x: x is tp)
    w2 = L.path_avoiding(disp.pos(), lambda x: x is tp, lambda x: x in utc)
    w3 = L.path_avoiding(disp.pos(), lambda x: x is tn or x is disp, lambda x: x is tp)
    r.inst("order", {"process_active_without_timeout_process": bool(w), "timeout_process_without_time_update": bool(w2), "next_iteration_without_timeout_process": bool(w3)})
    if w is not None or w3 is not None:
        r.bad("K3:%s:timeout_process-skipped" % L.name, tp.where(), L.name, "after the backend wait a path reaches callback processing or the next wait without timeout_process (due timers fire late)")
    if w2 is not None:
        r.bad("K3:%s:stale-clock" % L.name, tp.where(), L.name, "timeout_process can run before the time cache is updated after the wait (timers judged against the pre-wait clock)")
    return r


HEAP_MUT = {"min_heap_push_", "min_heap_erase_", "min_heap_adjust_", "min_heap_pop_"}
HEAP_INTERNAL = {"min_heap_shift_up_", "min_heap_shift_down_", "min_heap_shift_up_unconditional_"}
QUEUE_OWNERS = {"event_queue_insert_timeout", "event_queue_remove_timeout", "event_queue_reinsert_timeout", "insert_common_timeout_inorder"}


def rule_who(P):
    r = Rule("C01-who", "K2", "heap / common-queue / deadline writers are the frozen owner set", floor=12)
    allowed_heap_callers = QUEUE_OWNERS | HEAP_MUT
    for n in sorted(HEAP_MUT | HEAP_INTERNAL):
        for f, el in P.callers().get(n, []):
            ok = (f.name in allowed_heap_callers) if n in HEAP_MUT else (f.name in HEAP_MUT)
            r.inst(("call", n, f.name, el.n), {"callee": n, "caller": f.name, "site": el.where()}, nontrivial=False)
            if not ok:
                r.bad("K2:%s:calls:%s" % (f.name, n), el.where(), f.name, "%s is called outside the timeout-queue owner functions (the TIMEOUT flag and event counts would disagree with the heap)" % n)
    for f in P.all_fns:
        for el, lhs, op, rhs in f.stores():
            fl = fields_of(lhs)
            if not fl:
                continue
            if fl[-1] in ("min_heap.p", "min_heap.n", "min_heap.a") or (len(fl) >= 2 and fl[-2] == "min_heap.p"):
                ok = f.name.startswith("min_heap_")
                what = "heap storage"
            elif any(x.endswith(".ev_next_with_common_timeout") for x in fl) or (fl[0] == "common_timeout_list.events"):
                ok = f.name in QUEUE_OWNERS or (f.name == "event_base_init_common_timeout" and el.mac and el.mac[-1] == "TAILQ_INIT")
                what = "common-timeout queue links"
            elif EV_TIMEOUT_F in fl and not any(x.endswith("ev_timeout_pos") for x in fl):
                ok = f.name in ("event_add_nolock_",)
                what = "an event's deadline (ev_timeout)"
            elif fl[-1].endswith(IDX_F):
                ok = f.name.startswith("min_heap_")
                what = "heap back-pointer"
            else:
                continue
            r.inst(("store", f.name, el.n), {"fn": f.name, "site": el.where(), "writes": show(lhs)[:70], "class": what})
            if not ok:
                r.bad("K2:%s:writes:%s" % (f.name, what.split()[0]), el.where(), f.name, "%s is written outside its owner functions: %s" % (what, show(el.e)[:80]))
    return r


def rule_fifo(P):
    r = Rule("C01-fifo", "K4/K6", "insert_common_timeout_inorder: reverse scan, insert after the first element with deadline <= the new one, else at head", floor=3)
    f = P.fn("insert_common_timeout_inorder")
    ev = ["var", f.params[1][0], "param"]
    ins_after = [el for el in f.elems() if el.mac and el.mac[-1] == "TAILQ_INSERT_AFTER" and el.e[0] == "asg"]
    ins_head = [el for el in f.elems() if el.mac and el.mac[-1] == "TAILQ_INSERT_HEAD" and el.e[0] == "asg"]
    rev = [el for el in f.elems() if el.mac and el.mac[-1] == "TAILQ_FOREACH_REVERSE" and el.e[0] == "asg"]
    fwd = [el for el in f.elems() if el.mac and el.mac[-1] == "TAILQ_FOREACH"]
    if not ins_after or not ins_head or len(rev) < 2:
        r.brk("insert_common_timeout_inorder: expected TAILQ_FOREACH_REVERSE with TAILQ_INSERT_AFTER and a TAILQ_INSERT_HEAD fall-back (reverse=%d after=%d head=%d forward=%d)" % (len(rev), len(ins_after), len(ins_head), len(fwd)))
        return r
    cur = strip(rev[0].e[2])
    init = [x for x in rev if "common_timeout_list.events" in [q[2] for q in walk(x.e) if is_e(q, "fld")]]
    adv = [x for x in rev if x not in init]
    if len(init) != 1 or len(adv) != 1:
        r.brk("insert_common_timeout_inorder: reverse scan init/advance not recognised")
        return r
    init, adv = init[0], adv[0]
    # init reads the list tail, advance reads the previous element
    r.inst("scan", {"cursor": show(cur), "init": show(init.e)[:90], "advance": show(adv.e)[:90]})
    if not any(is_e(q, "fld") and q[2].endswith(".tqh_last") for q in walk(init.e)) or not any(is_e(q, "fld") and q[2].endswith(".tqe_prev") for q in walk(adv.e)):
        r.bad("K7:insert_common_timeout_inorder:scan-direction", init.where(), f.name, "the scan does not run from the tail towards the head")
    # body region: from loop test true edge
    hdr = [b for b in f.branch_blocks() if b.term.get("mac") and b.term["mac"][-1] == "TAILQ_FOREACH_REVERSE"]
    if not hdr:
        r.brk("no loop header")
        return r
    body = [s for s, l in hdr[0].succ if l == "T"][0]
    E = ["fld", cur, EV_TIMEOUT_F, "->"]
    A = ["fld", ev, EV_TIMEOUT_F, "->"]
    rel, detail = T.rel_of_region(f, (body, 0), lambda el: el in ins_after, A, E, P, [{cur[1]: 1}], lambda el, env: None,
                                  hi_a=0x50000000, hi_b=0x50000000, exit_blocks=(hdr[0].id,))
    r.inst("cmp", {"insert_after_current_when_new_deadline": rel, "stop": ins_after[0].where()})
    if rel is None:
        r.brk("loop body not evaluable: %s" % detail)
    elif rel != ">=":
        r.bad("K4:insert_common_timeout_inorder:insert-after-when:%s" % rel, ins_after[0].where(), f.name,
              "the new event is inserted after an element when new %s element; it must be new >= element (FIFO among equal deadlines, sorted otherwise)" % rel)
    # INSERT_AFTER target is the cursor; the function returns after inserting; fall-through inserts at head
    # the scanned element may be remembered in another local and linked behind after the loop (`pred = e; break; ... INSERT_AFTER(pred)`): a local all of whose
    # non-NULL stores are the cursor stands for it
    alias = {cur[1]}
    for nm in set(strip(lh)[1] for e_, lh, op_, rh in f.stores() if is_e(strip(lh), "var")):
        st = [strip(rh) for e_, lh, op_, rh in f.stores() if is_e(strip(lh), "var") and strip(lh)[1] == nm and rh is not None]
        st = [x for x in st if not (is_e(x, "null") or (is_e(x, "int") and x[1] == 0) or (is_e(x, "cast") and is_e(strip(x), "int") and strip(x)[1] == 0))]
        if st and all(eq(x, cur) for x in st):
            alias.add(nm)
    tgt_ok = any(is_e(strip(el.e[2]), "fld") and root_var(el.e[2]) is not None and root_var(el.e[2])[1] in alias and eq(strip(el.e[3]), ev) for el in ins_after)
    w = f.path_avoiding(ins_after[-1].pos(), lambda el: el in ins_head or el in rev, lambda el: el.e[0] == "ret")
    r.inst("shape", {"after_links_cursor_to_new": tgt_ok, "continues_after_insert": bool(w)})
    if not tgt_ok:
        r.bad("K7:insert_common_timeout_inorder:insert-after-wrong-element", ins_after[0].where(), f.name, "TAILQ_INSERT_AFTER does not link the new event after the scanned element")
    if w is not None:
        r.bad("K3:insert_common_timeout_inorder:double-insert", ins_after[0].where(), f.name, "after inserting, the scan continues (the event can be linked twice)")
    return r


def rule_heap(P):
    r = Rule("C01-heap", "K5/K7", "every heap slot store carries its back-pointer store; removals reset it; comparison orientations", floor=12)
    hf = [f for f in P.all_fns if f.name.startswith("min_heap_") and f.file.endswith("minheap-internal.h")]
    # (a) pairing
    for f in hf:
        for b in f.blocks.values():
            for i, el in enumerate(b.elems):
                e = el.e
                if e[0] == "asg" and e[1] == "=" and is_e(strip(e[2]), "idx") and fields_of(e[2]) and fields_of(e[2])[-1] == "min_heap.p":
                    ix = strip(e[2])[2]
                    nxt = b.elems[i + 1] if i + 1 < len(b.elems) else None
                    ok = False
                    if nxt is not None and nxt.e[0] == "asg" and nxt.e[1] == "=":
                        l = strip(nxt.e[2])
                        if is_e(l, "fld") and l[2].endswith(IDX_F):
                            base = strip(l[1])
                            while is_e(base, "fld"):
                                base = strip(base[1])
                            ok = eq(base, e) and eq(nxt.e[3], ix)
                    r.inst(("pair", f.name, el.n), {"fn": f.name, "site": el.where(), "slot": show(e[2]), "back_pointer_store": show(nxt.e)[:90] if nxt else None, "paired": ok})
                    if not ok:
                        r.bad("K5:%s:slot-store-without-back-pointer" % f.name, el.where(), f.name,
                              "%s is not followed by the store of that index into the stored event's min_heap_idx (a later erase/del would work on the wrong slot)" % show(e)[:60])
    # (b) removals reset the back pointer
    for n in ("min_heap_erase_", "min_heap_pop_"):
        f = P.fn(n)
        resets = [el for el, lhs, op, rhs in f.stores() if fields_of(lhs) and fields_of(lhs)[-1].endswith(IDX_F) and is_e(strip(rhs), "int") and strip(rhs)[1] in (-1, 0xFFFFFFFFFFFFFFFF)]
        shifts = [el for el in f.calls() if callee_name(el.e) in HEAP_INTERNAL]
        ok = bool(resets) and all(any(f.pos_postdominates(rs.pos(), s.pos()) or f.postdominates(rs.bid, s.bid) for rs in resets) for s in shifts) and bool(shifts)
        r.inst(("reset", n), {"fn": n, "resets": [x.where() for x in resets], "after_shifts": [s.where() for s in shifts], "ok": ok})
        if not ok:
            r.bad("K5:%s:removed-element-keeps-index" % n, f.file + ":%d" % f.line, n, "the removed element's min_heap_idx is not reset to EV_SIZE_MAX on every removing path (a later delete would erase another timer)")
    f = P.fn("min_heap_elem_init_")
    ok = any(fields_of(lhs) and fields_of(lhs)[-1].endswith(IDX_F) and is_e(strip(rhs), "int") and strip(rhs)[1] in (-1, 0xFFFFFFFFFFFFFFFF) for el, lhs, op, rhs in f.stores())
    r.inst("init", {"min_heap_elem_init_ sets EV_SIZE_MAX": ok})
    if not ok:
        r.bad("K5:min_heap_elem_init_:index-not-initialised", f.file + ":%d" % f.line, f.name, "a fresh event's heap index is not EV_SIZE_MAX")
    # (c) orientation table: (function, A-root, B-root) -> relation and what the true edge must reach
    def roots(x):
        x = strip(x)
        while is_e(x, "fld"):
            x = strip(x[1])
        return show(x)
    seen = {}
    for f in hf:
        for b in f.blocks.values():
            srcs = [el.e for el in b.elems] + ([b.term["cond"]] if b.term and b.term.get("cond") is not None and b.term.get("k") != "cond" else [])
            for src in srcs:
                for A, B, rel, node in T.timercmps(src, P):
                    seen[(f.name, roots(A), roots(B))] = (rel, b, src)
    EXPECT = [
        ("min_heap_shift_up_", "s->p[parent]", "e", ">"),
        ("min_heap_shift_up_unconditional_", "s->p[parent]", "e", ">"),
        ("min_heap_shift_down_", "s->p[min_child]", "s->p[(min_child - 1)]", ">"),
        ("min_heap_shift_down_", "e", "s->p[min_child]", ">"),
        ("min_heap_erase_", "s->p[parent]", "last", ">"),
        ("min_heap_adjust_", "s->p[parent]", "e", ">"),
    ]
    for fn_, a, b_, rel in EXPECT:
        got = seen.get((fn_, a, b_))
        r.inst(("cmp", fn_, a, b_), {"fn": fn_, "compares": "%s ? %s" % (a, b_), "relation": got[0] if got else None, "expected": rel})
        if got is None:
            alt = seen.get((fn_, b_, a))
            if alt is not None:
                r.bad("K7:%s:heap-comparison-swapped:%s:%s" % (fn_, a, b_), "%s:%d" % (P.fn(fn_).file, P.fn(fn_).line), fn_,
                      "the comparison of %s and %s has its operands swapped (%s %s %s)" % (a, b_, b_, alt[0], a))
            else:
                r.brk("%s: comparison of %s with %s not found (shape changed)" % (fn_, a, b_))
        elif got[0] != rel:
            r.bad("K7:%s:heap-comparison:%s:%s:%s" % (fn_, a, b_, got[0]), "%s:%d" % (P.fn(fn_).file, P.fn(fn_).line), fn_,
                  "heap comparison `%s %s %s` must be `%s` (min-heap on deadlines; equal deadlines must not swap endlessly)" % (a, got[0], b_, rel))
    # use of each comparison: which edge moves on
    def edge_reaches(f, blk, lab, pred):
        s = [x for x, l in blk.succ if l == lab]
        return bool(s) and any(pred(el) for bb in f.reach_blocks(s[0], avoid_blocks={blk.id}) for el in f.blocks[bb].elems)
    for fn_, callee_t, callee_f in (("min_heap_erase_", "min_heap_shift_up_unconditional_", "min_heap_shift_down_"),
                                    ("min_heap_adjust_", "min_heap_shift_up_unconditional_", "min_heap_shift_down_")):
        f = P.fn(fn_)
        up = list(f.calls(callee_t))
        dn = list(f.calls(callee_f))
        ok = False
        if len(up) == 1 and len(dn) >= 1:
            gs = [(negate_truth(c, t)) for c, t, _ in f.guards_at(up[0].bid)]
            # up is guarded by the true edge of the `parent > x` test; down is on the other edge
            ok = any(t and T.timercmps(c, P) for c, t in gs) and not any(f.dominates(up[0].bid, d.bid) for d in dn)
            gd = [(negate_truth(c, t)) for c, t, _ in f.guards_at(dn[-1].bid)]
        r.inst(("use", fn_), {"fn": fn_, "shift_up_when_parent_greater": ok})
        if not ok:
            r.bad("K7:%s:shift-direction" % fn_, "%s:%d" % (f.file, f.line), fn_, "the replacement is not shifted up exactly when its parent is greater (heap order broken after erase/adjust)")
    for fn_ in ("min_heap_shift_up_", "min_heap_shift_up_unconditional_"):
        f = P.fn(fn_)
        got = seen.get((fn_, "s->p[parent]", "e"))
        if got:
            b = got[1]
            # the block that evaluates the comparison is a loop condition: true edge reaches the move-parent-down store
            tb = [bb for bb in f.branch_blocks() if bb.term.get("cond") is not None and T.timercmps(bb.term["cond"], P) and bb.term.get("k") != "cond"]
            ok = False
            for bb in tb:
                mv = lambda el: el.e[0] == "asg" and is_e(strip(el.e[2]), "idx") and is_e(strip(el.e[3]), "idx")
                ok = ok or (edge_reaches(f, bb, "T", mv) and f.loops_of(bb.id))
            r.inst(("use", fn_), {"fn": fn_, "parent_moves_down_while_greater": bool(ok)})
            if not ok:
                r.bad("K7:%s:loop-direction" % fn_, "%s:%d" % (f.file, f.line), fn_, "the parent is not moved down on the edge where it is greater than the new element")
    f = P.fn("min_heap_shift_down_")
    tb = [bb for bb in f.branch_blocks() if bb.term.get("k") == "if" and T.timercmps(bb.term["cond"], P)]
    ok = False
    for bb in tb:
        c, t = negate_truth(bb.term["cond"], True)
        lab_greater = "T" if t else "F"
        mv = lambda el: el.e[0] == "asg" and is_e(strip(el.e[2]), "idx") and is_e(strip(el.e[3]), "idx")
        other = "F" if lab_greater == "T" else "T"
        ok = ok or (edge_reaches(f, bb, lab_greater, mv) and not edge_reaches(f, bb, other, mv))
    r.inst(("use", "min_heap_shift_down_"), {"child_moves_up_only_when_element_greater": ok})
    if not ok:
        r.bad("K7:min_heap_shift_down_:loop-direction", "%s:%d" % (f.file, f.line), f.name, "a child is moved up on an edge where the element is not greater than it")
    # min_child selection: `min_child -= (min_child == n || p[min_child] > p[min_child-1])`
    sel = [el for el, lhs, op, rhs in f.stores() if op == "-=" and T.timercmps(rhs, P)]
    ok = False
    if sel:
        rhs = sel[0].e[3]
        vn = None
        for q in walk(rhs):
            if is_e(q, "bin") and q[1] == "==" and is_e(strip(q[3]), "fld") and strip(q[3])[2] == "min_heap.n":
                vn = q
        ok = vn is not None and is_e(strip(rhs), "bin") and strip(rhs)[1] == "||"
    r.inst(("use", "min_child"), {"selects_smaller_child_or_only_child": ok})
    if not ok:
        r.bad("K7:min_heap_shift_down_:child-selection", "%s:%d" % (f.file, f.line), f.name, "the smaller child is not selected with `min_child -= (min_child == n || p[min_child] > p[min_child-1])`")
    return r


def rule_sched(P):
    r = Rule("C01-ctsched", "K3/K8", "the common-queue head timer is re-armed on every path, at the head's deadline, wherever the head can change", floor=4)
    arm = []
    for f in P.fns_in("event.c"):
        for el in f.calls("event_add_nolock_"):
            a0 = strip(el.e[2][0])
            if is_e(a0, "addr") and is_e(strip(a0[1]), "fld") and strip(a0[1])[2] == "common_timeout_list.timeout_event":
                arm.append((f, el))
    if len(arm) != 1:
        r.brk("expected exactly one site arming common_timeout_list.timeout_event, found %d" % len(arm))
        return r
    f, a = arm[0]
    w = f.exit_reachable_avoiding((f.entry, -1), lambda el: el is a)
    r.inst("always", {"fn": f.name, "arm": a.where(), "exit_reachable_without_arming": bool(w)})
    if w is not None:
        r.bad("K3:%s:head-timer-not-rearmed" % f.name, a.where(), f.name,
              "a path through %s returns without re-arming the queue's timer (a new earlier head would fire only at the old head's deadline)" % f.name)
    # the deadline handed over derives from head->ev_timeout (masked), absolute
    head = f.params[2][0] if len(f.params) > 2 else None
    tvarg = strip(a.e[2][1])
    absolute = is_e(strip(a.e[2][2]), "int") and strip(a.e[2][2])[1] == 1
    src_ok = False
    if is_e(tvarg, "addr") and is_e(strip(tvarg[1]), "var"):
        v = strip(tvarg[1])[1]
        defs = f.var_stores(v)
        src_ok = any(is_e(strip(rhs), "fld") and strip(rhs)[2] == EV_TIMEOUT_F and root_var(rhs) and root_var(rhs)[1] == head for d, rhs in defs)
        masks = [el for el, lhs, op, rhs in f.stores() if op == "&=" and root_var(lhs) and root_var(lhs)[1] == v and fields_of(lhs)[-1:] == [T.USEC]]
        src_ok = src_ok and bool(masks)
    r.inst("deadline", {"absolute": absolute, "from_head_deadline_masked": src_ok})
    if not (absolute and src_ok):
        r.bad("K8:%s:head-timer-deadline" % f.name, a.where(), f.name, "the queue timer is not armed at the head event's absolute deadline with the magic bits masked off")
    # callers: event_add_nolock_ (when the new event is the head) and the queue callback (when events remain)
    for g, el in P.callers().get(f.name, []):
        gs = [negate_truth(c, t) for c, t, _ in g.guards_at(el.bid)]
        if g.name == "event_add_nolock_":
            ok = any(t and is_e(strip(c), "bin") and strip(c)[1] == "==" and any(is_e(q, "fld") and q[2].endswith(".tqh_first") for q in walk(c)) for c, t in gs)
            ins = [x for x in g.calls() if callee_name(x.e) in ("event_queue_insert_timeout", "event_queue_reinsert_timeout")]
            ok = ok and bool(ins) and all(g.dominates(x.bid, el.bid) for x in ins)
            r.inst(("caller", g.name), {"caller": g.name, "site": el.where(), "when_new_event_is_head_after_insert": ok})
            if not ok:
                r.bad("K3:event_add_nolock_:head-timer-on-new-head", el.where(), g.name, "the queue timer is not re-armed exactly when the inserted event became the queue head")
        else:
            ok = any(t and is_e(strip(c), "var") for c, t in gs)
            loopcalls = [x for x in g.calls("event_active_nolock_")]
            after = all(g.path_avoiding(x.pos(), lambda y: y is el, lambda y: False) is not None for x in loopcalls)
            r.inst(("caller", g.name), {"caller": g.name, "site": el.where(), "when_events_remain": ok, "after_expiry_loop": after})
            if not ok or not after:
                r.bad("K3:%s:head-timer-after-expiry" % g.name, el.where(), g.name, "after expiring due events the queue timer is not re-armed for the remaining head")
    if len(P.callers().get(f.name, [])) < 2:
        r.brk("expected two callers of %s" % f.name)
    return r


def rule_persist(P):
    r = Rule("C01-persist", "K6", "event_persist_closure re-arms at (deadline if fired for timeout else now) + interval, or now + interval when that is past", floor=8)
    f = P.fn("event_persist_closure")
    adds = list(f.calls("event_add_nolock_"))
    if len(adds) != 1:
        r.brk("event_persist_closure: expected one event_add_nolock_")
        return r
    a = adds[0]
    ev = ["var", f.params[1][0], "param"]
    g = list(f.calls("gettime"))
    if len(g) != 1:
        r.brk("event_persist_closure: expected one gettime")
        return r
    nowv = strip(strip(g[0].e[2][1])[1])
    ra = strip(a.e[2][1])
    if not (is_e(ra, "addr") and is_e(strip(ra[1]), "var")) or not (is_e(strip(a.e[2][2]), "int") and strip(a.e[2][2])[1] == 1):
        r.brk("event_persist_closure: event_add_nolock_(ev, &run_at, 1) expected")
        return r
    runat = strip(ra[1])
    IO = ["fld", ["fld", ["fld", ev, "event.ev_", "->"], "event::ev_.ev_io", "."], "event::ev_::ev_io.ev_timeout", "."]
    DL = ["fld", ev, EV_TIMEOUT_F, "->"]
    RES = ["fld", ev, "event.ev_res", "->"]
    MAGIC = 0x50000000 | (3 << 20)
    cases = []
    for common in (0, 1):
        hi = MAGIC if common else 0
        for res in (1, 2):
            for (dl, now, iv) in (((10, 100), (10, 200), (1, 0)), ((10, 900000), (10, 900001), (0, 200000)), ((10, 100), (20, 5), (1, 0)),
                                  ((10, 100), (11, 100), (1, 0)), ((10, 100), (11, 101), (1, 0)), ((10, 0), (10, 0), (0, 1))):
                cases.append((common, hi, res, dl, now, iv))
    def cv(el, env):
        n = callee_name(el.e)
        if n == "is_common_timeout":
            a0 = nkey(["fld", strip(strip(el.e[2][0])[1]) if is_e(strip(el.e[2][0]), "addr") else el.e[2][0], T.USEC, "."])
            v = env.get(a0)
            return None if v is None else int((v & 0xf0000000) == 0x50000000)
        if n in ("is_same_common_timeout",):
            return 1
        return None
    bad = None
    for common, hi, res, dl, now, iv in cases:
        env = {key(normx(["fld", IO, T.SEC, "."])): iv[0], key(normx(["fld", IO, T.USEC, "."])): iv[1] | hi,
               key(normx(["fld", DL, T.SEC, "."])): dl[0], key(normx(["fld", DL, T.USEC, "."])): dl[1] | hi,
               key(normx(RES)): res, key(["fld", nowv, T.SEC, "."]): now[0], key(["fld", nowv, T.USEC, "."]): now[1]}
        o = irun(f, (f.entry, 0), env, lambda el: el is a, P, cv)
        if o.kind != "stop":
            r.brk("event_persist_closure: evaluation ended as %s (%s)" % (o.kind, o.why))
            return r
        got = (o.env.get(key(["fld", runat, T.SEC, "."])), o.env.get(key(["fld", runat, T.USEC, "."])))
        base = dl if res & 1 else now
        us = (base[0] + iv[0]) * 1000000 + base[1] + iv[1]
        if us < now[0] * 1000000 + now[1]:
            us = (now[0] + iv[0]) * 1000000 + now[1] + iv[1]
        want = (us // 1000000, (us % 1000000) | hi)
        r.inst(("eval", common, res, dl, now, iv), {"common": bool(common), "fired_for_timeout": bool(res & 1), "deadline": dl, "now": now, "interval": iv, "run_at": list(got), "expected": list(want)})
        if got != want and bad is None:
            bad = (common, res, dl, now, iv, got, want)
    if bad:
        common, res, dl, now, iv, got, want = bad
        r.bad("K6:event_persist_closure:rearm-value", a.where(), f.name,
              "persistent %s timer, fired for %s, previous deadline %s, now %s, interval %s: re-armed at %s, expected %s" %
              ("common-timeout" if common else "heap", "EV_TIMEOUT" if res & 1 else "I/O", dl, now, iv, got, want))
    # the re-arm happens before the user callback and only when an interval is set
    cb = [el for el in f.elems() if el.e[0] == "call" and el.e[1][0] == "ptr"]
    r.inst("order", {"rearm_before_callback": bool(cb) and all(f.path_avoiding(a.pos(), lambda x: x is c, lambda x: False) is not None for c in cb)})
    if not cb or any(f.path_avoiding(c.pos(), lambda x: x is a, lambda x: False) is not None for c in cb):
        r.bad("K3:event_persist_closure:rearm-after-callback", a.where(), f.name, "the persistent timer is re-armed after (or not before) the user callback")
    return r


def rule_clock(P):
    r = Rule("C01-clock", "K6/K3", "update_time_cache takes a fresh reading: the cache is invalidated before gettime; gettime uses the cache only when set; the loop clears it before the wait", floor=5)
    f = P.fn("update_time_cache")
    base = ["var", f.params[0][0], "param"]
    kc = nkey(["fld", ["fld", base, "event_base.tv_cache", "->"], "timeval.tv_sec", "."])
    kf = nkey(["fld", base, "event_base.flags", "->"])
    g = list(f.calls("gettime"))
    if len(g) != 1:
        r.brk("update_time_cache: expected one gettime")
        return r
    for nocache in (0, 1):
        for cached in (0, 1234):
            env = {base[1]: 1, kc: cached, kf: 0x08 if nocache else 0}
            for o in irun_all(f, (f.entry, 0), env, lambda el: el is g[0], P, lambda el, e_: None):
                if o.kind == "unknown":
                    r.brk("update_time_cache: %s" % o.why)
                    return r
                reached = o.kind == "stop"
                at = o.env.get(kc)
                r.inst(("utc", nocache, cached), {"NO_CACHE_TIME": bool(nocache), "cached_before": cached, "reads_clock": reached, "cache_sec_at_that_point": at})
                if nocache and (reached or at != 0):
                    r.bad("K6:update_time_cache:no-cache-flag", "%s:%d" % (f.file, f.line), f.name, "with EVENT_BASE_FLAG_NO_CACHE_TIME the cache is not left cleared")
                if not nocache and (not reached or at != 0):
                    r.bad("K6:update_time_cache:stale-cache", g[0].where(), f.name,
                          "the time cache still holds %s when gettime is called: gettime returns the cached value, so the 'updated' time is the old one "
                          "(timers and dispatch deadlines are judged against a frozen clock)" % at)
    h = P.fn("gettime")
    hb = ["var", h.params[0][0], "param"]
    hk = nkey(["fld", ["fld", hb, "event_base.tv_cache", "->"], "timeval.tv_sec", "."])
    mono = [el for el in h.calls() if callee_name(el.e) == "evutil_gettime_monotonic_"]
    if not mono:
        r.brk("gettime: no monotonic clock read")
        return r
    for cached in (0, 77):
        env = {hb[1]: 1, hk: cached, nkey(["fld", hb, "event_base.th_base_lock", "->"]): 0}
        for o in irun_all(h, (h.entry, 0), env, lambda el: el in mono, P, lambda el, e_: None):
            if o.kind == "exit" and o.why == "noreturn":
                continue
            reads = o.kind == "stop"
            r.inst(("gettime", cached), {"cache_sec": cached, "reads_monotonic_clock": reads})
            if reads != (cached == 0):
                r.bad("K6:gettime:cache-use", "%s:%d" % (h.file, h.line), h.name, "with tv_cache.tv_sec=%d gettime %s the clock" % (cached, "reads" if reads else "does not read"))
    # the loop clears the cache before the backend wait (so the post-wait update is the first reading after the sleep)
    Ls = [x for x in P.fns_in("event.c") if any(True for _ in x.calls(slot="eventop.dispatch"))]
    if len(Ls) == 1:
        L_ = Ls[0]
        disp = list(L_.calls(slot="eventop.dispatch"))[0]
        clr = list(L_.calls("clear_time_cache"))
        tn = list(L_.calls("timeout_next"))
        ok = bool(clr) and L_.path_avoiding((L_.entry, -1), lambda x: x is disp, lambda x: x in clr) is None
        r.inst("loop", {"clear_before_wait": ok})
        if not ok:
            r.bad("K3:%s:cache-not-cleared-before-wait" % L_.name, disp.where(), L_.name, "the backend wait can be entered with a time cache that was not cleared")
    return r


from ..interp import run_all as irun_all


def run(ctx, config):
    P = ctx.prog(UNITS, config)
    return [rule_expire(P), rule_wait(P), rule_who(P), rule_fifo(P), rule_heap(P), rule_sched(P), rule_persist(P), rule_clock(P)]
