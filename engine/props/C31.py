"""C31 — WebSocket frame reader: header decoding, completeness decision and bounds by typed evaluation of get_ws_frame over header/length/segmentation domains (K6/K4)."""
from ..core import Rule
from ..prog import *
from ..facts import AnalysisBroken
from ..interp import normx, nkey, run_all
from .. import wsmodel as WS

UNITS = ["ws"]
LEVEL = "other"
CONFIGS = ["build", "assert"]
EXPLANATION = (
    "get_ws_frame is evaluated from its extracted CFG with C integer semantics (unsigned wrap-around, integer promotions) on every combination of FIN, opcode "
    "class, MASK, length form (7-bit 0/1/125, 16-bit 126/300/65535, 64-bit 65536 / just below / at / above the 10 MiB limit / 2^63) and EVERY number of bytes "
    "present from 0 up to the complete frame (+1): it must answer INCOMPLETE_DATA exactly when fewer bytes are present than header + mask + payload (so a frame split "
    "at any position, including inside the masking key, is never taken for complete), only read header/mask bytes that are present, report ERROR_FRAME for a "
    "declared length above the limit and for reserved opcodes, INCOMPLETE_FRAME for a non-final data frame, and otherwise the opcode with *out_len = payload length "
    "and *payload_ptr = start + header size. The caller: reserved/error frames reach the disconnect path, INCOMPLETE_DATA leaves the input untouched. "
    "Declined: message reassembly across fragments and interleaved control frames (histories).")
ASSUMPTIONS = ["the evaluator's model of C unsigned arithmetic (engine/prog.py tevalx) follows the usual arithmetic conversions of LP64"]

LIMIT = 10485760
INCOMPLETE_DATA, ERROR_FRAME, INCOMPLETE_FRAME = 0xFF00, 0xF100, 0xFE00


def header(fin, opcode, masked, plen):
    b = [((fin & 1) << 7) | (opcode & 0x0F)]
    if plen <= 125:
        b.append((masked << 7) | plen)
    elif plen <= 65535:
        b.append((masked << 7) | 126)
        b += [(plen >> 8) & 0xFF, plen & 0xFF]
    else:
        b.append((masked << 7) | 127)
        b += [(plen >> (8 * i)) & 0xFF for i in range(7, -1, -1)]
    return b


def rule_frame(P):
    r = Rule("C31-frame", "K6/K4", "get_ws_frame: completeness, bounds, limits and classification on every header x presence combination", floor=400)
    f = P.fn("get_ws_frame")
    buf = ["var", f.params[0][0], "param"]
    lenp = f.params[1][0]
    pp = ["var", f.params[2][0], "param"]
    ol = ["var", f.params[3][0], "param"]
    enum = {}
    for e in P.enums.values():
        for n, v in e["items"]:
            enum[n] = v
    INC, ERR, INCF = enum.get("INCOMPLETE_DATA"), enum.get("ERROR_FRAME"), enum.get("INCOMPLETE_FRAME")
    if None in (INC, ERR, INCF):
        r.brk("WebSocketFrameType enumerators not found")
        return r
    kout = nkey(["deref", ol])
    kpp = nkey(["deref", pp])
    nbad = 0
    plens = [0, 1, 125, 126, 300, 65535, 65536, LIMIT - 1, LIMIT, LIMIT + 1, 1 << 63]
    for fin in (0, 1):
        for opcode in (0x0, 0x1, 0x2, 0x3, 0x8, 0x9, 0xA, 0xB):
            for masked in (0, 1):
                for plen in plens:
                    if (fin, opcode) not in ((1, 0x1), (0, 0x2), (1, 0x8), (1, 0x3), (1, 0xB), (0, 0x0)) and plen not in (0, 1, 300):
                        continue
                    h = header(fin, opcode, masked, plen)
                    hl = len(h)
                    need = hl + (4 if masked else 0) + plen
                    # presence: every prefix of header+mask, then around the complete size (payload bytes are never read before completeness is known)
                    pres = list(range(0, hl + 4 * masked + 2)) + [need - 1, need, need + 1]
                    for present in sorted(set(p for p in pres if p >= 0)):
                        if plen > LIMIT and present > hl + 6:
                            continue
                        if present >= need and plen > 300:
                            continue    # the unmask loop would run payload-many steps; large complete frames add nothing to the decision logic
                        env = {"#typed": 1, buf[1]: 1000, lenp: present, pp[1]: 1, ol[1]: 1, kout: -5, kpp: -5}
                        avail = min(present, hl + 4 * masked + min(plen, 300))
                        for i in range(min(avail, hl)):
                            env[nkey(["idx", buf, ["int", i]])] = h[i]
                        for i in range(hl, avail):
                            env[nkey(["idx", buf, ["int", i]])] = 0x5A
                        def hook(el, e_):
                            n = callee_name(el.e)
                            if n in ("memcpy", "__builtin_memcpy", "__builtin___memcpy_chk", "__memcpy_chk"):
                                # memcpy(&tmp16, in_buffer + pos, 2)
                                try:
                                    src = strip(el.e[2][1])
                                    off = evalx(normx(src[3]), e_, P) if is_e(src, "bin") else 0
                                    nbytes = evalx(normx(el.e[2][2]), e_, P)
                                except (EvalError, IndexError):
                                    return "impure"
                                bs = []
                                for i in range(off, off + nbytes):
                                    v = e_.get(nkey(["idx", buf, ["int", i]]))
                                    if v is None:
                                        e_["#oob"] = (i, "memcpy")
                                        v = 0
                                    bs.append(v)
                                dst = strip(el.e[2][0])
                                if is_e(dst, "addr") and is_e(strip(dst[1]), "var"):
                                    e_[strip(dst[1])[1]] = sum(b << (8 * i) for i, b in enumerate(bs))   # little-endian host
                                return 0
                            if n in ("ntohs", "__bswap_16", "__uint16_identity"):
                                try:
                                    v = evalx(normx(el.e[2][0]), e_, P)
                                except EvalError:
                                    return None
                                return ((v & 0xFF) << 8) | (v >> 8) if n != "__uint16_identity" else v
                            if n in ("event_warn", "event_warnx"):
                                return 0
                            return None
                        outs = run_all(f, (f.entry, 0), env, lambda el: False, P, hook, max_steps=2500)
                        for o in outs:
                            if o.kind == "exit" and o.why == "noreturn":
                                continue
                            if o.kind != "ret":
                                r.brk("get_ws_frame(fin=%d op=%#x mask=%d len=%d present=%d): %s %s" % (fin, opcode, masked, plen, present, o.kind, o.why))
                                return r
                            try:
                                ret = evalx(normx(o.at.e[1]), o.env, P)
                            except EvalError:
                                ret = None
                            # model
                            if present < 2:
                                want = INC
                            elif present < hl:
                                want = INC
                            elif plen > LIMIT and hl == 10:
                                want = ERR
                            elif present < need:
                                want = INC
                            elif (3 <= opcode <= 7) or opcode >= 0xB:
                                want = ERR
                            elif opcode >= 0x8 and (not fin or plen > 125):
                                want = ERR          # RFC 6455 5.5: control frames are not fragmented and carry at most 125 bytes
                            elif opcode <= 3 and not fin:
                                want = INCF
                            else:
                                want = opcode
                            outlen = o.env.get(kout)
                            r.inst((fin, opcode, masked, plen, present), {"fin": fin, "opcode": opcode, "masked": masked, "payload_len": plen, "bytes_present": present, "ret": ret, "out_len": outlen})
                            msg = None
                            if ret != want:
                                msg = "returns %s, documented %s" % (hex(ret) if ret is not None else None, hex(want))
                            elif want not in (INC, ERR) and outlen != plen:
                                msg = "*out_len = %s, payload length is %d" % (outlen, plen)
                            elif want == INC and outlen != -5:
                                msg = "writes *out_len although the frame is incomplete"
                            if "#oob" in o.env and msg is None:
                                msg = "reads in_buffer[%d] (%s) although only %d bytes are present" % (o.env["#oob"][0], o.env["#oob"][1], present)
                            if msg and nbad < 4:
                                nbad += 1
                                r.bad("K6:get_ws_frame:%s" % ("completeness" if want == INC or ret == INC else "classification"), "%s:%d" % (f.file, f.line), f.name,
                                      "FIN=%d opcode=%#x MASK=%d payload length %d, %d of %d bytes present: %s" % (fin, opcode, masked, plen, present, need, msg))
    return r


def rule_caller(P):
    r = Rule("C31-caller", "K3", "the read callback: INCOMPLETE_DATA leaves the input alone; error/reserved frames reach the disconnect path", floor=2)
    g = P.fn("ws_evhttp_read_cb")
    call = list(g.calls("get_ws_frame"))
    if len(call) != 1:
        r.brk("get_ws_frame call not found in ws_evhttp_read_cb")
        return r
    c = call[0]
    drains = [el for el in g.calls("evbuffer_drain")]
    tests = [b for b in g.branch_blocks() if any(is_e(q, "int") and len(q) > 2 and "INCOMPLETE_DATA" in (q[2] or "") for q in walk(b.term["cond"])) and g.dominates(c.bid, b.id)]
    ok = False
    if tests and drains:
        b = tests[0]
        t = [s for s, l in b.succ if l == "T"]
        ok = bool(t) and not any(d.bid in g.reach_blocks(t[0], avoid_blocks={c.bid}) for d in drains if not g.loops_of(d.bid) or True) or False
        # stricter: on the INCOMPLETE edge the loop is left (the call cannot be reached again)
        ok = bool(t) and c.bid not in g.reach_blocks(t[0])
    r.inst("incomplete", {"incomplete_data_leaves_loop_without_draining": ok})
    if not ok:
        r.bad("K3:ws_evhttp_read_cb:incomplete-data-consumed", c.where(), g.name, "on INCOMPLETE_DATA the read callback does not leave the buffered bytes untouched and wait for more")
    # ERROR_FRAME case reaches the close path
    closes = [el for el in g.calls() if callee_name(el.e) in ("evws_force_disconnect_", "evws_close", "evws_send_close_")]
    errlab = [b for b in g.blocks.values() if b.label and b.label[0] == "case" and len(b.label) > 2 and "ERROR_FRAME" in (b.label[2] or "")]
    ok2 = bool(errlab) and any(cl.bid in g.reach_blocks(errlab[0].id) for cl in closes)
    r.inst("error", {"error_frame_reaches_disconnect": ok2})
    if not ok2:
        r.bad("K3:ws_evhttp_read_cb:error-frame-not-closed", c.where(), g.name, "an ERROR_FRAME (oversized or reserved opcode) does not reach the disconnect path")
    return r


def rule_consume(P):
    from ..typestate import exactly_once
    r = Rule("C31-consume", "K11", "each decoded frame's payload is removed from the input exactly once per loop iteration", floor=1)
    g = P.fn("ws_evhttp_read_cb")
    call = list(g.calls("get_ws_frame"))
    if len(call) != 1:
        r.brk("get_ws_frame call not found")
        return r
    c = call[0]
    lenarg = strip(c.e[2][3])
    lenv = strip(lenarg[1]) if is_e(lenarg, "addr") else None
    if lenv is None:
        r.brk("payload length out-parameter not recognised")
        return r
    def consume(el):
        if el.e[0] != "call":
            return False
        n = callee_name(el.e)
        if n == "evbuffer_drain" and eq(strip(el.e[2][1]), lenv) and is_e(strip(el.e[2][0]), "var") and strip(el.e[2][0])[1] == "input":
            return True
        if n == "evbuffer_remove_buffer" and eq(strip(el.e[2][2]), lenv) and is_e(strip(el.e[2][0]), "var") and strip(el.e[2][0])[1] == "input":
            return True
        return False
    # start: after the header bytes were drained (the drain whose amount is not the payload length)
    hdr = [el for el in g.calls("evbuffer_drain") if not eq(strip(el.e[2][1]), lenv) and g.dominates(c.bid, el.bid)]
    if not hdr:
        r.brk("header drain not found")
        return r
    res = exactly_once(g, hdr[0].pos(), consume, lambda el: el is c)
    sites = [el.where() for el in g.elems() if consume(el)]
    # leaving through disconnect/bailout without consuming is fine (connection is being closed): leaks that reach the next get_ws_frame are the defect
    leaks = [w for w in res["leaks"] if w is c]
    r.inst("payload", {"consume_sites": sites, "double": [x.where() for x in res["doubles"]], "reaches_next_frame_unconsumed": len(leaks)})
    for w in res["doubles"]:
        r.bad("K11:ws_evhttp_read_cb:payload-consumed-twice", w.where(), g.name, "the payload of one frame is removed from the input twice on a path (the second removal eats the beginning of the next frame)")
    if leaks:
        r.bad("K11:ws_evhttp_read_cb:payload-not-consumed", c.where(), g.name, "a path returns to get_ws_frame without having removed the previous frame's payload (it would be decoded as a frame header)")
    return r


def rule_messages(P):
    """message reassembly: ws_evhttp_read_cb + get_ws_frame evaluated on an abstract input stream; every frame sequence of the family is fed in one piece, cut
    in two at every byte position and byte by byte; what the message callback receives (and whether the connection is closed) equals the RFC 6455 decoder"""
    r = Rule("C31-messages", "K6", "frame sequences (fragmentation, interleaved control frames, close, malformed fragmentation) are decoded into the RFC 6455 messages for every segmentation", floor=300)
    m = [0x11, 0x22, 0x33, 0x44]
    T, B, C, PING, PONG, CONT = WS.TEXT, WS.BINARY, WS.CLOSE, WS.PING, WS.PONG, WS.CONT
    fam = [
        ("single text", [(1, T, b"Hello")]),
        ("two messages", [(1, T, b"Hi"), (1, B, b"\x00\x01")]),
        ("fragmented text: first + final continuation", [(0, T, b"Hel"), (1, CONT, b"lo")]),
        ("three fragments", [(0, B, b"a"), (0, CONT, b"b"), (1, CONT, b"c")]),
        ("ping inside a fragmented message", [(0, T, b"Hel"), (1, PING, b"p"), (1, CONT, b"lo")]),
        ("pong and ping between messages", [(1, T, b"a"), (1, PONG, b""), (1, PING, b"x"), (1, T, b"b")]),
        ("fragmented, then a complete message", [(0, T, b"x"), (1, CONT, b"y"), (1, B, b"z")]),
        ("126-byte message (16-bit length)", [(1, B, bytes(range(126)))]),
        ("close, then a text frame", [(1, C, b""), (1, T, b"late")]),
        ("new data frame inside a fragmented message", [(0, T, b"Hel"), (1, T, b"lo")]),
        ("continuation without a first fragment", [(1, CONT, b"x")]),
        ("non-final continuation without a first fragment", [(0, CONT, b"x"), (1, CONT, b"y")]),
        ("fragmented ping", [(0, PING, b"p"), (1, T, b"a")]),
        ("reserved opcode", [(1, 3, b"r"), (1, T, b"a")]),
        ("unmasked frames", None),
    ]
    f = P.fn("ws_evhttp_read_cb")
    # premise of "nothing is looked at after a close": evws_close takes the read callback away
    g = P.fn("evws_close")
    sc = [el for el in g.calls("bufferevent_setcb")]
    drops = bool(sc) and all(is_e(strip(el.e[2][1]), "null") or (is_e(strip(el.e[2][1]), "int") and strip(el.e[2][1])[1] == 0) for el in sc)
    r.inst("close-drops-readcb", {"fn": g.name, "setcb_sites": [el.where() for el in sc], "read_callback_removed": drops}, nontrivial=False)
    if not drops:
        r.bad("K3:evws_close:read-callback-kept", "%s:%d" % (g.file, g.line), g.name, "evws_close does not remove the read callback: frames arriving after the close would still be decoded and delivered")
    nb = 0
    for name, frs in fam:
        if frs is None:
            frs = [(1, T, b"plain"), (0, B, b"p"), (1, CONT, b"q")]
            stream = b"".join(WS.frame(fin, op, pl, None) for fin, op, pl in frs)
        else:
            stream = b"".join(WS.frame(fin, op, pl, m) for fin, op, pl in frs)
        want = WS.reference(frs)
        segs = [()] + [(k,) for k in range(1, len(stream))] + ([tuple(range(1, len(stream)))] if len(stream) < 60 else [])
        for cuts in segs:
            got = WS.feed(P, stream, cuts)
            if isinstance(got, tuple) and got and got[0] == "unknown":
                r.brk("ws_evhttp_read_cb not evaluable on %r cut %s: %s" % (name, list(cuts)[:3], got[1]))
                return r
            # after a close nothing more may be delivered; the close itself is reported once
            r.inst((name, cuts if len(cuts) < 3 else "bytewise"), {"sequence": name, "cuts": list(cuts)[:3], "delivered": [[e[0]] + ([e[1], e[2].decode("latin-1")] if e[0] == "msg" else []) for e in got]})
            if got != want and nb < 6:
                nb += 1
                kind = "delivered-after-close" if ("close",) in got and got.index(("close",)) < len(got) - 1 else ("valid-sequence-refused" if ("close",) in got and ("close",) not in want else
                        ("malformed-sequence-delivered" if ("close",) in want and ("close",) not in got else "segmentation-or-content"))
                r.bad("K6:ws_evhttp_read_cb:%s" % kind, "%s:%d" % (f.file, f.line), f.name,
                      "frame sequence '%s' %s: delivers %s; an RFC 6455 decoder gives %s" % (name, ("cut at %s" % list(cuts)) if cuts and len(cuts) < 3 else ("byte by byte" if cuts else "in one read"), got, want))
    seen, uniq = set(), []
    for f_ in r.findings:
        if f_.key not in seen:
            seen.add(f_.key)
            uniq.append(f_)
    r.findings = uniq
    return r


def run(ctx, config):
    P = ctx.prog(UNITS, config)
    return [rule_frame(P), rule_caller(P), rule_consume(P), rule_messages(P)]
