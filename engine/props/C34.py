"""C34 — DNS requests complete exactly once: structural clauses (id uniqueness, schedule/finish pairing, pending_cb protocol, teardown order) (K6/K3/K2/K5)."""
from ..core import Rule
from ..prog import *
from ..facts import AnalysisBroken
from ..interp import normx, nkey, run_all

UNITS = ["evdns"]
LEVEL = "other"
CONFIGS = ["build", "assert"]
EXPLANATION = (
    "X1: transaction_id_pick is evaluated with generator outputs that are reserved (0xffff), in flight, and free: it returns only an id for which "
    "request_find_from_trans_id found nothing; request.trans_id is stored only from that result (or the documented placeholder values), under the base lock. "
    "X2 (pairing): every request_finished(req, .., free_handle = 1) — the call that releases the user's handle — is dominated by reply_schedule_callback for the same "
    "request (the user hears about every request that is dropped), the only exception being base teardown with fail_requests == 0 as documented; conversely after "
    "every reply_schedule_callback no path leaves the function without finishing or re-issuing that request (no second completion later). "
    "X3 (pending_cb): reply_schedule_callback is the only function that arms the user callback; it sets pending_cb, and evdns_cancel_request returns without a second "
    "completion when pending_cb is set; request_finished keeps the handle alive while a callback is pending. "
    "X4 (teardown order): in evdns_base_free_and_unlock the waiting queue is drained completely before any in-flight request is finished (finishing an in-flight request "
    "pumps the waiting queue, which would move requests into hash buckets that were already swept and leave them without a completion), and both sweeps run on "
    "every path. X5: the synchronous paths of evdns_getaddrinfo invoke the callback exactly once iff they return NULL (C38-precedence). "
    "Declined: completion counts under timeouts, retransmission, TCP fallback, nameserver failover over time.")
ASSUMPTIONS = ["request_finished pumps the waiting queue (evdns_requests_pump_waiting_queue) when an in-flight slot is released"]


def mentions(e, field):
    return any(is_e(q, "fld") and q[2] == field for q in walk(e))


def rule_ids(P):
    r = Rule("C34-ids", "K6/K2", "transaction ids: picked only when unused; stored only from the picker", floor=5)
    f = P.fn("transaction_id_pick")
    base = ["var", f.params[0][0], "param"]
    seqs = [(0xffff, 5, 7), (5, 7, 9), (7, 1, 2), (0xffff, 0xffff, 9)]
    inflight = {5}
    for seq in seqs:
        env = {base[1]: 1, "#typed": 1, nkey(["fld", base, "evdns_base.lock", "->"]): 0}
        env.update({})
        def hook(el, e_):
            n = callee_name(el.e)
            if n == "evutil_secure_rng_get_bytes":
                k = e_.get("#k", 0)
                e_["#k"] = k + 1
                v = seq[k] if k < len(seq) else 11
                tgt = strip(el.e[2][0])
                if is_e(tgt, "addr") and is_e(strip(tgt[1]), "var"):
                    e_[strip(tgt[1])[1]] = v
                return 0
            if n == "request_find_from_trans_id":
                try:
                    v = evalx(normx(el.e[2][1]), e_, P)
                except EvalError:
                    return "impure"
                return 1 if v in inflight else 0
            return None
        for o in run_all(f, (f.entry, 0), env, lambda el: False, P, hook, max_steps=400):
            if o.kind == "exit" and o.why == "noreturn":
                continue
            if o.kind != "ret":
                r.brk("transaction_id_pick: %s %s" % (o.kind, o.why))
                return r
            try:
                ret = evalx(normx(o.at.e[1]), o.env, P)
            except EvalError:
                ret = None
            want = [v for v in seq if v != 0xffff and v not in inflight][0]
            r.inst(("pick", seq), {"generator_outputs": [hex(x) for x in seq], "in_flight": [hex(x) for x in inflight], "picked": ret})
            if ret != want:
                r.bad("K6:transaction_id_pick:id-in-use", "%s:%d" % (f.file, f.line), f.name, "generator outputs %s with %s in flight: picks %s, documented %s (an id that is reserved or already in flight would let one reply complete two requests)" % (
                    [hex(x) for x in seq], [hex(x) for x in inflight], ret, hex(want)))
    for g in P.fns_in("evdns.c"):
        for el, lhs, op, rhs in g.stores():
            if fields_of(lhs)[-1:] != ["request.trans_id"]:
                continue
            rv = strip(rhs)
            why = show(rv)

            def pick_expr(h, a, depth=0):
                a = strip(a)
                if is_e(a, "call") and callee_name(a) == "transaction_id_pick":
                    return True
                if is_e(a, "int") and a[1] in (0, 0xffff):
                    return True
                if is_e(a, "cond"):
                    return pick_expr(h, a[2], depth) and pick_expr(h, a[3], depth)
                if is_e(a, "var") and depth < 4:
                    if a[2] == "param":
                        idx = [i for i, (n, t) in enumerate(h.params) if n == a[1]]
                        sites = P.callers().get(h.name, [])
                        return bool(idx) and bool(sites) and all(pick_expr(h2, e2.e[2][idx[0]], depth + 1) for h2, e2 in sites)
                    defs = [x for d, x in h.var_stores(a[1])]
                    return bool(defs) and all(pick_expr(h, x, depth + 1) for x in defs)
                return False
            ok = pick_expr(g, rv)
            r.inst(("store", g.name, el.n), {"fn": g.name, "site": el.where(), "value": why, "from_picker": ok})
            if not ok:
                r.bad("K2:%s:trans-id-not-from-picker" % g.name, el.where(), g.name, "request.trans_id is set to `%s`, which is not the result of transaction_id_pick" % why)
    return r


def rule_pairing(P):
    r = Rule("C34-pairing", "K3/K5", "handle-releasing finish is preceded by scheduling the user's callback; a scheduled completion is followed by finishing/re-issuing the request", floor=12)
    FINISHERS = ("request_finished", "client_retransmit_through_tcp", "search_try_next", "request_reissue", "request_swap_ns")
    for f in P.fns_in("evdns.c"):
        for el in f.calls("request_finished"):
            fh = strip(el.e[2][2])
            if not (is_e(fh, "int") and fh[1] == 1):
                continue
            req = el.e[2][0]
            sched = [x for x in f.calls("reply_schedule_callback") if eq(strip(x.e[2][0]), strip(req))]
            w = f.path_avoiding((f.entry, -1), lambda x: x is el, lambda x: x in sched)
            exc = None
            if w is not None and f.name == "evdns_base_free_and_unlock":
                # allowed only through the `fail_requests == 0` edge
                guards = [b for b in f.branch_blocks() if is_e(strip(b.term["cond"]), "var") and strip(b.term["cond"])[1] == "fail_requests"]
                cut = set()
                for b in guards:
                    for s, l in b.succ:
                        if l == "F":
                            cut.add((b.id, s))
                reach = f.reach_blocks(f.entry, avoid_blocks=set(x.bid for x in sched), avoid_edges=cut)
                if el.bid not in reach:
                    exc = "only when fail_requests == 0 (documented: callbacks are not invoked)"
                    w = None
            r.inst(("finish", f.name, el.n), {"fn": f.name, "site": el.where(), "request": show(req)[:50], "scheduled_before": [x.where() for x in sched], "exception": exc})
            if w is not None:
                r.bad("K5:%s:handle-released-without-completion" % f.name, el.where(), f.name,
                      "request_finished(%s, .., 1) releases the user's handle on a path that did not schedule the user's callback: that request never completes" % show(req)[:40])
        for el in f.calls("reply_schedule_callback"):
            w = f.exit_reachable_avoiding(el.pos(), lambda x: x.e[0] == "call" and callee_name(x.e) in FINISHERS)
            r.inst(("sched", f.name, el.n), {"fn": f.name, "site": el.where(), "leaves_without_finishing": bool(w)})
            if w is not None:
                r.bad("K3:%s:scheduled-but-not-finished" % f.name, el.where(), f.name, "after scheduling the user's callback the function can return with the request still queued: it would complete a second time later")
    return r


def rule_pending(P):
    r = Rule("C34-pending", "K2/K4", "pending_cb protocol: one arming site; cancel respects it; the handle survives until the callback ran", floor=4)
    arm = []
    for f in P.fns_in("evdns.c"):
        for el in f.calls("event_deferred_cb_init_"):
            if any(is_e(q, "fn") and q[1] == "reply_run_callback" for q in walk(el.e)):
                arm.append((f, el))
        for el, lhs, op, rhs in f.stores():
            if fields_of(lhs)[-1:] == ["evdns_request.pending_cb"]:
                v = strip(rhs)
                ok = (f.name == "reply_schedule_callback" and is_e(v, "int") and v[1] == 1) or (is_e(v, "int") and v[1] == 0)
                r.inst(("store", f.name, el.n), {"fn": f.name, "site": el.where(), "value": show(v)}, nontrivial=False)
                if not ok:
                    r.bad("K2:%s:pending_cb-store" % f.name, el.where(), f.name, "pending_cb is set outside reply_schedule_callback")
    r.inst("arm", {"arming_sites": ["%s@%s" % (f.name, el.where()) for f, el in arm]})
    if len(arm) != 1 or arm[0][0].name != "reply_schedule_callback":
        r.bad("K2:reply_run_callback:armed-elsewhere", arm[0][1].where() if arm else "evdns.c", arm[0][0].name if arm else "?", "the deferred user callback is armed in %d places; it must be reply_schedule_callback only" % len(arm))
    else:
        f, el = arm[0]
        sets = [s for s, lhs, op, rhs in f.stores() if fields_of(lhs)[-1:] == ["evdns_request.pending_cb"]]
        sch = list(f.calls("event_deferred_cb_schedule_"))
        ok = bool(sets) and bool(sch) and f.exit_reachable_avoiding((f.entry, -1), lambda x: x in sets) is None and f.exit_reachable_avoiding((f.entry, -1), lambda x: x in sch) is None
        r.inst("sets", {"pending_cb_set_and_scheduled_on_every_path": ok})
        if not ok:
            r.bad("K3:reply_schedule_callback:pending-not-set", el.where(), f.name, "the callback is armed without setting pending_cb / without scheduling on some path")
    g = P.fn("evdns_cancel_request")
    sched = list(g.calls("reply_schedule_callback"))
    tests = [b for b in g.branch_blocks() if mentions(b.term["cond"], "evdns_request.pending_cb")]
    ok = False
    if sched and tests:
        b = tests[0]
        t = [s for s, l in b.succ if l == "T"]
        ok = bool(t) and not any(x.bid in g.reach_blocks(t[0]) for x in sched) and all(g.dominates(b.id, x.bid) for x in sched)
    r.inst("cancel", {"cancel_returns_when_callback_pending": ok})
    if not ok:
        r.bad("K4:evdns_cancel_request:second-completion", "%s:%d" % (g.file, g.line), g.name, "cancelling a request whose callback is already pending schedules a second completion")
    h = P.fn("request_finished")
    frees = [x for x in h.calls("event_mm_free_") if mentions(x.e[2][0], "request.handle")]
    ok = bool(frees) and all(any((not t) and mentions(c, "evdns_request.pending_cb") for c, t in [negate_truth(c, t) for c, t, _ in h.guards_at(x.bid)]) for x in frees)
    r.inst("keep", {"handle_freed_only_when_no_callback_pending": ok})
    if not ok:
        r.bad("K4:request_finished:handle-freed-while-pending", "%s:%d" % (h.file, h.line), h.name, "the user's handle is freed although its callback is still pending (the deferred callback would run on freed memory)")
    return r


def rule_teardown(P):
    r = Rule("C34-teardown", "K3", "base teardown: waiting queue drained before any in-flight request is finished; both sweeps on every path", floor=2)
    f = P.fn("evdns_base_free_and_unlock")
    fin = list(f.calls("request_finished"))
    wait = [x for x in fin if mentions(x.e[2][0], "evdns_base.req_waiting_head") and not mentions(x.e[2][0], "evdns_base.req_heads")]
    infl = [x for x in fin if mentions(x.e[2][0], "evdns_base.req_heads")]
    if not wait or not infl:
        r.brk("evdns_base_free_and_unlock: the two sweeps were not recognised")
        return r
    wl = [b for b in f.branch_blocks() if mentions(b.term["cond"], "evdns_base.req_waiting_head") and f.loops_of(wait[0].bid) and b.id in f.loops_of(wait[0].bid)]
    ok = False
    if wl:
        hb = wl[0]
        # every in-flight finish is reachable only through the exit edge of the waiting loop
        exit_s = [s for s, l in hb.succ if l == "F"]
        ok = bool(exit_s) and all(f.dominates(hb.id, x.bid) and x.bid not in f.natural_loop(hb.id) for x in infl) and all(x.bid in f.reach_blocks(exit_s[0]) for x in infl)
    r.inst("order", {"waiting_sweep": [x.where() for x in wait], "inflight_sweep": [x.where() for x in infl], "waiting_drained_first": ok})
    if not ok:
        r.bad("K3:evdns_base_free_and_unlock:inflight-before-waiting", infl[0].where(), f.name,
              "in-flight requests are finished before the waiting queue has been drained: finishing one pumps a waiting request into a hash bucket that may already have been swept — it is never failed, never freed, and its timer fires on the freed base")
    frees = [x for x in f.calls("event_mm_free_") if is_e(strip(x.e[2][0]), "var") and strip(x.e[2][0])[1] == f.params[0][0]]
    both = all(f.path_avoiding((f.entry, -1), lambda y: y in frees, lambda y: False) is not None for _ in [0]) and bool(frees)
    r.inst("sweeps", {"base_freed_after_sweeps": both})
    return r


def rule_timer(P):
    r = Rule("C34-timer", "K3", "a request's timeout is deleted only when the request is finished, suspended, or re-transmitted (which re-arms it) on every path", floor=3)
    REARM = ("evdns_request_transmit", "request_submit")
    OK_FNS = {"request_finished": "the request leaves the in-flight table", "evdns_base_clear_nameservers_and_suspend": "the request is moved back to the waiting queue"}
    for f in P.fns_in("evdns.c"):
        for el in f.calls():
            n = callee_name(el.e)
            if n not in ("event_del", "evtimer_del", "event_del_nolock_", "event_del_noblock"):
                continue
            a = strip(el.e[2][0])
            if not (is_e(a, "addr") and fields_of(a[1])[-1:] == ["request.timeout_event"]):
                continue
            if f.name in OK_FNS:
                r.inst((f.name, el.n), {"fn": f.name, "site": el.where(), "justified": OK_FNS[f.name]}, nontrivial=False)
                continue
            w = f.exit_reachable_avoiding(el.pos(), lambda x: x.e[0] == "call" and callee_name(x.e) in REARM)
            # a loop back to another request is also an exit of this request's handling
            r.inst((f.name, el.n), {"fn": f.name, "site": el.where(), "returns_without_retransmit": bool(w)})
            if w is not None:
                r.bad("K3:%s:timer-deleted-request-kept" % f.name, el.where(), f.name,
                      "the request's timeout is deleted but the function can return without re-transmitting it: the request stays in flight with no timer — nothing will ever retry or fail it, its callback never runs")
    return r


def rule_id_bucket(P):
    """in-flight requests are found by transaction id through req_heads[id % n]: a request's id may change only while the request is in no bucket, and it must be (re)inserted under the
    new id before anything else happens to it"""
    r = Rule("C34-id-bucket", "K3/K5", "a transaction id is stored into a request only while it is linked in no bucket (new, or just removed from its list), and the request is then inserted "
             "under the new id (or handed to request_submit) on every path", floor=3)
    sites = []
    for f in P.fns_in("evdns.c"):
        if f.name == "request_trans_id_set":
            continue
        for el in f.calls("request_trans_id_set"):
            sites.append((f, el, strip(el.e[2][0]), el.e[2][1]))
        for el, lhs, op, rhs in f.stores():
            if fields_of(lhs)[-1:] == ["request.trans_id"] and not is_e(strip(rhs), "int") and is_e(strip(lhs), "fld"):
                sites.append((f, el, strip(strip(lhs)[1]), rhs))
    for f, el, rq, val in sites:
        if not is_e(rq, "var"):
            r.brk("%s: request expression not a variable at %s" % (f.name, el.where()))
            continue
        rv = rq[1]
        def on_req(x, names):
            return x.e[0] == "call" and callee_name(x.e) in names and any(is_e(strip(a), "var") and strip(a)[1] == rv for a in x.e[2])
        # (b) the request is in no bucket here
        fresh = [d for d, rhs in f.var_stores(rv) if rhs is not None and any(is_e(q, "call") and callee_name(q) in ("request_new", "event_mm_calloc_", "event_mm_malloc_") for q in walk(rhs))]
        removed = [x for x in f.elems() if on_req(x, ("evdns_request_remove",)) and f.pos_dominates(x.pos(), el.pos())]
        unlinked = bool(removed) or any(f.pos_dominates(d.pos(), el.pos()) for d in fresh)
        # (a) afterwards it is inserted under the new id, or submitted; waived for the function that creates the request and returns it
        creator = any(f.pos_dominates(d.pos(), el.pos()) and any(is_e(q, "call") and callee_name(q) in ("event_mm_calloc_", "event_mm_malloc_") for q in walk(rhs)) for d, rhs in f.var_stores(rv) if rhs is not None)
        w = None
        if not creator:
            w = f.exit_reachable_avoiding(el.pos(), lambda x: on_req(x, ("evdns_request_insert", "request_submit")))
        r.inst((f.name, el.n), {"fn": f.name, "site": el.where(), "request": rv, "value": show(val)[:50], "in_no_bucket_here": unlinked, "creates_the_request": creator,
                                "exit_without_insert": (w.where() if hasattr(w, "where") else "end of function") if w else None})
        if not unlinked:
            r.bad("K5:%s:id-changed-in-bucket" % f.name, el.where(), f.name,
                  "the transaction id of `%s` is replaced while the request may be linked in the bucket of its old id (no evdns_request_remove before, not a new request): the answer to the new id "
                  "is not found, the id can be picked again for another request, and finishing the request unlinks it through the wrong list head" % rv)
        elif w:
            r.bad("K3:%s:new-id-not-inserted" % f.name, el.where(), f.name, "after the new transaction id is stored the function can return (%s) without inserting the request under it" %
                  (w.where() if hasattr(w, "where") else "falls off its end"))
    if len(sites) < 3:
        r.brk("only %d transaction-id stores found" % len(sites))
    return r


def run(ctx, config):
    P = ctx.prog(UNITS, config)
    return [rule_ids(P), rule_pairing(P), rule_pending(P), rule_teardown(P), rule_timer(P), rule_id_bucket(P)]
