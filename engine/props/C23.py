"""C23 — HTTP server request framing: the message-body framing decision equals RFC 9112 section 6.1/6.3 on the abstract header domain (K6)."""
from ..core import Rule
from ..prog import *
from ..facts import AnalysisBroken
from .. import httpframe as H
from .. import chunked as CH
from .. import hdrline as HL

UNITS = ["http"]
LEVEL = "other"
CONFIGS = ["build", "assert"]
KIND = H.REQUEST
WHAT = "request"
EXPLANATION = (
    "Only the framing DECISION of the property: how the server decides where a request's body ends. evhttp_get_body and evhttp_get_body_length are evaluated from "
    "their extracted CFGs (typed C semantics) on every combination of: Transfer-Encoding absent / chunked / Chunked / 'gzip, chunked' / gzip / 'chunked, gzip' / identity; "
    "Content-Length absent / digits / zero / leading '+' / empty / trailing junk / negative; Connection absent / close / keep-alive; method with or without body "
    "(294 cases). The outcome (no body, chunked, length n, rejected) must equal RFC 9112: the final transfer coding decides (chunked -> chunked, anything else in a "
    "request -> reject: never resolved by guessing from Content-Length), Content-Length must be 1*DIGIT, Transfer-Encoding overrides Content-Length, a request with "
    "neither has no body. Found and repaired two genuine defects (Transfer-Encoding compared as a whole with \"chunked\": request smuggling; Content-Length with a sign "
    "accepted). Declined — the bulk of C23: that the parser (request line, header fields, chunk syntax, trailers) accepts exactly the RFC grammar under every "
    "segmentation; duplicate/conflicting Content-Length fields (evhttp_find_header returns the first); obs-fold; whitespace before the colon.")
ASSUMPTIONS = ["evhttp_find_header returns the field value with surrounding white space removed", "evutil_strtoll behaves like strtoll"]


def run(ctx, config):
    P = ctx.prog(UNITS, config)
    r = Rule("%s-framing" % __name__.split(".")[-1], "K6", "%s body framing decision equals RFC 9112 6.1/6.3 on the abstract header domain" % WHAT, floor=250)
    nb = 0
    for s in H.scenarios(KIND):
        got = H.evaluate(P, s)
        want = H.rfc_decision(s)
        if want == ("length", 0):
            want = ("none",)
        if got == ("length", 0):
            got = ("none",)
        r.inst(s.key(), {"transfer_encoding": s.te, "content_length": list(s.cl) if s.cl else None, "connection": s.conn, "method_may_have_body": s.may, "status": s.code, "head": s.head,
                         "libevent": list(got), "rfc9112": list(want)})
        if got[0] == "unknown":
            r.brk("framing evaluation: %s" % got[1])
            break
        if got != want:
            sig = "te=%s:cl=%s:conn=%s" % ("chunked-final" if s.te and s.te.split(",")[-1].strip().lower() == "chunked" else ("other" if s.te else "none"), s.cl[0] if s.cl else "none",
                                           (s.conn or "none") if KIND == H.RESPONSE else "-")
            key = "K6:evhttp_get_body:framing:%s:%s:%s->%s" % (WHAT, sig, want[0], got[0])
            if nb < 40:
                nb += 1
                f = P.fn("evhttp_get_body")
                r.bad(key, "%s:%d" % (f.file, f.line), f.name,
                      "%s with Transfer-Encoding %r, Content-Length %s, Connection %r%s: libevent frames it as %s, RFC 9112 says %s" % (
                          WHAT, s.te, s.cl, s.conn, (", status %d%s" % (s.code, " to HEAD" if s.head else "")) if KIND == H.RESPONSE else "", got, want))
    # de-duplicate findings by key (many scenarios share one cause)
    seen, uniq = set(), []
    for f_ in r.findings:
        if f_.key not in seen:
            seen.add(f_.key)
            uniq.append(f_)
    r.findings = uniq
    return [r, CH.rule_chunked(P, "%s-chunked" % __name__.split(".")[-1], WHAT)] + ([HL.rule_fieldname(P, "C23-fieldname")] if KIND == H.REQUEST else [])
